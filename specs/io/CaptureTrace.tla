---------------------------- MODULE CaptureTrace ----------------------------
(***************************************************************************)
(* C16, V direction: event traces RECORDED FROM THE REAL CODE (hooks in    *)
(* src/sys/process_common.rs; every event carries a sequence number taken  *)
(* together with the state change) are validated against the capture       *)
(* protocol.  The trace specification reuses Capture's actions; a logged   *)
(* step is allowed only if it is the next recorded event and reproduces    *)
(* the logged values (bytes buffered, flag value seen, child seen exited). *)
(* The child's own steps are NOT logged: TLC infers them (Silent).         *)
(*   IOEnv.TRACES  ndjson {"plan":.., "events":[..], "res":{"k","s"}}      *)
(* One initial state per trace.  A trace is ACCEPTED iff some behaviour    *)
(* consumes all its events and ends in the recorded result; a record is    *)
(* printed for every such state (and the furthest position reached, with   *)
(* PROGRESS=1, to locate a rejection).                                     *)
(***************************************************************************)
EXTENDS Capture
Traces == ndJsonDeserialize(IOEnv.TRACES)
Progress == IOEnv.PROGRESS = "1"
VARIABLES t, l, cpc            \* trace index, position in its events, position in the child's script
tvars == <<vars, t, l, cpc>>
Evs == Traces[t].events
StreamOf(n) == IF n = 1 THEN "out" ELSE "err"

Script == Traces[t].script           \* what the child was told: sequence of <<stream number, bytes>>, then exit (or hang)
TInit == /\ t \in 1..Len(Traces) /\ l = 1 /\ cpc = 1 /\ InitWith(Traces[t].plan)
Ev(kind) == l <= Len(Evs) /\ Evs[l].ev = kind /\ l' = l + 1 /\ t' = t /\ cpc' = cpc
\* the child's own steps are inferred: the next write(2) of its script (atomic, at most PIPE_BUF bytes), its exit
ScriptWrite == /\ child = "running" /\ cpc <= Len(Script)
               /\ LET s == StreamOf(Script[cpc][1])  n == Script[cpc][2] IN
                  IF ~Captured(s) THEN written' = [written EXCEPT ![s] = @ + n] /\ cpc' = cpc + 1 /\ UNCHANGED <<pipe, child, waitable>>
                  ELSE IF ~rdOpen[s] THEN child' = "sigpipe" /\ waitable' = FALSE /\ UNCHANGED <<written, pipe, cpc>>
                  ELSE pipe' = [pipe EXCEPT ![s] = @ + n] /\ written' = [written EXCEPT ![s] = @ + n] /\ cpc' = cpc + 1 /\ UNCHANGED <<child, waitable>>
               /\ UNCHANGED <<plan, rdOpen, rpc, buf, flag, wpc, status, jpc, res>>
ScriptExit == /\ child = "running" /\ cpc > Len(Script) /\ ~plan.hang /\ child' = "exited" /\ waitable' = FALSE
              /\ UNCHANGED <<plan, written, pipe, rdOpen, rpc, buf, flag, wpc, status, jpc, res, cpc>>
Silent == /\ (ScriptWrite \/ ScriptExit \/ ((ChildGone \/ Finish \/ WaiterDeadlineAny) /\ cpc' = cpc)) /\ l' = l /\ t' = t
TRead == /\ Ev("read")
         /\ LET s == StreamOf(Evs[l].s) IN
            /\ ReaderStep(s) /\ pipe[s] > 0
            /\ IF Evs[l].over THEN rpc'[s] = "done" /\ flag' = Evs[l].flag /\ buf[s] = Evs[l].buf /\ buf[s] + Evs[l].n > plan.cap
               ELSE rpc'[s] = "read" /\ buf'[s] = Evs[l].buf /\ buf'[s] = buf[s] + Evs[l].n
TEof == /\ Ev("eof") /\ LET s == StreamOf(Evs[l].s) IN ReaderStep(s) /\ pipe[s] = 0
TPoll == /\ Ev("poll") /\ WaiterPoll /\ flag = Evs[l].flag
TTry == /\ Ev("trywait") /\ WaiterTryWait /\ (Evs[l].exited <=> ChildDead)
TKill == /\ Ev("kill") /\ WaiterKill /\ status[1] = Evs[l].why
TJoin == /\ Ev("join") /\ JoinStream /\ JoinOrder[jpc] = StreamOf(Evs[l].s) /\ flag = Evs[l].flag
TNext == Silent \/ TRead \/ TEof \/ TPoll \/ TTry \/ TKill \/ TJoin
TSpec == TInit /\ [][TNext]_tvars

Consumed == l = Len(Evs) + 1
Accepted == Consumed /\ res.k = Traces[t].res.k /\ res.s = Traces[t].res.s
Sound == Complete /\ OverLimitIsError /\ UncapturedNull /\ ErrorIsDue /\ NoOrphan
Report == /\ Accepted => PrintT(ToJson([t |-> t, accepted |-> TRUE, sound |-> Sound]))
          /\ (Progress /\ ~Accepted) => PrintT(ToJson([t |-> t, l |-> l, res |-> res]))
=============================================================================
