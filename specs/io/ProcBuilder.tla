----------------------------- MODULE ProcBuilder -----------------------------
(***************************************************************************)
(* C15 - a child process gets exactly the configured argv / environment /  *)
(* working directory / standard input; a command that breaks a limit or a  *)
(* validity rule, or any command under a forbidding host policy, is        *)
(* refused before anything is spawned.                                     *)
(*                                                                         *)
(* State = the process_command builder: program, args (a sequence), env    *)
(* (an ordered map, last write per key wins), cwd, stdin policy / text,    *)
(* stdout / stderr policy, timeout.  One action per builder method.        *)
(* Strings are ABSTRACT TOKENS (identity, length, contains NUL, contains   *)
(* `=`); every use of a string remembers the index of the call that        *)
(* supplied it, so the binding can give every occurrence its own bytes.    *)
(* Limits and the host policy are parameters (IOEnv): they are TINY so     *)
(* that TLC crosses every limit exactly at its boundary.                   *)
(*                                                                         *)
(*   Run = Refuse(reasons)  iff  the policy forbids or a rule is broken    *)
(*       = Spawn(argv = <<program>> \o args, env overrides, cwd, stdin)    *)
(*                                                                         *)
(* The history `calls` is part of the state: TLC enumerates ALL call       *)
(* orders of at most MAXCALLS builder calls, and prints one JSON record    *)
(* per Run outcome (the call sequence and the outcome) for the replay.     *)
(***************************************************************************)
EXTENDS Integers, Sequences, TLC, FiniteSets, Json, IOUtils

Num(name) == atoi(IOEnv[name])
MaxCalls         == Num("MAXCALLS")
Profile          == IOEnv.PROFILE          \* "full" | "argenv"
AllowProcess     == IOEnv.ALLOW = "1"
MaxProgramBytes  == Num("MAXPROGRAM")
MaxCwdBytes      == Num("MAXCWD")
MaxArgs          == Num("MAXARGS")
MaxArgBytes      == Num("MAXARGBYTES")
MaxTotalArgBytes == Num("MAXTOTALARG")
MaxEnvPairs      == Num("MAXENVPAIRS")
MaxKeyBytes      == Num("MAXKEY")
MaxValBytes      == Num("MAXVAL")
MaxTotalEnvBytes == Num("MAXTOTALENV")
MaxStdinBytes    == Num("MAXSTDIN")
MaxTimeout       == Num("MAXTIMEOUT")      \* in model time units
DefTimeout       == Num("DEFTIMEOUT")      \* the default timeout, same units
\* MODE = "enum": enumerate every call order over the small token table below.
\* MODE = "cases": evaluate given call sequences (IOEnv.CASES, ndjson {"prog","tok":{id:{len,nul,eq}},"calls":[..]});
\*   used for the REAL default limits, one boundary at a time, with tokens of real sizes.
Scripted == IOEnv.MODE = "cases"
Cases == ndJsonDeserialize(IOEnv.CASES)

(* ---------------- tokens ---------------- *)
\* id |-> [len, nul, eq]; two tokens with different ids are different strings
Tok0 == [e0 |-> [len |-> 0, nul |-> FALSE, eq |-> FALSE],
        a1 |-> [len |-> 1, nul |-> FALSE, eq |-> FALSE],
        b1 |-> [len |-> 1, nul |-> FALSE, eq |-> FALSE],
        a2 |-> [len |-> 2, nul |-> FALSE, eq |-> FALSE],
        a3 |-> [len |-> 3, nul |-> FALSE, eq |-> FALSE],
        a4 |-> [len |-> 4, nul |-> FALSE, eq |-> FALSE],
        n2 |-> [len |-> 2, nul |-> TRUE,  eq |-> FALSE],
        q2 |-> [len |-> 2, nul |-> FALSE, eq |-> TRUE]]
\* timeouts as tokens too: value in model units
TimeoutVal == [t0 |-> 0, t1 |-> 1, tM |-> MaxTimeout, tX |-> MaxTimeout + 1]

ArgToks     == {"e0", "a1", "a2", "a3", "a4", "n2", "q2"}
ProgToks    == IF Profile = "full" THEN {"a2", "a3", "a4", "e0", "n2"} ELSE {"a2"}
CwdToks     == {"a1", "a2", "a3", "a4", "e0", "n2"}
StdinToks   == {"e0", "a1", "a2", "a3", "a4", "n2"}
GoodKeys    == {"a1", "b1", "a2"}
GoodVals    == {"e0", "a1", "a2", "q2"}
EnvChoices  == (GoodKeys \X GoodVals)
               \cup (IF Profile = "full" THEN ({"a3", "a4", "e0", "n2", "q2"} \X {"a1"}) \cup ({"a1"} \X {"a3", "a4", "n2"})
                     ELSE {<<"a2", "a3">>, <<"a3", "a1">>})
TimeoutToks == {"t0", "t1", "tM", "tX"}
Policies    == {"capture", "inherit", "null"}
SoName == [capture |-> "stdout_capture", inherit |-> "stdout_inherit", null |-> "stdout_null"]
SeName == [capture |-> "stderr_capture", inherit |-> "stderr_inherit", null |-> "stderr_null"]

VARIABLES cs,         \* 0, or the index of the given case (MODE = "cases")
          calls,      \* history: sequence of <<method, token...>>
          prog,       \* program token (call index 0)
          args,       \* sequence of <<token, call index>>
          envOrder,   \* keys in order of first write
          envVal,     \* key |-> <<value token, call index>>
          cwd,        \* <<>> or <<token, call index>>
          stdin,      \* <<"inherit">> | <<"null">> | <<"text", token, call index>>
          so, se,     \* stdout / stderr policy
          timeout,    \* "-" (default) or a timeout token
          outcome     \* None until Run
vars == <<cs, calls, prog, args, envOrder, envVal, cwd, stdin, so, se, timeout, outcome>>
None == [k |-> "none"]
Tok == IF cs = 0 THEN Tok0 ELSE Cases[cs].tok
Len_(t) == Tok[t].len

Init == /\ IF Scripted THEN cs \in 1..Len(Cases) /\ prog = Cases[cs].prog
           ELSE cs = 0 /\ prog \in ProgToks
        /\ calls = <<>> /\ args = <<>> /\ envOrder = <<>> /\ envVal = [k \in {} |-> <<>>]
        /\ cwd = <<>> /\ stdin = <<"inherit">> /\ so = "inherit" /\ se = "inherit" /\ timeout = "-"
        /\ outcome = None

\* a command whose program is already invalid gets at most one more builder call (every Run is refused anyway)
ProgOk == Len_(prog) > 0 /\ ~Tok[prog].nul /\ Len_(prog) <= MaxProgramBytes
Open == outcome = None /\ Len(calls) < (IF cs > 0 THEN Len(Cases[cs].calls) ELSE IF ProgOk THEN MaxCalls ELSE 1)
Full == Profile = "full" \/ cs > 0
Here == Len(calls) + 1
Log(c) == /\ cs > 0 => c = Cases[cs].calls[Here]
          /\ calls' = Append(calls, c) /\ cs' = cs

Arg(t) == /\ Open /\ Log(<<"arg", t>>) /\ args' = Append(args, <<t, Here>>)
          /\ UNCHANGED <<prog, envOrder, envVal, cwd, stdin, so, se, timeout, outcome>>
\* env(key, value): last write per key wins; a new key goes to the end
Env(k, v) == /\ Open /\ Log(<<"env", k, v>>)
             /\ envVal' = [x \in DOMAIN envVal \cup {k} |-> IF x = k THEN <<v, Here>> ELSE envVal[x]]
             /\ envOrder' = IF k \in DOMAIN envVal THEN envOrder ELSE Append(envOrder, k)
             /\ UNCHANGED <<prog, args, cwd, stdin, so, se, timeout, outcome>>
Cwd(t) == /\ Full /\ Open /\ Log(<<"cwd", t>>) /\ cwd' = <<t, Here>>
          /\ UNCHANGED <<prog, args, envOrder, envVal, stdin, so, se, timeout, outcome>>
StdinText(t) == /\ Full /\ Open /\ Log(<<"stdin_text", t>>) /\ stdin' = <<"text", t, Here>>
                /\ UNCHANGED <<prog, args, envOrder, envVal, cwd, so, se, timeout, outcome>>
StdinInherit == /\ Full /\ Open /\ Log(<<"stdin_inherit">>) /\ stdin' = <<"inherit">>
                /\ UNCHANGED <<prog, args, envOrder, envVal, cwd, so, se, timeout, outcome>>
StdinNull == /\ Full /\ Open /\ Log(<<"stdin_null">>) /\ stdin' = <<"null">>
             /\ UNCHANGED <<prog, args, envOrder, envVal, cwd, so, se, timeout, outcome>>
Stdout(p) == /\ Full /\ Open /\ Log(<<SoName[p]>>) /\ so' = p
             /\ UNCHANGED <<prog, args, envOrder, envVal, cwd, stdin, se, timeout, outcome>>
Stderr(p) == /\ Full /\ Open /\ Log(<<SeName[p]>>) /\ se' = p
             /\ UNCHANGED <<prog, args, envOrder, envVal, cwd, stdin, so, timeout, outcome>>
\* A timeout that no limit setting could make valid (zero) may be refused by the call itself: the
\* script ends there with the configuration error (the property only demands refusal before a spawn).
TimeoutMs(t) == /\ Full /\ Open /\ Log(<<"timeout_ms", t>>)
                /\ IF TimeoutVal[t] = 0
                   THEN outcome' = [k |-> "refuse", why |-> {"timeout"}] /\ UNCHANGED timeout
                   ELSE timeout' = t /\ UNCHANGED outcome
                /\ UNCHANGED <<prog, args, envOrder, envVal, cwd, stdin, so, se>>

(* ---------------- validation: which rules does the builder state break? ---------------- *)
RECURSIVE SumArgs(_)
SumArgs(i) == IF i = 0 THEN 0 ELSE Len_(args[i][1]) + SumArgs(i - 1)
RECURSIVE SumEnv(_)
SumEnv(i) == IF i = 0 THEN 0 ELSE Len_(envOrder[i]) + Len_(envVal[envOrder[i]][1]) + SumEnv(i - 1)
EffTimeout == IF timeout = "-" THEN DefTimeout ELSE TimeoutVal[timeout]

Broken ==
     (IF Len_(prog) = 0 \/ Tok[prog].nul \/ Len_(prog) > MaxProgramBytes THEN {"program"} ELSE {})
  \cup (IF Len(args) > MaxArgs THEN {"args-count"} ELSE {})
  \cup (IF \E i \in 1..Len(args) : Tok[args[i][1]].nul \/ Len_(args[i][1]) > MaxArgBytes THEN {"arg"} ELSE {})
  \cup (IF SumArgs(Len(args)) > MaxTotalArgBytes THEN {"args-total"} ELSE {})
  \cup (IF cwd # <<>> /\ (Len_(cwd[1]) = 0 \/ Tok[cwd[1]].nul \/ Len_(cwd[1]) > MaxCwdBytes) THEN {"cwd"} ELSE {})
  \cup (IF Len(envOrder) > MaxEnvPairs THEN {"env-count"} ELSE {})
  \cup (IF \E i \in 1..Len(envOrder) : LET k == envOrder[i] IN Len_(k) = 0 \/ Tok[k].nul \/ Tok[k].eq \/ Len_(k) > MaxKeyBytes
        THEN {"env-key"} ELSE {})
  \cup (IF \E i \in 1..Len(envOrder) : LET v == envVal[envOrder[i]][1] IN Tok[v].nul \/ Len_(v) > MaxValBytes
        THEN {"env-value"} ELSE {})
  \cup (IF SumEnv(Len(envOrder)) > MaxTotalEnvBytes THEN {"env-total"} ELSE {})
  \cup (IF stdin[1] = "text" /\ (Tok[stdin[2]].nul \/ Len_(stdin[2]) > MaxStdinBytes) THEN {"stdin"} ELSE {})
  \cup (IF EffTimeout = 0 \/ EffTimeout > MaxTimeout THEN {"timeout"} ELSE {})

Run == /\ outcome = None /\ (cs > 0 => Len(calls) = Len(Cases[cs].calls))
       /\ outcome' = IF ~AllowProcess THEN [k |-> "denied"]
                     ELSE IF Broken # {} THEN [k |-> "refuse", why |-> Broken]
                     ELSE [k |-> "spawn", argv |-> <<<<prog, 0>>>> \o args,
                           env |-> [i \in 1..Len(envOrder) |-> <<envOrder[i], envVal[envOrder[i]][1], envVal[envOrder[i]][2]>>],
                           cwd |-> cwd, stdin |-> stdin, so |-> so, se |-> se, timeout |-> timeout]
       /\ UNCHANGED <<cs, calls, prog, args, envOrder, envVal, cwd, stdin, so, se, timeout>>

Given == DOMAIN Cases[cs].tok
\* MODE = "cases": the next call of the given sequence, with the case's own tokens
ScriptStep == /\ cs > 0
              /\ \/ \E t \in Given : Arg(t) \/ Cwd(t) \/ StdinText(t)
                 \/ \E k \in Given, v \in Given : Env(k, v)
Next == \/ \E t \in ArgToks : Arg(t)
        \/ \E c \in EnvChoices : Env(c[1], c[2])
        \/ \E t \in CwdToks : Cwd(t)
        \/ \E t \in StdinToks : StdinText(t)
        \/ StdinInherit
        \/ StdinNull
        \/ \E p \in Policies : Stdout(p)
        \/ \E p \in Policies : Stderr(p)
        \/ \E t \in TimeoutToks : TimeoutMs(t)
        \/ ScriptStep
        \/ Run
Spec == Init /\ [][Next]_vars

(* ---------------- what the property states ---------------- *)
\* a spawn happens only for a permitted, valid command (refusal comes BEFORE any spawn) ...
SpawnOnlyIfValid == (outcome.k = "spawn") => (AllowProcess /\ Broken = {})
\* ... a valid permitted command is not refused ...
EagerRefusal == calls # <<>> /\ calls[Len(calls)][1] = "timeout_ms" /\ TimeoutVal[calls[Len(calls)][2]] = 0
RefuseOnlyIfBroken == (outcome.k = "refuse") => (Broken # {} \/ EagerRefusal)
DeniedIffForbidden == outcome # None => ((outcome.k = "denied") <=> (~AllowProcess /\ ~EagerRefusal))
\* ... and a spawn carries exactly the builder state: all arguments in call order, the last value of every key
LastWrite(k) == LET I == {i \in 1..Len(calls) : calls[i][1] = "env" /\ calls[i][2] = k} IN
                CHOOSE i \in I : \A j \in I : j <= i
SpawnCarriesState ==
  (outcome.k = "spawn") =>
     /\ outcome.argv = <<<<prog, 0>>>> \o [i \in 1..Len(args) |-> args[i]]
     /\ Len(outcome.argv) = 1 + Cardinality({i \in 1..Len(calls) : calls[i][1] = "arg"})
     /\ \A i \in 1..Len(args) : calls[args[i][2]] = <<"arg", args[i][1]>> /\ (i > 1 => args[i - 1][2] < args[i][2])
     /\ {e[1] : e \in {outcome.env[i] : i \in 1..Len(outcome.env)}} = {calls[i][2] : i \in {j \in 1..Len(calls) : calls[j][1] = "env"}}
     /\ \A i \in 1..Len(outcome.env) : LET e == outcome.env[i] IN e[3] = LastWrite(e[1]) /\ calls[e[3]] = <<"env", e[1], e[2]>>
     /\ Cardinality({outcome.env[i][1] : i \in 1..Len(outcome.env)}) = Len(outcome.env)

Emit == outcome # None => PrintT(ToJson([cs |-> cs, calls |-> calls, prog |-> prog, out |-> outcome]))
Header == (cs = 0 /\ calls = <<>> /\ outcome = None /\ prog = "a2") =>
            PrintT(ToJson([header |-> TRUE, tok |-> Tok0, timeouts |-> TimeoutVal]))
=============================================================================
