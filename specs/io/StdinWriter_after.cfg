CONSTANTS Text = 4  PipeCap = 2  Order = "join-after"
SPECIFICATION Spec
INVARIANT TypeOK
PROPERTY Ends
PROPERTY NotLeftRunning
