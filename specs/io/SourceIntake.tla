---------------------------- MODULE SourceIntake ----------------------------
(***************************************************************************)
(* How the shipped command obtains a script and turns the outcome of the   *)
(* pipeline into a process exit status (src/bin/naija/cmd.rs).             *)
(*                                                                         *)
(* A script is a sequence of characters, each 1..4 bytes wide in UTF-8.    *)
(* Standard input delivers it as a byte stream in reads of at most K bytes *)
(* (short reads are allowed: every read returns 1..K bytes).  The reader   *)
(* appends every read to a buffer and decodes the WHOLE buffer at end of   *)
(* input.  Property (C14, "standard input"): the text handed to the        *)
(* pipeline is the script, whatever the read boundaries were - in          *)
(* particular when a boundary falls inside a multi-byte character.         *)
(* Mode = "perchunk" is the plausible slip of validating each read on its  *)
(* own; TLC must refute it.                                                *)
(*                                                                         *)
(* The exit status is a byte (modulus B, 256 in reality, small here).      *)
(* Property: status = 0 iff the pipeline produced no error diagnostic.     *)
(* Status = "count" is the slip of reporting the number of errors, which   *)
(* wraps to 0 at B; TLC must refute it.                                    *)
(*                                                                         *)
(* TLC also prints the case classes the conformance check instantiates at  *)
(* the real sizes: every (width, split offset, which boundary) at which a  *)
(* character can straddle a read boundary, and the error counts around     *)
(* multiples of the modulus.                                               *)
(***************************************************************************)
EXTENDS Integers, Sequences, FiniteSets, TLC, Json

CONSTANTS K,        \* largest read
          MaxChars, \* characters per script
          B,        \* exit status modulus
          Mode,     \* "whole" | "perchunk"
          Status    \* "flag" | "count"

VARIABLES text,     \* the script: sequence of character widths
          pos,      \* bytes delivered so far
          cuts,     \* byte offsets at which a read ended
          rejected, \* the reader refused the input as malformed
          phase,    \* "read" | "run" | "exit"
          nerr,     \* error diagnostics produced by the pipeline
          status
vars == <<text, pos, cuts, rejected, phase, nerr, status>>

RECURSIVE Sum(_)
Sum(s) == IF s = <<>> THEN 0 ELSE Head(s) + Sum(Tail(s))
Bytes(t) == Sum(t)
\* byte offsets that lie strictly inside a character of t
RECURSIVE InsideFrom(_, _)
InsideFrom(t, off) == IF t = <<>> THEN {} ELSE {off + j : j \in 1..(Head(t) - 1)} \cup InsideFrom(Tail(t), off + Head(t))
Inside(t) == InsideFrom(t, 0)

Init == /\ text \in UNION {[1..n -> 1..4] : n \in 0..MaxChars}
        /\ pos = 0 /\ cuts = {} /\ rejected = FALSE /\ phase = "read" /\ nerr = 0 /\ status = -1

\* one read of 1..K bytes; a read that ends inside a character is only a problem for "perchunk"
Read == /\ phase = "read" /\ pos < Bytes(text)
        /\ \E n \in 1..K : /\ pos + n <= Bytes(text)
                           /\ pos' = pos + n
                           /\ cuts' = cuts \cup {pos + n}
                           /\ rejected' = (rejected \/ (Mode = "perchunk" /\ (pos + n) \in Inside(text)))
        /\ UNCHANGED <<text, phase, nerr, status>>
EndOfInput == /\ phase = "read" /\ pos = Bytes(text)
              /\ phase' = IF rejected THEN "exit" ELSE "run"
              /\ status' = IF rejected THEN 1 ELSE status
              /\ nerr' = IF rejected THEN 1 ELSE nerr
              /\ UNCHANGED <<text, pos, cuts, rejected>>
\* the pipeline: any number of error diagnostics
Run == /\ phase = "run"
       /\ \E n \in 0..(2 * B + 1) : /\ nerr' = n
                                    /\ status' = IF Status = "count" THEN n % B ELSE (IF n = 0 THEN 0 ELSE 1)
       /\ phase' = "exit"
       /\ UNCHANGED <<text, pos, cuts, rejected>>
Done == phase = "exit" /\ UNCHANGED vars
Next == Read \/ EndOfInput \/ Run \/ Done
Spec == Init /\ [][Next]_vars

\* ---- properties ----
WellFormedAccepted == ~rejected                       \* every script is well-formed UTF-8 by construction
StatusRule == phase = "exit" => ((status = 0) <=> (nerr = 0))
TypeOK == pos \in 0..Bytes(text) /\ status \in -1..(B - 1)

\* ---- case classes for the conformance check (printed once per class) ----
\* a read boundary `c` inside a character of width w, o bytes after the character's start
Straddles == {<<w, o>> : w \in 2..4, o \in 1..3} \cap {<<w, o>> \in (2..4) \X (1..3) : o < w}
EmitCases == /\ TLCGet("level") = 1 /\ text = <<>>
             => PrintT(ToJson([straddle |-> {[w |-> p[1], o |-> p[2]] : p \in Straddles},
                               boundaries |-> {1, 2, 3},
                               \* error counts m * B + d
                               errs |-> {[m |-> 0, d |-> 1], [m |-> 0, d |-> 2], [m |-> 1, d |-> -1], [m |-> 1, d |-> 0], [m |-> 1, d |-> 1], [m |-> 2, d |-> 0]}]))
=============================================================================
