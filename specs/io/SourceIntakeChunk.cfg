CONSTANTS K = 3  MaxChars = 3  B = 3  Mode = "perchunk"  Status = "flag"
SPECIFICATION Spec
INVARIANTS TypeOK WellFormedAccepted StatusRule EmitCases
CHECK_DEADLOCK FALSE
