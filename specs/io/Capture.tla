------------------------------- MODULE Capture -------------------------------
(***************************************************************************)
(* C16, IMPLEMENTATION-SHAPED layer of the capture protocol                *)
(* (src/sys/process_common.rs): one action per step between two gates.     *)
(*                                                                         *)
(*  child   writes its planned bytes, one per step, into bounded pipes     *)
(*          (or nowhere for null/inherit); a write after the reader closed *)
(*          kills it (SIGPIPE); exits when everything is written (unless   *)
(*          the plan says it hangs)                                        *)
(*  reader  (one per captured stream) takes <= ReadMax bytes per step (all *)
(*          that is there when READALL=1, like read(2) into a large        *)
(*          buffer); a step that would pass the limit sets the single      *)
(*          first-wins flag and stops, closing the pipe; EOF stops it      *)
(*  waiter  loops  poll flag -> try_wait -> timeout? ; kills on overflow   *)
(*          or timeout                                                     *)
(*  join    after the waiter: per captured stream (stdout first) wait for  *)
(*          its reader, RE-CHECK the flag, validate UTF-8                  *)
(*                                                                         *)
(* The verdict is the ABSTRACT layer's (CaptureAbs): the invariants below  *)
(* apply its predicates to the script-visible outcome of every terminated  *)
(* behaviour.  RECHECK=0 deletes the post-exit re-check: Complete /        *)
(* OverLimitIsError must then fail (the driver checks that they do).       *)
(*                                                                         *)
(* With EDGES=1 every transition is printed as JSON (pre-state, step,      *)
(* post-state): the driver turns paths of that graph into schedules that   *)
(* are forced in the real code through the gates.                          *)
(***************************************************************************)
EXTENDS Integers, Sequences, TLC, FiniteSets, Json, IOUtils
A == INSTANCE CaptureAbs

Num(name) == atoi(IOEnv[name])
Cap      == Num("CAP")           \* capture limit per stream
PipeCap  == Num("PIPECAP")       \* pipe capacity
ReadMax  == Num("READMAX")       \* bytes per read step
ReadAll  == IOEnv.READALL = "1"  \* a read takes everything that is available
MaxW     == Num("MAXW")          \* plans write 0..MaxW bytes per stream
Recheck  == IOEnv.RECHECK = "1"
Hangs    == IF IOEnv.HANG = "1" THEN BOOLEAN ELSE {FALSE}
Bads     == IF IOEnv.BAD = "1" THEN BOOLEAN ELSE {FALSE}
Timeouts == IOEnv.TIMEOUTS = "1" \* may the deadline pass during a run?
Edges    == IOEnv.EDGES = "1"
\* A process does not end in one step: its descriptors are closed (readers see EOF) BEFORE the parent
\* can wait for it.  ATOMICEXIT=1 merges the two (used for the schedule graph: the replay controller
\* waits until the child is waitable before it lets anybody move).
AtomicExit == IOEnv.ATOMICEXIT = "1"
\* ANYORDER=1: inside its loop the waiter may look at the flag and at the child in any order, any
\* number of times (the property does not depend on that order; trace validation uses this so that
\* an implementation that polls the child before the flag is still explained).
AnyOrder == IOEnv.ANYORDER = "1"

Streams == {"out", "err"}
Order == <<"out", "err">>        \* join order
Code(s) == IF s = "out" THEN 1 ELSE 2

VARIABLES plan,                    \* see CaptureAbs
          child,                   \* "running" | "exited" | "killed" | "sigpipe"
          waitable,                \* the parent's try_wait / wait would see the child's end now
          written, pipe, rdOpen,   \* per stream: bytes written, bytes in the pipe, read end open
          rpc, buf,                \* per stream: reader "read" | "done" | "none", bytes buffered
          flag,                    \* overflow flag 0 / 1 / 2, first setter wins
          wpc, status,             \* waiter "poll" | "trywait" | "kill" | "done"; <<"none"|"exit"|"overflow"|"timeout", detail>>
          jpc, res                 \* join: index into Order of the next stream; result [k, s]
vars == <<plan, child, waitable, written, pipe, rdOpen, rpc, buf, flag, wpc, status, jpc, res>>

Captured(s) == plan.pol[s] = "capture"
NoRes == [k |-> "none", s |-> "-"]

Plans == [W : [Streams -> 0..MaxW], pol : [Streams -> {"capture", "discard"}], bad : [Streams -> Bads],
          code : {0}, hang : Hangs, cap : {Cap}]
InitWith(p) == /\ plan = p
               /\ child = "running" /\ waitable = FALSE /\ written = [s \in Streams |-> 0] /\ pipe = [s \in Streams |-> 0]
               /\ rdOpen = [s \in Streams |-> p.pol[s] = "capture"]
               /\ rpc = [s \in Streams |-> IF p.pol[s] = "capture" THEN "read" ELSE "none"]
               /\ buf = [s \in Streams |-> 0]
               /\ flag = 0 /\ wpc = "poll" /\ status = <<"none", 0>> /\ jpc = 1 /\ res = NoRes
Init == \E p \in Plans : (\A s \in Streams : p.bad[s] => p.W[s] > 0) /\ InitWith(p)

(* ---------------- child ---------------- *)
ChildWrite(s) ==
  /\ child = "running" /\ written[s] < plan.W[s]
  /\ IF ~Captured(s) THEN written' = [written EXCEPT ![s] = @ + 1] /\ UNCHANGED <<pipe, child, waitable>>
     ELSE IF ~rdOpen[s] THEN child' = "sigpipe" /\ waitable' = AtomicExit /\ UNCHANGED <<written, pipe>>
     ELSE /\ pipe[s] < PipeCap
          /\ pipe' = [pipe EXCEPT ![s] = @ + 1] /\ written' = [written EXCEPT ![s] = @ + 1] /\ UNCHANGED <<child, waitable>>
  /\ UNCHANGED <<plan, rdOpen, rpc, buf, flag, wpc, status, jpc, res>>
ChildExit ==
  /\ child = "running" /\ ~plan.hang /\ \A s \in Streams : written[s] = plan.W[s]
  /\ child' = "exited" /\ waitable' = AtomicExit
  /\ UNCHANGED <<plan, written, pipe, rdOpen, rpc, buf, flag, wpc, status, jpc, res>>
\* the ended child becomes visible to its parent
ChildGone ==
  /\ child # "running" /\ ~waitable /\ waitable' = TRUE
  /\ UNCHANGED <<plan, child, written, pipe, rdOpen, rpc, buf, flag, wpc, status, jpc, res>>
WritersGone == child # "running"           \* every write end is closed: a reader of an empty pipe gets EOF
ChildDead == child # "running" /\ waitable \* what try_wait reports

(* ---------------- readers ---------------- *)
Min(a, b) == IF a < b THEN a ELSE b
ReaderStep(s) ==
  /\ rpc[s] = "read"
  /\ \/ /\ pipe[s] > 0
        /\ \E n \in (IF ReadAll THEN {Min(pipe[s], ReadMax)} ELSE 1..Min(pipe[s], ReadMax)) :
             IF buf[s] + n > plan.cap
             THEN /\ flag' = (IF flag = 0 THEN Code(s) ELSE flag)
                  /\ rpc' = [rpc EXCEPT ![s] = "done"] /\ rdOpen' = [rdOpen EXCEPT ![s] = FALSE]
                  /\ UNCHANGED <<buf, pipe>>
             ELSE /\ buf' = [buf EXCEPT ![s] = @ + n] /\ pipe' = [pipe EXCEPT ![s] = @ - n]
                  /\ UNCHANGED <<flag, rpc, rdOpen>>
     \/ /\ pipe[s] = 0 /\ WritersGone
        /\ rpc' = [rpc EXCEPT ![s] = "done"] /\ rdOpen' = [rdOpen EXCEPT ![s] = FALSE]
        /\ UNCHANGED <<buf, pipe, flag>>
  /\ UNCHANGED <<plan, child, waitable, written, wpc, status, jpc, res>>

(* ---------------- waiter ---------------- *)
WaiterPoll ==
  /\ (wpc = "poll" \/ (AnyOrder /\ wpc = "trywait"))
  /\ IF flag # 0 THEN status' = <<"overflow", flag>> /\ wpc' = "kill"
     ELSE wpc' = "trywait" /\ UNCHANGED status
  /\ UNCHANGED <<plan, child, waitable, written, pipe, rdOpen, rpc, buf, flag, jpc, res>>
WaiterTryWait ==
  /\ (wpc = "trywait" \/ (AnyOrder /\ wpc = "poll"))
  /\ IF ChildDead THEN status' = <<"exit", 0>> /\ wpc' = "done"
     ELSE \/ wpc' = "poll" /\ UNCHANGED status                                  \* deadline not reached: sleep, loop
          \/ Timeouts /\ status' = <<"timeout", 0>> /\ wpc' = "kill"            \* the deadline has passed
  /\ UNCHANGED <<plan, child, waitable, written, pipe, rdOpen, rpc, buf, flag, jpc, res>>
\* ANYORDER only: the deadline test may sit anywhere in the loop, not only right after try_wait
WaiterDeadlineAny ==
  /\ AnyOrder /\ Timeouts /\ wpc \in {"poll", "trywait"}
  /\ status' = <<"timeout", 0>> /\ wpc' = "kill"
  /\ UNCHANGED <<plan, child, waitable, written, pipe, rdOpen, rpc, buf, flag, jpc, res>>
\* kill, then wait: afterwards the child is gone AND reaped, however it ended
WaiterKill ==
  /\ wpc = "kill"
  /\ child' = (IF child = "running" THEN "killed" ELSE child) /\ waitable' = TRUE /\ wpc' = "done"
  /\ UNCHANGED <<plan, written, pipe, rdOpen, rpc, buf, flag, status, jpc, res>>

(* ---------------- join ---------------- *)
JoinOrder == SelectSeq(Order, Captured)
JoinStream ==
  /\ wpc = "done" /\ res = NoRes /\ jpc <= Len(JoinOrder)
  /\ LET s == JoinOrder[jpc] IN
     /\ rpc[s] = "done"
     /\ IF status[1] = "exit" /\ Recheck /\ flag = Code(s) THEN res' = [k |-> "overflow", s |-> s] /\ UNCHANGED jpc
        ELSE IF status[1] = "exit" /\ plan.bad[s] /\ buf[s] = plan.W[s] THEN res' = [k |-> "utf8", s |-> s] /\ UNCHANGED jpc
        ELSE jpc' = jpc + 1 /\ UNCHANGED res
  /\ UNCHANGED <<plan, child, waitable, written, pipe, rdOpen, rpc, buf, flag, wpc, status>>
\* not a step of the code: the value run() returns once the join phase is through
Finish ==
  /\ wpc = "done" /\ res = NoRes /\ jpc > Len(JoinOrder)
  /\ res' = IF status[1] = "exit" THEN [k |-> "ok", s |-> "-"]
            ELSE IF status[1] = "overflow" THEN [k |-> "overflow", s |-> (IF status[2] = 1 THEN "out" ELSE "err")]
            ELSE [k |-> "timeout", s |-> "-"]
  /\ UNCHANGED <<plan, child, waitable, written, pipe, rdOpen, rpc, buf, flag, wpc, status, jpc>>

Next == \/ \E s \in Streams : ChildWrite(s)
        \/ ChildExit
        \/ ChildGone
        \/ \E s \in Streams : ReaderStep(s)
        \/ WaiterPoll \/ WaiterTryWait \/ WaiterKill \/ WaiterDeadlineAny
        \/ JoinStream \/ Finish
Spec == Init /\ [][Next]_vars
\* liveness: the child makes progress, threads are scheduled, and a deadline that can pass does pass
FairSpec == Spec /\ WF_vars(ChildExit) /\ WF_vars(ChildGone) /\ (\A s \in Streams : WF_vars(ChildWrite(s)) /\ WF_vars(ReaderStep(s)))
                 /\ WF_vars(WaiterPoll) /\ WF_vars(WaiterKill) /\ WF_vars(JoinStream) /\ WF_vars(Finish)
                 /\ WF_vars(WaiterTryWait) /\ SF_vars(WaiterTryWait /\ wpc' # "poll")

(* ---------------- the script-visible outcome, judged by the abstract layer ---------------- *)
Obs == [k |-> res.k, s |-> res.s,
        len |-> [s \in Streams |-> IF Captured(s) THEN buf[s] ELSE -1],
        intact |-> [s \in Streams |-> TRUE],          \* the model moves counts, not contents
        code |-> IF child = "exited" THEN plan.code ELSE -1,
        success |-> (child = "exited" /\ plan.code = 0),
        orphan |-> (child = "running" \/ ~waitable),   \* still there, or never waited for
        deadline |-> status[1] = "timeout"]
Ended == res # NoRes
Complete         == Ended => A!Complete(plan, Obs)
OverLimitIsError == Ended => A!OverLimitIsError(plan, Obs)
UncapturedNull   == Ended => A!UncapturedNull(plan, Obs)
ExitIsData       == Ended => A!ExitIsData(plan, Obs)
ErrorIsDue       == Ended => A!ErrorIsDue(plan, Obs)
NoOrphan         == Ended => A!NoOrphan(plan, Obs)
Terminates == <>Ended
\* a bounded pipe never holds more than its capacity, a buffer never more than the limit
TypeOK == /\ \A s \in Streams : pipe[s] \in 0..PipeCap /\ buf[s] \in 0..plan.cap /\ written[s] \in 0..plan.W[s]
          /\ flag \in 0..2

(* ---------------- graph output for schedule replay ---------------- *)
\* compact state: the driver decodes the positions (see checks/c16.py STATE_FIELDS)
St == <<plan.W.out, plan.W.err, plan.pol.out, plan.pol.err, plan.hang, child, waitable, written.out, written.err, pipe.out, pipe.err,
        rdOpen.out, rdOpen.err, rpc.out, rpc.err, buf.out, buf.err, flag, wpc, status[1], status[2], jpc, res.k, res.s>>
Label == IF ChildExit THEN <<"ChildExit">> ELSE IF ChildGone THEN <<"ChildGone">>
         ELSE IF ChildWrite("out") THEN <<"ChildWrite", "out">> ELSE IF ChildWrite("err") THEN <<"ChildWrite", "err">>
         ELSE IF ReaderStep("out") THEN <<"ReaderStep", "out">> ELSE IF ReaderStep("err") THEN <<"ReaderStep", "err">>
         ELSE IF WaiterPoll THEN <<"WaiterPoll">> ELSE IF WaiterTryWait THEN <<"WaiterTryWait">>
         ELSE IF WaiterDeadlineAny THEN <<"WaiterDeadlineAny">> ELSE IF WaiterKill THEN <<"WaiterKill">> ELSE IF JoinStream THEN <<"JoinStream", JoinOrder[jpc]>>
         ELSE IF Finish THEN <<"Finish">> ELSE <<"?">>
Edge == Edges => PrintT(ToJson([p |-> St, a |-> Label, q |-> St']))
IsInit == written = [s \in Streams |-> 0] /\ wpc = "poll" /\ child = "running" /\ flag = 0 /\ \A s \in Streams : buf[s] = 0 /\ pipe[s] = 0
=============================================================================
