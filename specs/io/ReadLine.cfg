SPECIFICATION Spec
INVARIANT SuccessiveLines
INVARIANT NoOverrun
INVARIANT Emit
PROPERTY AbsSpec
CHECK_DEADLOCK FALSE
