CONSTANTS Text = 4  PipeCap = 2  Order = "join-before"
SPECIFICATION Spec
INVARIANT TypeOK
PROPERTY Ends
PROPERTY NotLeftRunning
