----------------------------- MODULE CaptureAbs -----------------------------
(***************************************************************************)
(* C16, ABSTRACT layer: what the property says about the SCRIPT-VISIBLE    *)
(* outcome of running a command with captured output, and nothing else.    *)
(* No threads, no flag, no polling order: only a plan (what the child was  *)
(* told to do, under which stream policies and capture limit) and an       *)
(* observation (what the script saw, and whether the child is still        *)
(* there).  Both the implementation-shaped model (Capture.tla) and every   *)
(* run of the real code (CaptureJudge.tla) are judged by these predicates. *)
(*                                                                         *)
(* plan = [W    : stream -> bytes the child writes to it,                  *)
(*         pol  : stream -> "capture" | "discard"   (null and inherit),    *)
(*         bad  : stream -> the bytes are not valid UTF-8,                 *)
(*         code : exit code, hang : the child never exits by itself,       *)
(*         cap  : capture limit per stream]                                *)
(* obs  = [k : "ok" | "overflow" | "utf8" | "timeout" | other,             *)
(*         s : the stream an error names ("-" if none),                    *)
(*         len    : stream -> bytes the script got, -1 for null,           *)
(*         intact : stream -> those bytes are exactly the planned bytes of *)
(*                  THAT stream (nothing missing, nothing of the other),   *)
(*         code : exit code seen, -1 for null ; success ; orphan : the     *)
(*         child still exists afterwards ; deadline : the environment let  *)
(*         the timeout elapse during the run]                              *)
(***************************************************************************)
EXTENDS Integers

Streams == {"out", "err"}
Captured(plan, s) == plan.pol[s] = "capture"
Invalid(plan, s) == plan.bad[s] /\ plan.W[s] > 0

\* ok => every captured stream delivered every planned byte (never a silently shortened result)
Complete(plan, obs) ==
  obs.k = "ok" => \A s \in Streams : Captured(plan, s) => (obs.len[s] = plan.W[s] /\ obs.intact[s])
\* more than the limit, or invalid UTF-8, is an error, never a result
OverLimitIsError(plan, obs) ==
  obs.k = "ok" => \A s \in Streams : Captured(plan, s) => (plan.W[s] <= plan.cap /\ ~Invalid(plan, s))
\* streams that are not captured read as null
UncapturedNull(plan, obs) ==
  obs.k = "ok" => \A s \in Streams : ~Captured(plan, s) => obs.len[s] = -1
\* a result means the child ended by itself; its exit status is ordinary data
ExitIsData(plan, obs) ==
  obs.k = "ok" => (~plan.hang /\ obs.code = plan.code /\ (obs.success <=> plan.code = 0))
\* an error is the CORRESPONDING error: its cause is really there
ErrorIsDue(plan, obs) ==
  /\ obs.k \in {"ok", "overflow", "utf8", "timeout"}
  /\ obs.k = "overflow" => (obs.s \in Streams /\ Captured(plan, obs.s) /\ plan.W[obs.s] > plan.cap)
  /\ obs.k = "utf8" => (obs.s \in Streams /\ Captured(plan, obs.s) /\ (Invalid(plan, obs.s) \/ plan.W[obs.s] > plan.cap))
  /\ obs.k = "timeout" => obs.deadline
\* whatever the outcome, the child is not left running (nor unreaped)
NoOrphan(plan, obs) == ~obs.orphan

Accept(plan, obs) == /\ Complete(plan, obs) /\ OverLimitIsError(plan, obs) /\ UncapturedNull(plan, obs)
                     /\ ExitIsData(plan, obs) /\ ErrorIsDue(plan, obs) /\ NoOrphan(plan, obs)
\* names of the clauses an observation breaks (for reports)
Broken(plan, obs) ==
     (IF Complete(plan, obs) THEN {} ELSE {"Complete"})
  \cup (IF OverLimitIsError(plan, obs) THEN {} ELSE {"OverLimitIsError"})
  \cup (IF UncapturedNull(plan, obs) THEN {} ELSE {"UncapturedNull"})
  \cup (IF ExitIsData(plan, obs) THEN {} ELSE {"ExitIsData"})
  \cup (IF ErrorIsDue(plan, obs) THEN {} ELSE {"ErrorIsDue"})
  \cup (IF NoOrphan(plan, obs) THEN {} ELSE {"NoOrphan"})
=============================================================================
