SPECIFICATION Spec
INVARIANT Verdict
CHECK_DEADLOCK FALSE
