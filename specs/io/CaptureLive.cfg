SPECIFICATION FairSpec
PROPERTY Terminates
CHECK_DEADLOCK FALSE
