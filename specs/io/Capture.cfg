SPECIFICATION Spec
INVARIANT TypeOK
INVARIANT Complete
INVARIANT OverLimitIsError
INVARIANT UncapturedNull
INVARIANT ExitIsData
INVARIANT ErrorIsDue
INVARIANT NoOrphan
ACTION_CONSTRAINT Edge
CHECK_DEADLOCK FALSE
