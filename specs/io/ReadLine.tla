------------------------------ MODULE ReadLine ------------------------------
(***************************************************************************)
(* C17 - read_line delivers successive input lines, whatever the chunking. *)
(*                                                                         *)
(* ABSTRACT layer (what the property states, nothing else): the k-th call  *)
(* returns the k-th LF-terminated line of the COMPLETE input without its   *)
(* terminator, then the unterminated rest if it is not empty, then empty   *)
(* strings - a function of the input text alone (AbsSpec, Expected).       *)
(*                                                                         *)
(* IMPLEMENTATION-SHAPED layer (used to enumerate histories): a writer     *)
(* that makes the input available in chunks, a kernel that hands the       *)
(* reader any non-empty prefix of what is available (at most what was      *)
(* asked for), a reader with a buffer of `cap` bytes that asks for         *)
(* `cap - len` bytes, doubles `cap` when full, searches the new bytes for  *)
(* LF, and keeps the bytes after the LF for the next call (KeepTail).      *)
(* TLC checks  Spec => AbsSpec  (refinement) for every input over          *)
(* {a, LF, e-acute} of at most MaxLen bytes, every way the writer can      *)
(* chunk it and every way the kernel can deliver it.                       *)
(*                                                                         *)
(* Switches KeepTail / Grow describe the two defects of the original code  *)
(* (tail of the chunk discarded; buffer that never grows): with either     *)
(* switch off the refinement fails (checked by the driver as a sanity      *)
(* test of the model).                                                     *)
(*                                                                         *)
(* One JSON record per (input, writer chunking) with the lines the         *)
(* abstract layer demands is printed for the replay on the real binary.    *)
(***************************************************************************)
EXTENDS Integers, Sequences, TLC, FiniteSets, Json, IOUtils

MaxLen   == atoi(IOEnv.MAXLEN)       \* input length in bytes
BufCap   == atoi(IOEnv.BUFCAP)       \* the reader's initial buffer, in model bytes
KeepTail == IOEnv.KEEPTAIL = "1"
Grow     == IOEnv.GROW = "1"
Extra    == 2                        \* calls made after the last line (must return "")

LF == 10
Chars == {<<97>>, <<LF>>, <<195, 169>>}    \* a, LF, e-acute (two bytes)

RECURSIVE Strs(_)
Strs(n) == IF n = 0 THEN {<<>>}
           ELSE UNION {{s \o c : s \in Strs(n - Len(c))} : c \in {d \in Chars : Len(d) <= n}}
Inputs == UNION {Strs(n) : n \in 0..MaxLen}

RECURSIVE Compositions(_)
Compositions(n) == IF n = 0 THEN {<<>>}
                   ELSE UNION {{<<k>> \o r : r \in Compositions(n - k)} : k \in 1..n}

(* ---------------- abstract layer ---------------- *)
RECURSIVE SplitLF(_, _)
SplitLF(s, cur) == IF s = <<>> THEN (IF cur = <<>> THEN <<>> ELSE <<cur>>)
                   ELSE IF Head(s) = LF THEN <<cur>> \o SplitLF(Tail(s), <<>>)
                   ELSE SplitLF(Tail(s), Append(cur, Head(s)))
Lines(inp) == SplitLF(inp, <<>>)
Expected(inp, k) == LET ls == Lines(inp) IN IF k <= Len(ls) THEN ls[k] ELSE <<>>
NCalls(inp) == Len(Lines(inp)) + Extra

VARIABLES input, lines,                     \* abstract state: the text, the lines returned so far
          chunks, avail, closed, pos,       \* writer / pipe: chunks still to write, bytes written, closed?, bytes delivered
          pc, buf, cap, tail                \* reader: in a call?, bytes of the current call, capacity, unread tail
avars == <<input, lines>>
vars == <<input, lines, chunks, avail, closed, pos, pc, buf, cap, tail>>

AbsInit == input \in Inputs /\ lines = <<>>
AbsNext == /\ lines' = Append(lines, Expected(input, Len(lines) + 1))
           /\ input' = input
AbsSpec == AbsInit /\ [][AbsNext]_avars

(* ---------------- implementation-shaped layer ---------------- *)
Init == /\ input \in Inputs /\ lines = <<>>
        /\ chunks \in Compositions(Len(input))
        /\ avail = 0 /\ closed = FALSE /\ pos = 0
        /\ pc = "idle" /\ buf = <<>> /\ cap = BufCap /\ tail = <<>>

FirstLF(s, from) == LET I == {i \in from..Len(s) : s[i] = LF} IN
                    IF I = {} THEN 0 ELSE CHOOSE i \in I : \A j \in I : i <= j

WriterWrite == /\ chunks # <<>>
               /\ avail' = avail + Head(chunks) /\ chunks' = Tail(chunks)
               /\ UNCHANGED <<input, lines, closed, pos, pc, buf, cap, tail>>
WriterClose == /\ chunks = <<>> /\ ~closed /\ closed' = TRUE
               /\ UNCHANGED <<input, lines, chunks, avail, pos, pc, buf, cap, tail>>

Return(line, rest) == /\ lines' = Append(lines, line) /\ pc' = "idle" /\ buf' = <<>>
                      /\ tail' = (IF KeepTail THEN rest ELSE <<>>)
                      /\ cap' = BufCap

\* read_line is entered: a complete line may already sit in the tail
Call == /\ pc = "idle" /\ Len(lines) < NCalls(input)
        /\ LET i == FirstLF(tail, 1) IN
           IF i > 0 THEN Return(SubSeq(tail, 1, i - 1), SubSeq(tail, i + 1, Len(tail)))
           ELSE /\ pc' = "reading" /\ buf' = tail /\ tail' = <<>> /\ UNCHANGED <<lines, cap>>
        /\ UNCHANGED <<input, chunks, avail, closed, pos>>

\* the buffer is full: double it (or, with the defect, carry on with a buffer that did not grow)
GrowBuf == /\ pc = "reading" /\ Len(buf) >= cap /\ Grow
           /\ cap' = 2 * cap
           /\ UNCHANGED <<input, lines, chunks, avail, closed, pos, pc, buf, tail>>

\* one read(2): any non-empty prefix of what is available, at most what was asked for; 0 bytes at end of input
Read == /\ pc = "reading" /\ (Len(buf) < cap \/ ~Grow)
        /\ LET asked == IF Len(buf) < cap THEN cap - Len(buf) ELSE cap IN   \* the defective code asks for `2*cap - len`
           IF avail > pos
           THEN \E n \in 1..(IF asked < avail - pos THEN asked ELSE avail - pos) :
                  LET all == buf \o SubSeq(input, pos + 1, pos + n)
                      i == FirstLF(all, Len(buf) + 1) IN
                  /\ pos' = pos + n
                  /\ IF i > 0 THEN Return(SubSeq(all, 1, i - 1), SubSeq(all, i + 1, Len(all)))
                     ELSE buf' = all /\ UNCHANGED <<lines, pc, tail, cap>>
           ELSE /\ closed /\ Return(buf, <<>>) /\ pos' = pos
        /\ UNCHANGED <<input, chunks, avail, closed>>

Next == WriterWrite \/ WriterClose \/ Call \/ GrowBuf \/ Read
Spec == Init /\ [][Next]_vars

(* ---------------- properties ---------------- *)
\* state form of the refinement, for a readable counter-example
SuccessiveLines == \A k \in 1..Len(lines) : lines[k] = Expected(input, k)
\* the reader never holds more bytes than its buffer has room for (with Grow off this is the overrun)
NoOverrun == Len(buf) <= cap
\* nothing is lost or duplicated: delivered bytes = returned lines + terminators + held bytes
Finished == Len(lines) = NCalls(input)

IsInitial == pos = 0 /\ avail = 0 /\ lines = <<>> /\ pc = "idle" /\ ~closed
Emit == IsInitial => PrintT(ToJson([input |-> input, chunks |-> chunks,
                                    expect |-> [k \in 1..NCalls(input) |-> Expected(input, k)]]))
=============================================================================
