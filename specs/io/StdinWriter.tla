---------------------------- MODULE StdinWriter ----------------------------
(***************************************************************************)
(* The stdin side of a captured run (src/sys/process_common.rs,            *)
(* run_host_process): a WRITER thread feeds the configured stdin text into *)
(* a pipe of bounded capacity, the CHILD may read some of it, all of it or *)
(* nothing and then exits or hangs, and the WAIT LOOP polls the child and  *)
(* kills it when the deadline has passed.  The writer can only finish when *)
(* everything is written or the read end is gone (child exited / killed).  *)
(*                                                                         *)
(* Property (C16, timeout clause): whatever the child does with its stdin, *)
(* the run ENDS - a child that neither reads nor exits is killed at the    *)
(* deadline and not left running.  That holds only if the wait loop runs   *)
(* WHILE the writer may still be blocked: Order = "join-after" (the code). *)
(* Order = "join-before" joins the writer first - the plausible tidy-up -  *)
(* and TLC must refute it (the main thread waits for a writer that waits   *)
(* for a child nobody is watching).                                        *)
(***************************************************************************)
EXTENDS Integers, TLC
CONSTANTS Text,      \* units of stdin text to write
          PipeCap,   \* capacity of the pipe
          Order      \* "join-after" | "join-before"
VARIABLES towrite,   \* units the writer still has to write
          pipe,      \* units in the pipe
          wants,     \* units the child will still read before it stops reading
          child,     \* "running" | "hung" (never exits by itself) | "exited" | "killed"
          writer,    \* "writing" | "done"
          main,      \* "joinw" (waiting for the writer, join-before only) | "wait" (poll loop) | "joinw2" | "ended"
          deadline   \* has the timeout passed?
vars == <<towrite, pipe, wants, child, writer, main, deadline>>
Alive == child \in {"running", "hung"}

Init == /\ towrite = Text /\ pipe = 0 /\ wants \in 0..Text
        /\ child \in {"running", "hung"} /\ writer = "writing" /\ deadline = FALSE
        /\ main = IF Order = "join-before" THEN "joinw" ELSE "wait"

WriterWrite == /\ writer = "writing" /\ towrite > 0 /\ Alive /\ pipe < PipeCap
               /\ towrite' = towrite - 1 /\ pipe' = pipe + 1
               /\ UNCHANGED <<wants, child, writer, main, deadline>>
\* all written, or the read end is gone (EPIPE): the writer thread ends
WriterEnd == /\ writer = "writing" /\ (towrite = 0 \/ ~Alive)
             /\ writer' = "done" /\ UNCHANGED <<towrite, pipe, wants, child, main, deadline>>
ChildRead == /\ Alive /\ wants > 0 /\ pipe > 0
             /\ wants' = wants - 1 /\ pipe' = pipe - 1
             /\ UNCHANGED <<towrite, child, writer, main, deadline>>
\* a running child exits once it has read what it wanted (a hung one never does)
ChildExit == /\ child = "running" /\ wants = 0
             /\ child' = "exited" /\ UNCHANGED <<towrite, pipe, wants, writer, main, deadline>>
Tick == /\ ~deadline /\ deadline' = TRUE /\ UNCHANGED <<towrite, pipe, wants, child, writer, main>>
\* the poll loop: sees the exit, or kills at the deadline
WaitSeesExit == /\ main = "wait" /\ ~Alive
                /\ main' = "joinw2" /\ UNCHANGED <<towrite, pipe, wants, child, writer, deadline>>
WaitKills == /\ main = "wait" /\ Alive /\ deadline
             /\ child' = "killed" /\ UNCHANGED <<towrite, pipe, wants, writer, main, deadline>>
JoinWriterFirst == /\ main = "joinw" /\ writer = "done"
                   /\ main' = "wait" /\ UNCHANGED <<towrite, pipe, wants, child, writer, deadline>>
JoinWriterLast == /\ main = "joinw2" /\ writer = "done"
                  /\ main' = "ended" /\ UNCHANGED <<towrite, pipe, wants, child, writer, deadline>>
Done == main = "ended" /\ UNCHANGED vars
Next == WriterWrite \/ WriterEnd \/ ChildRead \/ ChildExit \/ Tick \/ WaitSeesExit \/ WaitKills \/ JoinWriterFirst \/ JoinWriterLast \/ Done
Spec == Init /\ [][Next]_vars /\ WF_vars(Next)
        /\ WF_vars(WriterWrite) /\ WF_vars(WriterEnd) /\ WF_vars(ChildRead) /\ WF_vars(ChildExit) /\ WF_vars(Tick)
        /\ WF_vars(WaitSeesExit) /\ WF_vars(WaitKills) /\ WF_vars(JoinWriterFirst) /\ WF_vars(JoinWriterLast)

TypeOK == towrite \in 0..Text /\ pipe \in 0..PipeCap /\ wants \in 0..Text
Ends == <>(main = "ended")
NotLeftRunning == [](main = "ended" => ~Alive)
=============================================================================
