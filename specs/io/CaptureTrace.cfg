SPECIFICATION TSpec
INVARIANT Report
CHECK_DEADLOCK FALSE
