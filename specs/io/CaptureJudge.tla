---------------------------- MODULE CaptureJudge ----------------------------
(***************************************************************************)
(* C16: the ABSTRACT layer judging observations of the REAL code.          *)
(* IOEnv.CASES: ndjson, one {"plan": .., "obs": ..} per run (forced        *)
(* schedules and free runs alike; see CaptureAbs for the fields).  One     *)
(* initial state per run; the verdict (which clauses the observation       *)
(* breaks, if any) is printed as JSON.                                     *)
(***************************************************************************)
EXTENDS Integers, Sequences, TLC, Json, IOUtils
A == INSTANCE CaptureAbs
Cases == ndJsonDeserialize(IOEnv.CASES)
VARIABLE i
Init == i \in 1..Len(Cases)
Next == UNCHANGED i
Spec == Init /\ [][Next]_i
Verdict == PrintT(ToJson([i |-> i, accept |-> A!Accept(Cases[i].plan, Cases[i].obs), broken |-> A!Broken(Cases[i].plan, Cases[i].obs)]))
=============================================================================
