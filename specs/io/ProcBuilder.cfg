SPECIFICATION Spec
INVARIANT SpawnOnlyIfValid
INVARIANT RefuseOnlyIfBroken
INVARIANT DeniedIffForbidden
INVARIANT SpawnCarriesState
INVARIANT Emit
INVARIANT Header
CHECK_DEADLOCK FALSE
