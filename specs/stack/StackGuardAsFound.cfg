CONSTANT ParserLimit = FALSE
SPECIFICATION Spec
INVARIANT Emit
CHECK_DEADLOCK FALSE
