CONSTANT ParserLimit = FALSE
CONSTANT DataLimit = FALSE
SPECIFICATION Spec
INVARIANT Emit
CHECK_DEADLOCK FALSE
