CONSTANT ParserLimit = TRUE
CONSTANT DataLimit = TRUE
SPECIFICATION Spec
INVARIANT Emit
CHECK_DEADLOCK FALSE
