----------------------------- MODULE StackGuard -----------------------------
(***************************************************************************)
(* C08: which recursion shapes of the interpreter can grow the native      *)
(* stack without ever passing a stack-budget guard.                        *)
(* The interpreter's recursive routines are FRAME KINDS; an edge says that *)
(* a language construct (the SHAPE) makes one routine call another.  Only  *)
(* the expression evaluator checks the stack budget (check_stack at the    *)
(* entry of eval_expr).  A recursion path is a walk in this graph; its     *)
(* stack use is the sum of per-frame costs; a guard fails cleanly          *)
(* ("Stack overflow") once the use since the run started exceeds the       *)
(* budget.  Safety (use <= stack size) holds for unbounded nesting iff     *)
(* every cycle of the graph contains a guarded kind.  TLC walks the graph, *)
(* enumerates every simple cycle up to a length and prints it with the     *)
(* verdict of the model; the harness instantiates every shape as a         *)
(* program at growing depth and runs the real binary (debug and release)   *)
(* - that native run is the verdict on the implementation.                 *)
(*                                                                         *)
(* Since the repair 57c830a the parser bounds the depth of the TREE it      *)
(* builds (MAX_NESTING_DEPTH, counting operator and postfix chains too).   *)
(* A cycle all of whose edges are driven by the depth of the TEXT / TREE   *)
(* is therefore bounded by that limit times the largest frame; cycles      *)
(* driven by run-time recursion need the probe, cycles driven by the depth *)
(* of DATA built at run time have neither.  ParserLimit = FALSE is the     *)
(* as-found state.                                                         *)
(***************************************************************************)
EXTENDS Integers, Sequences, FiniteSets, TLC, Json
CONSTANT ParserLimit, DataLimit
Guarded == {"eval_expr"}
\* shapes whose depth is the depth of the program text / syntax tree
TextShapes == {"chain_sum", "paren", "bracket", "unary_not", "unary_minus", "binary_right", "binary_left", "call_args", "index_chain", "member_chain",
               "nested_block", "nested_if", "nested_loop", "nested_def", "else_chain"}
\* [from, to, shape]
Edges == {
  \* parser (recursive descent): nesting in the text
  <<"parse_expr", "parse_expr", "paren">>, <<"parse_expr", "parse_expr", "bracket">>, <<"parse_expr", "parse_expr", "unary_not">>,
  <<"parse_expr", "parse_expr", "unary_minus">>, <<"parse_expr", "parse_expr", "binary_right">>, <<"parse_expr", "parse_expr", "call_args">>,
  <<"parse_stmt", "parse_stmt", "nested_block">>, <<"parse_stmt", "parse_stmt", "nested_if">>, <<"parse_stmt", "parse_stmt", "nested_loop">>,
  <<"parse_stmt", "parse_stmt", "nested_def">>, <<"parse_stmt", "parse_stmt", "else_chain">>,
  \* resolver / cfg lowering walk the TREE: also depth the parser builds in a loop
  <<"check_expr", "check_expr", "binary_left">>, <<"check_expr", "check_expr", "index_chain">>, <<"check_expr", "check_expr", "member_chain">>,
  <<"check_block", "check_block", "nested_block">>, <<"lower_block", "lower_block", "nested_if">>,
  \* chains at many nesting levels add up in the TREE although no level is deep in the text (bounded by the tree-depth
  \* measurement after parsing, 98da262); the scanner's error recovery is a loop (ba1fd0a), not a frame kind any more
  <<"check_expr", "check_expr", "chain_sum">>,
  \* runtime: every expression nesting and every call goes through eval_expr
  <<"eval_expr", "eval_expr", "rt_nested_expr">>,
  <<"eval_expr", "call", "rec_direct">>, <<"call", "exec_block", "rec_direct">>, <<"exec_block", "eval_expr", "rec_direct">>,
  <<"exec_block", "exec_block", "rec_block">>, <<"exec_block", "eval_expr", "rec_block">>,
  \* values: deep data built one level at a time by a loop
  <<"clone_value", "clone_value", "deep_data_clone">>, <<"display_value", "display_value", "deep_data_print">>,
  <<"promote_value", "promote_value", "deep_data_store">>, <<"join_value", "join_value", "deep_data_join">> }
Kinds == {e[1] : e \in Edges} \cup {e[2] : e \in Edges}
MaxLen == 4
VARIABLES path, shapes, closed
vars == <<path, shapes, closed>>
Init == \E k \in Kinds : path = <<k>> /\ shapes = <<>> /\ closed = FALSE
Extend == /\ ~closed /\ Len(path) <= MaxLen
          /\ \E e \in Edges : /\ e[1] = path[Len(path)]
                              /\ \/ /\ e[2] = path[1] /\ closed' = TRUE /\ path' = path /\ shapes' = Append(shapes, e[3])
                                 \/ /\ e[2] \notin {path[j] : j \in 1..Len(path)} /\ Len(path) < MaxLen
                                    /\ path' = Append(path, e[2]) /\ shapes' = Append(shapes, e[3]) /\ closed' = FALSE
Spec == Init /\ [][Extend]_vars
HasGuard == \E j \in 1..Len(path) : path[j] \in Guarded
\* canonical: a cycle is reported from its least kind only (one rotation)
Canonical == \A j \in 2..Len(path) : path[1] # path[j]
\* shapes whose depth is the nesting of arrays in a VALUE built at run time; since fa51d41 no value
\* nests deeper than MAX_ARRAY_DEPTH (checked where an array can gain a level)
DataShapes == {"deep_data_clone", "deep_data_print", "deep_data_store", "deep_data_join", "deep_data_compare"}
TextBounded == \/ ParserLimit /\ \A j \in 1..Len(shapes) : shapes[j] \in TextShapes
               \/ DataLimit /\ \A j \in 1..Len(shapes) : shapes[j] \in DataShapes
Emit == closed => PrintT(ToJson([tag |-> "CYCLE", kinds |-> path, shapes |-> shapes, guarded |-> HasGuard, bounded |-> TextBounded]))
=============================================================================
