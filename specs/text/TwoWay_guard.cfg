\* only the loop guard as found (offset + nlen <= hlen). Refuted: offset is an anchor search position, the bound is one for match starts - find(s, s) can miss (Correct).
SPECIFICATION Spec
CONSTANTS
  Threshold = 2
  Bound = "lt"
  Shift = "anchor"
  Guard = "start"
INVARIANTS NoPanic InRange Correct Bounded Progress
PROPERTY Variant
CHECK_DEADLOCK FALSE
