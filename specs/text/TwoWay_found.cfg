\* tw::find as FOUND (all three lines). Refuted: maximal_suffix reads x[n] for every needle of the long tier (NoPanic).
SPECIFICATION Spec
CONSTANTS
  Threshold = 2
  Bound = "le"
  Shift = "period"
  Guard = "start"
INVARIANTS NoPanic InRange Correct Bounded Progress
PROPERTY Variant
CHECK_DEADLOCK FALSE
