\* Trace validation of the real matcher (threshold 16). The constants are the code as it is now.
SPECIFICATION TSpec
CONSTANTS
  Threshold = 16
  Bound = "lt"
  Shift = "anchor"
  Guard = "anchor"
INVARIANT Emit
CHECK_DEADLOCK FALSE
