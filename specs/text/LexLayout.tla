----------------------------- MODULE LexLayout -----------------------------
(***************************************************************************)
(* C10, on the model: lexing a rendering of a token sequence gives the     *)
(* token sequence back, whatever separators were used.                     *)
(*      LexAll(Render(tokens, separators, inner)) = tokens                 *)
(* for every token sequence up to a length over a vocabulary with every    *)
(* token shape (identifiers, numbers with and without fraction, a string   *)
(* containing a space and `#`, punctuation incl. the dot, single-word      *)
(* keywords, the three multi-word keywords), every vector of separators    *)
(* (space, tab, LF, CR, CRLF, two spaces, comment ended by LF, comment     *)
(* ended by CR, and NOTHING where Separable allows it) and every inner     *)
(* separator between the words of a multi-word keyword.                    *)
(* Separable states where the empty separator is safe: next to             *)
(* punctuation or a quote, but never between a number and a dot.           *)
(* Each checked rendering is also printed, so that the REAL lexer can be   *)
(* run on the same text (conformance of the implementation to Lexer.tla).  *)
(***************************************************************************)
EXTENDS Lexer, Json, IOUtils, TLC
MaxToks == atoi(IOEnv.MAXTOKS)
Emitting == IOEnv.EMIT = "1"
wMake == <<109,97,107,101>>
Vocabulary == { [k |-> "id", t |-> <<120>>], [k |-> "id", t |-> <<97,98,49>>], [k |-> "num", t |-> <<49>>], [k |-> "num", t |-> <<49,46,53>>],
                [k |-> "kw", t |-> wMake], [k |-> "kw", t |-> wNot], [k |-> "kw", t |-> wPass],
                [k |-> "ifsay", t |-> <<>>], [k |-> "ifnot", t |-> <<>>], [k |-> "smallpass", t |-> <<>>],
                [k |-> "str", t |-> <<97,SP,HASH,98>>], [k |-> "p", t |-> <<40>>], [k |-> "p", t |-> <<DOT>>], [k |-> "p", t |-> <<41>>] }
Seps == { <<SP>>, <<LF>>, <<CR>>, <<CR,LF>>, <<TAB>>, <<SP,HASH,99,LF>>, <<HASH,CR>>, <<>> }
Inner == { <<SP>>, <<LF>>, <<TAB,CR,LF>> }
Words(tok) == CASE tok.k = "ifsay" -> <<wIf, wTo, wSay>> [] tok.k = "ifnot" -> <<wIf, wNot, wSo>> [] tok.k = "smallpass" -> <<wSmall, wPass>>
                [] tok.k = "str" -> << <<DQ>> \o tok.t \o <<DQ>> >> [] OTHER -> <<tok.t>>
FirstC(tok) == Words(tok)[1][1]
LastC(tok) == LET w == Words(tok)[Len(Words(tok))] IN w[Len(w)]
EmptyOk(a, b) == /\ (IsPunct(LastC(a)) \/ IsPunct(FirstC(b)) \/ LastC(a) = DQ \/ FirstC(b) = DQ)
                 /\ ~(a.k = "num" /\ FirstC(b) = DOT)
RECURSIVE JoinWords(_, _), Render(_, _, _)
JoinWords(ws, inner) == IF Len(ws) = 1 THEN ws[1] ELSE ws[1] \o inner \o JoinWords(Tail(ws), inner)
Render(toks, seps, inner) == IF toks = <<>> THEN <<>> ELSE JoinWords(Words(Head(toks)), inner) \o Head(seps) \o Render(Tail(toks), Tail(seps), inner)

VARIABLES toks, seps, inner, phase
vars == <<toks, seps, inner, phase>>
Init == toks = <<>> /\ seps = <<>> /\ inner \in Inner /\ phase = "gen"
Add == /\ phase = "gen" /\ Len(toks) < MaxToks
       /\ \E t \in Vocabulary, sp \in Seps : toks' = Append(toks, t) /\ seps' = Append(seps, sp)
       /\ UNCHANGED <<inner, phase>>
Close == phase = "gen" /\ toks # <<>> /\ phase' = "done" /\ UNCHANGED <<toks, seps, inner>>
Next == Add \/ Close
Spec == Init /\ [][Next]_vars
Separable == \A i \in 1..(Len(toks) - 1) : seps[i] = <<>> => EmptyOk(toks[i], toks[i + 1])
Lexed(text) == LET ts == LexAll(text, 1) IN [j \in 1..Len(ts) |-> [k |-> ts[j].k, t |-> ts[j].t]]
RoundTrip == (phase = "done" /\ Separable) => Lexed(Render(toks, seps, inner)) = toks
Emit == (phase = "done" /\ Separable /\ Emitting) =>
          PrintT(ToJson([tag |-> "RENDER", cps |-> Render(toks, seps, inner), kinds |-> [j \in 1..Len(toks) |-> toks[j].k]]))
=============================================================================
