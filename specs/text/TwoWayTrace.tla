---------------------------- MODULE TwoWayTrace ----------------------------
(***************************************************************************)
(* C13, V direction: iteration traces RECORDED FROM THE REAL MATCHER       *)
(* (hook in src/builtins/tw.rs behind cfg(naijascript_verif): one event    *)
(* per iteration of the long-needle loop) with the real tier threshold 16, *)
(* for needles that no exhaustive enumeration reaches (17 .. ~90 bytes,    *)
(* periodic, near-periodic, Fibonacci words, multi-byte letters).          *)
(*                                                                         *)
(*   IOEnv.CASES  ndjson, one line per call of find(h, n):                 *)
(*     {"h":[bytes], "n":[bytes], "new":[bytes], "res":k | -1,             *)
(*      "rep":[bytes]            what replace(h, n, new) returned          *)
(*      "events":[{"ev":"factor","crit":c},                                *)
(*                {"ev":"iter","offset":o,"index":i,"start":s,"dec":d,"next":o2}, ...]} *)
(*     dec: "exit" | "none" | "before" | "hit" | "miss"; -1 = not computed *)
(*                                                                         *)
(* Two judgements per trace, following "tight models generate, loose       *)
(* specifications judge":                                                  *)
(*                                                                         *)
(* ABSTRACT (the verdict).  States only what the property states about a   *)
(* scan with an anchor byte, whatever the shift policy:                    *)
(*   shape     factor event first, exactly one final event, no gap:        *)
(*             every iteration starts at the offset the previous assigned  *)
(*   range     crit < |n|; offset <= index <= |h|; start = index - crit>=0 *)
(*   memchr    index is the first position >= offset holding n[crit]       *)
(*   decision  "hit" iff n occurs at start; "none" iff no anchor is left;  *)
(*             "before" only if index < crit                               *)
(*   progress  the assigned offset is larger than the old one (variant), so*)
(*   bounded   at most |h| + 1 iterations                                  *)
(*   noskip    no occurrence of n has its anchor byte in the stretch       *)
(*             [offset, next) that the iteration leaves behind; when the   *)
(*             loop gives up nothing is left at or after offset            *)
(*   result    what the call returned is what the final event says and is  *)
(*             StrOps!FindIdx over the bytes (= StrOps!Find: first         *)
(*             occurrence as a byte offset, or -1)                         *)
(*   replace   replace(h, n, new) = StrOps!Replace over the bytes          *)
(* A matcher with a cleverer sound shift is accepted; one that skips an    *)
(* occurrence, stalls, reads outside, or reports a wrong position is not.  *)
(*                                                                         *)
(* TIGHT (reported, not a verdict).  The same trace must also be exactly   *)
(* the behaviour of the transcription TwoWay (Threshold = 16) - that is    *)
(* what entitles the exhaustive model-checking result of TwoWay.cfg to     *)
(* speak about this code.  If the code is re-tuned the check says so in    *)
(* its evidence instead of raising an alarm.                               *)
(***************************************************************************)
EXTENDS TwoWay, Json

Cases == ndJsonDeserialize(IOEnv.CASES)
VARIABLES i,          \* which trace
          l,          \* next event to consume
          tight,      \* 0, or the position of the first event the transcription does not explain
          texp        \* what the transcription expected there
tvars == <<vars, i, l, tight, texp>>

\* ---------------------------------------------------------------- tight layer
ExpectedIter ==
  [ev |-> "iter", offset |-> offset,
   index |-> IF dec' = "exit" THEN -1 ELSE index',
   start |-> IF dec' \in {"hit", "miss"} THEN start' ELSE -1,
   dec |-> dec',
   next |-> IF dec' \in {"before", "miss"} THEN offset' ELSE -1]

TInit == /\ i \in 1..Len(Cases)
         /\ Start(Cases[i].h, Cases[i].n)
         /\ l = 1 /\ tight = 0 /\ texp = <<>>
TNext ==
  /\ Next
  /\ i' = i
  /\ LET E == Cases[i].events
         consumes == pc = "factor" \/ (pc = "loop" /\ tier = "long")
         exp == IF pc = "factor" THEN [ev |-> "factor", crit |-> crit'] ELSE ExpectedIter
     IN IF ~consumes THEN UNCHANGED <<l, tight, texp>>
        ELSE /\ l' = l + 1
             /\ IF tight = 0 /\ (pc' = "panic" \/ l > Len(E) \/ (l <= Len(E) /\ E[l] # exp))
                THEN tight' = l /\ texp' = exp
                ELSE UNCHANGED <<tight, texp>>
TSpec == TInit /\ [][TNext]_tvars

TightVerdict ==
  LET c == Cases[i] IN
  IF tight # 0 THEN [ok |-> FALSE, at |-> tight, expected |-> texp]
  ELSE IF pc = "panic" THEN [ok |-> FALSE, at |-> l, expected |-> <<"panic">>]
  ELSE IF l # Len(c.events) + 1 THEN [ok |-> FALSE, at |-> l, expected |-> <<"no more events">>]
  ELSE IF res # c.res THEN [ok |-> FALSE, at |-> l, expected |-> <<"result", res>>]
  ELSE [ok |-> TRUE, at |-> 0, expected |-> <<>>]

\* ---------------------------------------------------------------- abstract layer
Final == {"exit", "none", "hit"}
Unless(cond, tag) == IF cond THEN {} ELSE {tag}
\* the set of <<condition, event position>> that do not hold for the recorded call c
AbsViolations(c) ==
  LET hh == c.h   nn == c.n   E == c.events   H == Len(hh)
      shapeOk == /\ Len(E) >= 2 /\ E[1].ev = "factor"
                 /\ \A j \in 2..Len(E) : E[j].ev = "iter" /\ (E[j].dec \in Final) = (j = Len(E))
                 /\ \A j \in 2..Len(E) : E[j].dec \in Final \cup {"before", "miss"}
      c0 == E[1].crit
      critOk == c0 >= 0 /\ c0 < Len(nn)
      NoOcc(p) == p < c0 \/ ~S!OccursAt(hh, nn, p - c0)          \* no occurrence whose anchor byte is at p
      Iter(j) ==
        LET e == E[j] IN
        Unless(/\ e.offset >= 0 /\ e.offset <= H
               /\ (e.dec # "exit" => e.index >= e.offset /\ e.index <= H)
               /\ (e.dec \in {"hit", "miss"} => e.start = e.index - c0 /\ e.start >= 0), <<"range", j>>)
        \cup Unless(e.dec = "exit" \/ e.offset < 0 \/ e.offset > H \/ e.index = Memchr(At(nn, c0), hh, e.offset), <<"memchr", j>>)
        \cup Unless(CASE e.dec = "none" -> e.index = H
                      [] e.dec = "before" -> e.index < c0 /\ e.index < H
                      [] e.dec = "hit" -> e.index < H /\ e.start >= 0 /\ S!OccursAt(hh, nn, e.start)
                      [] e.dec = "miss" -> e.index < H /\ e.start >= 0 /\ ~S!OccursAt(hh, nn, e.start)
                      [] OTHER -> TRUE, <<"decision", j>>)
        \cup Unless(e.dec \in {"before", "miss"} => e.next > e.offset /\ (j < Len(E) => E[j + 1].offset = e.next), <<"progress", j>>)
        \cup Unless(CASE e.dec \in {"before", "miss"} -> \A p \in e.offset..(e.next - 1) : p < 0 \/ p >= H \/ NoOcc(p)
                      [] e.dec \in {"exit", "none"} -> \A p \in e.offset..(H - 1) : p < 0 \/ NoOcc(p)
                      [] OTHER -> TRUE, <<"noskip", j>>)
      last == E[Len(E)]
      traced ==
        IF ~shapeOk THEN {<<"shape", 0>>}
        ELSE IF ~critOk THEN {<<"range", 1>>}
        ELSE UNION {Iter(j) : j \in 2..Len(E)}
             \cup Unless(E[2].offset = 0, <<"shape", 2>>)
             \cup Unless(Len(E) - 1 <= H + 1, <<"bounded", Len(E)>>)
             \cup Unless((last.dec = "hit" /\ c.res = last.start) \/ (last.dec # "hit" /\ c.res = -1), <<"result", Len(E)>>)
  IN (IF Len(E) = 0 THEN {} ELSE traced)                       \* a call that never entered the long tier has no events
     \cup Unless(c.res = S!FindIdx(hh, nn), <<"find", 0>>)
     \cup Unless(nn = <<>> \/ c.rep = S!Replace(hh, nn, c.new), <<"replace", 0>>)

Finished == pc \in {"done", "panic"}
Emit == Finished => PrintT(ToJson([tag |-> "VERDICT", i |-> i, tight |-> TightVerdict, abs |-> AbsViolations(Cases[i]),
                                   iters |-> Len(Cases[i].events), tier |-> tier, spec |-> S!FindIdx(Cases[i].h, Cases[i].n)]))
=============================================================================
