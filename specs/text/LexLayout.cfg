SPECIFICATION Spec
INVARIANT RoundTrip
INVARIANT Emit
CHECK_DEADLOCK FALSE
