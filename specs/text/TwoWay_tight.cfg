\* alternative repair of the guard considered in the review: offset + (nlen - crit) <= hlen. Holds as well.
SPECIFICATION Spec
CONSTANTS
  Threshold = 2
  Bound = "lt"
  Shift = "anchor"
  Guard = "tight"
INVARIANTS NoPanic InRange Correct Bounded Progress
PROPERTY Variant
CHECK_DEADLOCK FALSE
