------------------------------ MODULE StrCases ------------------------------
(***************************************************************************)
(* C13, R direction: TLC ENUMERATES the exhaustive small domain of the     *)
(* string built-ins and EVALUATES the declarative definitions of StrOps on *)
(* every case.  One JSON record per subject string (strings travel as      *)
(* arrays of code points); the parameter lists the results are indexed by  *)
(* are printed once in a PARAMS record, so the harness never has to guess  *)
(* an enumeration order.  checks/c13.py replays every case on the public   *)
(* Rust functions and through a script and compares.                       *)
(*                                                                         *)
(* kinds of subjects                                                       *)
(*   "abe"  all strings over {a, b, e-acute (2 bytes)} up to MAXH letters: *)
(*          find (every needle up to MAXN), replace (|s| <= REPH, every    *)
(*          old up to REPO x every new up to REPW), split/join (|s| <=     *)
(*          SPLH, every pattern up to SPLP), slice (|s| <= SLIH, every     *)
(*          pair of the bound tokens below), len                           *)
(*   "ws"   strings over white space / not white space: trim, len          *)
(*   "case" strings over the letters of StrOps' explicit case table:       *)
(*          to_uppercase, to_lowercase, len                                *)
(*   "num"  a list of texts: to_number                                     *)
(*                                                                         *)
(* Where the documentation leaves the behaviour open the record says so    *)
(* (m = FALSE: not modelled) and the harness only demands "no failure, a   *)
(* valid UTF-8 string / a number": empty `old`, empty split pattern        *)
(* (except Join(Split(s,p),p) = s), NaN/inf slice bounds, letters outside  *)
(* the case table, texts that are not plain decimal literals.              *)
(*                                                                         *)
(* The definitions are also checked against each other on every subject    *)
(* (Laws): they are written independently, so agreement keeps the oracle   *)
(* honest.                                                                 *)
(***************************************************************************)
EXTENDS StrOps, Json, IOUtils, TLC

Env(name, dflt) == IF name \in DOMAIN IOEnv THEN atoi(IOEnv[name]) ELSE dflt
MAXH == Env("MAXH", 5)      MAXN == Env("MAXN", 3)
REPH == Env("REPH", 4)      REPO == Env("REPO", 2)      REPW == Env("REPW", 2)
SPLH == Env("SPLH", 4)      SPLP == Env("SPLP", 2)
SLIH == Env("SLIH", 3)
WSH  == Env("WSH", 3)       CASEH == Env("CASEH", 3)

\* ---------- ordered enumerations ----------
RECURSIVE Exact(_, _), UpTo(_, _)
Exact(alpha, k) == IF k = 0 THEN << <<>> >>
                   ELSE LET prev == Exact(alpha, k - 1)  a == Len(alpha)
                        IN [j \in 1..(Len(prev) * a) |-> Append(prev[((j - 1) \div a) + 1], alpha[((j - 1) % a) + 1])]
UpTo(alpha, k) == IF k = 0 THEN Exact(alpha, 0) ELSE UpTo(alpha, k - 1) \o Exact(alpha, k)

Abe == <<97, 98, 233>>
Ws == <<32, 9, 10, 97, 233, 160, 12288, 8203>>           \* SP TAB LF a e-acute NBSP IDEOGRAPHIC-SPACE ZERO-WIDTH-SPACE(not white space)
CaseLetters == <<97, 66, 233, 201, 223, 20320, 128518, 49>>    \* a B e-acute E-acute sharp-s ni smiley 1
Needles == UpTo(Abe, MAXN)
Olds == UpTo(Abe, REPO)
News == UpTo(Abe, REPW)
Pats == UpTo(Abe, SPLP)

\* slice bounds: quarters, and symbolic ones.  "huge" stands for every magnitude far beyond any
\* length (2^31, 2^53, 2^63, 1e300 ...): HugeStable below shows the definition cannot tell them apart.
HugeQ == 4000000
Bounds == << [tok |-> "q", q |-> -36, m |-> TRUE], [tok |-> "q", q |-> -12, m |-> TRUE], [tok |-> "q", q |-> -8, m |-> TRUE],
             [tok |-> "q", q |-> -5, m |-> TRUE],  [tok |-> "q", q |-> -4, m |-> TRUE],  [tok |-> "q", q |-> -1, m |-> TRUE],
             [tok |-> "q", q |-> 0, m |-> TRUE],   [tok |-> "q", q |-> 1, m |-> TRUE],   [tok |-> "q", q |-> 2, m |-> TRUE],
             [tok |-> "q", q |-> 4, m |-> TRUE],   [tok |-> "q", q |-> 6, m |-> TRUE],   [tok |-> "q", q |-> 8, m |-> TRUE],
             [tok |-> "q", q |-> 11, m |-> TRUE],  [tok |-> "q", q |-> 12, m |-> TRUE],  [tok |-> "q", q |-> 16, m |-> TRUE],
             [tok |-> "q", q |-> 36, m |-> TRUE],
             [tok |-> "huge", q |-> HugeQ, m |-> TRUE], [tok |-> "-huge", q |-> -HugeQ, m |-> TRUE],
             [tok |-> "nan", q |-> 0, m |-> FALSE], [tok |-> "inf", q |-> 0, m |-> FALSE], [tok |-> "-inf", q |-> 0, m |-> FALSE] >>

\* texts for to_number
NumTexts == { <<48>>, <<55>>, <<49, 50>>, <<48, 48, 55>>, <<49, 46, 53>>, <<50, 46, 50, 53>>, <<48, 46, 55, 53>>, <<51, 46, 48>>,
              <<45, 51>>, <<45, 48, 46, 55, 53>>, <<45, 49, 50, 46, 53>>, <<57, 57, 57, 57, 57, 57>>, <<49, 46, 53, 48>>,
              <<>>, <<97, 98, 99>>, <<233>>, <<49, 120>>, <<49, 122>>, <<49, 50, 107>>, <<120, 49>>, <<49, 44, 53>>, <<49, 46, 50, 46, 51>>, <<36, 49>>,
              <<45>>, <<46>>, <<49, 46>>, <<46, 53>>, <<45, 48>>, <<43, 49>>, <<49, 101, 51>>, <<49, 69, 45, 50>>,
              <<105, 110, 102>>, <<45, 105, 110, 102>>, <<78, 97, 78>>, <<110, 97, 110>>, <<105, 110, 102, 105, 110, 105, 116, 121>>,
              <<32, 49>>, <<49, 32>>, <<49, 95, 48, 48, 48>>, <<48, 120, 49, 48>>, <<48, 46, 49>>, <<48, 46, 51>>,
              <<1633>>, <<65297>>, <<49, 50, 51, 52, 53, 54, 55, 56, 57, 48, 49, 50, 51, 52, 53, 54, 55, 56, 57, 48>> }
\* to_number "or NaN on failure": a text that is empty or has a code point no number syntax uses
\* cannot be a number.  Anything else that is not a plain decimal literal is not modelled.
\* digits + - . _ white space and the letters of "infinity", "nan", "e", "x" in either case
NumberSyntax == (48..57) \cup {43, 45, 46, 95, 32, 9, 10}
                \cup {105, 110, 102, 116, 121, 97, 101, 120} \cup {73, 78, 70, 84, 89, 65, 69, 88}
MustBeNaN(s) == s = <<>> \/ \E i \in 1..Len(s) : s[i] \notin NumberSyntax

\* ---------- the enumeration ----------
VARIABLES kind, s
vars == <<kind, s>>
Alpha(k) == CASE k = "abe" -> Abe [] k = "ws" -> Ws [] k = "case" -> CaseLetters [] OTHER -> <<>>
MaxLen(k) == CASE k = "abe" -> MAXH [] k = "ws" -> WSH [] k = "case" -> CASEH [] OTHER -> 0
Init == \/ kind \in {"abe", "ws", "case"} /\ s = <<>>
        \/ kind = "num" /\ s \in NumTexts
Grow == /\ Len(s) < MaxLen(kind)
        /\ \E j \in 1..Len(Alpha(kind)) : s' = Append(s, Alpha(kind)[j])
        /\ UNCHANGED kind
Spec == Init /\ [][Grow]_vars

FindRow == [j \in 1..Len(Needles) |-> <<Find(s, Needles[j]), FindIdx(s, Needles[j])>>]
\* old-major; an empty `old` inserts at every boundary (StrOps!Replace)
ReplaceRow == [j \in 1..(Len(Olds) * Len(News)) |->
                 LET old == Olds[((j - 1) \div Len(News)) + 1]  new == News[((j - 1) % Len(News)) + 1]
                 IN [m |-> TRUE, r |-> Replace(s, old, new)]]
SplitRow == [j \in 1..Len(Pats) |-> IF Pats[j] = <<>> THEN [m |-> FALSE, r |-> <<>>] ELSE [m |-> TRUE, r |-> Split(s, Pats[j])]]
SliceRow == [j \in 1..(Len(Bounds) * Len(Bounds)) |->
               LET a == Bounds[((j - 1) \div Len(Bounds)) + 1]  b == Bounds[((j - 1) % Len(Bounds)) + 1]
               IN IF a.m /\ b.m THEN [m |-> TRUE, r |-> Slice(s, a.q, b.q)] ELSE [m |-> FALSE, r |-> <<>>]]

Record ==
  CASE kind = "abe" -> [tag |-> "S", kind |-> kind, s |-> s, len |-> Len(s), find |-> FindRow,
                        replace |-> IF Len(s) <= REPH THEN ReplaceRow ELSE <<>>,
                        split |-> IF Len(s) <= SPLH THEN SplitRow ELSE <<>>,
                        slice |-> IF Len(s) <= SLIH THEN SliceRow ELSE <<>>]
    [] kind = "ws" -> [tag |-> "S", kind |-> kind, s |-> s, len |-> Len(s), trim |-> Trim(s)]
    [] kind = "case" -> [tag |-> "S", kind |-> kind, s |-> s, len |-> Len(s), m |-> AllCaseKnown(s), upper |-> Upper(s), lower |-> Lower(s)]
    [] kind = "num" -> [tag |-> "S", kind |-> kind, s |-> s, num |-> ToNumber(s), nan |-> MustBeNaN(s)]
Emit == PrintT(ToJson(Record))

ASSUME PrintT(ToJson([tag |-> "PARAMS", needles |-> Needles, olds |-> Olds, news |-> News, pats |-> Pats,
                      bounds |-> [j \in 1..Len(Bounds) |-> [tok |-> Bounds[j].tok, q |-> Bounds[j].q]]]))

\* ---------- the definitions checked against each other ----------
NonEmpty(seq) == {j \in 1..Len(seq) : seq[j] # <<>>}
RECURSIVE Flat(_)
Flat(parts) == IF parts = <<>> THEN <<>> ELSE Head(parts) \o Flat(Tail(parts))
Laws ==
  kind = "abe" =>
    /\ Len(s) <= SPLH => \A j \in NonEmpty(Pats) :
         LET p == Pats[j]  parts == Split(s, p) IN
         /\ Join(parts, p) = s                                              \* the round trip of the property
         /\ \A q \in 1..Len(parts) : FindIdx(parts[q], p) = -1                   \* no piece contains the pattern
         /\ (Len(parts) = 1) = (FindIdx(s, p) = -1)
    /\ Len(s) <= REPH => \A j \in NonEmpty(Olds), w \in 1..Len(News) :
         /\ Replace(s, Olds[j], News[w]) = Join(Split(s, Olds[j]), News[w])  \* replace = split, then join with the replacement
         /\ Replace(s, Olds[j], Olds[j]) = s
         /\ (FindIdx(s, Olds[j]) = -1) => Replace(s, Olds[j], News[w]) = s
    /\ \A j \in 1..Len(Needles) :
         LET i == FindIdx(s, Needles[j]) IN
         /\ i >= 0 => OccursAt(s, Needles[j], i) /\ \A e \in 0..(i - 1) : ~OccursAt(s, Needles[j], e)
         /\ i < 0 => \A e \in 0..Len(s) : ~OccursAt(s, Needles[j], e)
         /\ Find(s, Needles[j]) >= i                                         \* bytes never lag behind code points
    /\ Len(s) <= SLIH =>
         /\ Slice(s, 0, 4 * Len(s)) = s /\ Slice(s, 0, HugeQ) = s /\ Slice(s, -HugeQ, HugeQ) = s
         /\ \A a \in 1..Len(Bounds), b \in 1..Len(Bounds) :
              LET r == Slice(s, Bounds[a].q, Bounds[b].q) IN
              /\ r = <<>> \/ \E e \in 0..Len(s) : OccursAt(s, r, e)          \* always a substring
              \* HugeStable: any bound beyond the length behaves like any other
              /\ Bounds[a].tok = "huge" => r = Slice(s, 4 * (Len(s) + 1), Bounds[b].q)
              /\ Bounds[a].tok = "-huge" => r = Slice(s, -4 * (Len(s) + 1), Bounds[b].q)
              /\ Bounds[b].tok = "huge" => r = Slice(s, Bounds[a].q, 4 * (Len(s) + 1))
              /\ Bounds[b].tok = "-huge" => r = Slice(s, Bounds[a].q, -4 * (Len(s) + 1))
WsLaws == kind = "ws" => /\ Trim(Trim(s)) = Trim(s)
                         /\ LET t == Trim(s) IN t = <<>> \/ (t[1] \notin WhiteSpace /\ t[Len(t)] \notin WhiteSpace /\ \E e \in 0..Len(s) : OccursAt(s, t, e))
CaseLaws == kind = "case" => /\ AllCaseKnown(s)
                             /\ Lower(Lower(s)) = Lower(s) /\ Upper(Upper(s)) = Upper(s)
                             /\ Len(Lower(s)) = Len(s) /\ Len(Upper(s)) >= Len(s)
=============================================================================
