SPECIFICATION Spec
INVARIANT Progress
INVARIANT Ordered
INVARIANT Emit
CHECK_DEADLOCK FALSE
