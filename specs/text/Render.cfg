SPECIFICATION Spec
INVARIANT Emit
INVARIANT SaneOk
CHECK_DEADLOCK FALSE
