\* only the maximal_suffix bound as found (j + k <= n). Refuted: NoPanic.
SPECIFICATION Spec
CONSTANTS
  Threshold = 2
  Bound = "le"
  Shift = "anchor"
  Guard = "anchor"
INVARIANTS NoPanic InRange Correct Bounded Progress
PROPERTY Variant
CHECK_DEADLOCK FALSE
