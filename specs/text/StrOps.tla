------------------------------ MODULE StrOps ------------------------------
(***************************************************************************)
(* Declarative definitions of the string built-ins, over sequences of code *)
(* points.  Written from docs/STRINGS.md and the statement of C13, not     *)
(* from the Rust.  Indexes `i` are 0-based positions in the code-point     *)
(* sequence.                                                               *)
(***************************************************************************)
EXTENDS Integers, Sequences, FiniteSets, LangValues

OccursAt(h, n, i) == i + Len(n) <= Len(h) /\ SubSeq(h, i + 1, i + Len(n)) = n

\* code-point index of the first occurrence, or -1
FindIdx(h, n) ==
  LET I == {i \in 0..(Len(h) - Len(n)) : OccursAt(h, n, i)}
  IN IF I = {} THEN -1 ELSE CHOOSE i \in I : \A j \in I : i <= j

\* what `find` returns: the UTF-8 byte offset of the first occurrence, or -1
Find(h, n) == LET i == FindIdx(h, n) IN IF i < 0 THEN -1 ELSE ByteLen(SubSeq(h, 1, i))
\* docs say "index"; bytes and code points agree when everything before the match is ASCII
FindUnambiguous(h, n) == LET i == FindIdx(h, n) IN i < 0 \/ \A j \in 1..i : h[j] < 128

\* leftmost, non-overlapping replacement; `old` non-empty
RECURSIVE Rep(_, _, _, _)
Rep(s, old, new, i) ==
  IF i + Len(old) > Len(s) THEN SubSeq(s, i + 1, Len(s))
  ELSE IF OccursAt(s, old, i) THEN new \o Rep(s, old, new, i + Len(old))
  ELSE <<s[i + 1]>> \o Rep(s, old, new, i + 1)
\* an empty `old` occurs at every character boundary, the two ends included ("ab" -> "-a-b-": what the crate's own unit
\* test of the matcher fixes): the replacement goes in front of every character and after the last one
RECURSIVE InsertAll(_, _, _)
InsertAll(s, new, i) == IF i > Len(s) THEN new ELSE new \o <<s[i]>> \o InsertAll(s, new, i + 1)
Replace(s, old, new) == IF old = <<>> THEN InsertAll(s, new, 1) ELSE Rep(s, old, new, 0)

\* split on a non-empty pattern: pieces between leftmost non-overlapping occurrences
RECURSIVE Spl(_, _, _, _)
Spl(s, p, i, cur) ==
  IF i + Len(p) > Len(s) THEN <<cur \o SubSeq(s, i + 1, Len(s))>>
  ELSE IF OccursAt(s, p, i) THEN <<cur>> \o Spl(s, p, i + Len(p), <<>>)
  ELSE Spl(s, p, i + 1, Append(cur, s[i + 1]))
Split(s, p) == Spl(s, p, 0, <<>>)

RECURSIVE Join(_, _)
Join(parts, sep) == IF parts = <<>> THEN <<>>
                    ELSE IF Len(parts) = 1 THEN parts[1]
                    ELSE parts[1] \o sep \o Join(Tail(parts), sep)

\* slice(start, end): bounds in quarters, floored, negative counted from the end, clamped
FloorQ(q) == q \div 4
Clamp(x, lo, hi) == IF x < lo THEN lo ELSE IF x > hi THEN hi ELSE x
Slice(s, aq, bq) ==
  LET n == Len(s)
      a0 == FloorQ(aq)   b0 == FloorQ(bq)
      a == Clamp(IF a0 < 0 THEN a0 + n ELSE a0, 0, n)
      b == Clamp(IF b0 < 0 THEN b0 + n ELSE b0, 0, n)
  IN IF a >= b THEN <<>> ELSE SubSeq(s, a + 1, b)

\* Unicode White_Space
WhiteSpace == {9, 10, 11, 12, 13, 32, 133, 160, 5760, 8232, 8233, 8239, 8287, 12288} \cup (8192..8202)
RECURSIVE TrimL(_), TrimR(_)
TrimL(s) == IF s # <<>> /\ Head(s) \in WhiteSpace THEN TrimL(Tail(s)) ELSE s
TrimR(s) == IF s # <<>> /\ s[Len(s)] \in WhiteSpace THEN TrimR(SubSeq(s, 1, Len(s) - 1)) ELSE s
Trim(s) == TrimR(TrimL(s))

\* case mapping: ASCII plus a small explicit table; anything else is not modelled
CaseKnown(c) == c < 128 \/ c \in {223, 224, 225, 233, 192, 193, 201, 241, 209, 20320, 128518}
UpperCp(c) == IF c >= 97 /\ c <= 122 THEN <<c - 32>>
              ELSE IF c \in {224, 225, 233, 241} THEN <<c - 32>>
              ELSE IF c = 223 THEN <<83, 83>>
              ELSE <<c>>
LowerCp(c) == IF c >= 65 /\ c <= 90 THEN <<c + 32>>
              ELSE IF c \in {192, 193, 201, 209} THEN <<c + 32>>
              ELSE <<c>>
RECURSIVE Upper(_), Lower(_)
Upper(s) == IF s = <<>> THEN <<>> ELSE UpperCp(Head(s)) \o Upper(Tail(s))
Lower(s) == IF s = <<>> THEN <<>> ELSE LowerCp(Head(s)) \o Lower(Tail(s))
AllCaseKnown(s) == \A i \in 1..Len(s) : CaseKnown(s[i])

\* to_number for plain decimal literals `d+` or `d+.d+` (optionally with a leading `-`)
\* whose value is an exact quarter; everything else (NaN, exponents, inf, ...) is not modelled.
IsDigit(c) == c >= 48 /\ c <= 57
RECURSIVE NatVal(_, _)
NatVal(s, acc) == IF s = <<>> THEN acc ELSE NatVal(Tail(s), acc * 10 + (Head(s) - 48))
ToNumber(s) ==
  LET neg == s # <<>> /\ Head(s) = 45
      body == IF neg THEN Tail(s) ELSE s
      dots == {i \in 1..Len(body) : body[i] = 46}
      ip == IF dots = {} THEN body ELSE SubSeq(body, 1, (CHOOSE i \in dots : TRUE) - 1)
      fp == IF dots = {} THEN <<>> ELSE SubSeq(body, (CHOOSE i \in dots : TRUE) + 1, Len(body))
      okShape == /\ Cardinality(dots) <= 1 /\ ip # <<>> /\ Len(ip) <= 6
                 /\ (dots = {} \/ fp # <<>>)
                 /\ \A i \in 1..Len(ip) : IsDigit(ip[i])
                 /\ \A i \in 1..Len(fp) : IsDigit(fp[i])
      fq == IF fp = <<>> \/ (\A i \in 1..Len(fp) : fp[i] = 48) THEN 0
            ELSE IF fp = <<50, 53>> THEN 1
            ELSE IF fp = <<53>> THEN 2
            ELSE IF fp = <<55, 53>> THEN 3 ELSE -1
  IN IF ~okShape \/ fq < 0 THEN [ok |-> FALSE]
     ELSE LET q == NatVal(ip, 0) * 4 + fq IN
          IF neg /\ q = 0 THEN [ok |-> FALSE] ELSE [ok |-> TRUE, q |-> IF neg THEN -q ELSE q]
=============================================================================
