------------------------------- MODULE Lexer -------------------------------
(***************************************************************************)
(* Reference lexer of NaijaScript over sequences of CODE POINTS (a cursor  *)
(* that sits between characters can never split one).  NextTok(s, i) reads *)
(* one lexeme starting at character index i (1-based) and returns          *)
(*   [k    token kind: "id" "num" "str" "kw" "ifsay" "ifnot" "smallpass"   *)
(*         "p" (punctuation) | "eof" | "err" (a lexical diagnostic)        *)
(*    t    text of the token (code points)                                 *)
(*    from, to   character span [from, to) of the token / diagnostic       *)
(*    next       cursor after it ]                                         *)
(* Layout rules (docs/COMMENTS.md + property C10): spaces, tabs, LF, CR,   *)
(* form feed separate tokens; `#` starts a comment that ends at LF or CR;  *)
(* the words of `if to say`, `if not so`, `small pass` may be separated by *)
(* any whitespace.  A string literal ends at its quote and may not contain *)
(* a raw line break.                                                       *)
(***************************************************************************)
EXTENDS Integers, Sequences, FiniteSets

SP == 32  TAB == 9  LF == 10  CR == 13  FF == 12  HASH == 35  DQ == 34  SQ == 39  BS == 92  DOT == 46
IsWS(c) == c \in {SP, TAB, LF, CR, FF}
IsDigit(c) == c >= 48 /\ c <= 57
IsAlpha(c) == (c >= 97 /\ c <= 122) \/ (c >= 65 /\ c <= 90) \/ c = 95
IsWordC(c) == IsAlpha(c) \/ IsDigit(c)
IsPunct(c) == c \in {40, 41, 91, 93, 44, DOT}
Width(c) == IF c < 128 THEN 1 ELSE IF c < 2048 THEN 2 ELSE IF c < 65536 THEN 3 ELSE 4

wIf == <<105, 102>>  wTo == <<116, 111>>  wSay == <<115, 97, 121>>  wNot == <<110, 111, 116>>  wSo == <<115, 111>>
wSmall == <<115, 109, 97, 108, 108>>  wPass == <<112, 97, 115, 115>>
Keywords == { <<109,97,107,101>>, <<103,101,116>>, <<97,100,100>>, <<109,105,110,117,115>>, <<116,105,109,101,115>>,
              <<100,105,118,105,100,101>>, <<109,111,100>>, <<97,110,100>>, <<111,114>>, wNot, <<106,97,115,105>>,
              <<115,116,97,114,116>>, <<101,110,100>>, <<99,111,109,111,116>>, <<110,101,120,116>>, <<110,97>>, wPass,
              <<116,114,117,101>>, <<102,97,108,115,101>>, <<110,117,108,108>>, <<100,111>>, <<114,101,116,117,114,110>> }

RECURSIVE SkipWS(_, _), SkipLine(_, _), WordEnd(_, _), DigitsEnd(_, _), StrEnd(_, _, _)
SkipWS(s, i) == IF i <= Len(s) /\ IsWS(s[i]) THEN SkipWS(s, i + 1) ELSE i
SkipLine(s, i) == IF i > Len(s) THEN i ELSE IF s[i] \in {LF, CR} THEN i + 1 ELSE SkipLine(s, i + 1)
WordEnd(s, i) == IF i <= Len(s) /\ IsWordC(s[i]) THEN WordEnd(s, i + 1) ELSE i
DigitsEnd(s, i) == IF i <= Len(s) /\ IsDigit(s[i]) THEN DigitsEnd(s, i + 1) ELSE i
RECURSIVE SkipLineStop(_, _)
SkipLineStop(s, i) == IF i > Len(s) \/ s[i] \in {LF, CR} THEN i ELSE SkipLineStop(s, i + 1)
\* index of the closing quote, 0 if a line break or the end of input comes first; escapes skip one character
StrEnd(s, i, q) == IF i > Len(s) \/ s[i] \in {LF, CR} THEN 0
                   ELSE IF s[i] = q THEN i
                   ELSE IF s[i] = BS THEN (IF i + 1 > Len(s) THEN 0 ELSE StrEnd(s, i + 2, q))
                   ELSE StrEnd(s, i + 1, q)
\* `w` after optional whitespace at i, not followed by a letter: position after it, else 0
TryWord(s, i, w) == LET j == SkipWS(s, i)  e == j + Len(w) IN
                    IF e - 1 <= Len(s) /\ SubSeq(s, j, e - 1) = w /\ (e > Len(s) \/ ~IsAlpha(s[e])) THEN e ELSE 0

T(k, t, from, to, next) == [k |-> k, t |-> t, from |-> from, to |-> to, next |-> next]
RECURSIVE NextTok(_, _)
NextTok(s, i0) ==
  LET i == SkipWS(s, i0) IN
  IF i > Len(s) THEN T("eof", <<>>, i, i, i)
  ELSE LET c == s[i] IN
    IF c = HASH THEN NextTok(s, SkipLine(s, i))
    ELSE IF c \in {DQ, SQ} THEN
         LET e == StrEnd(s, i + 1, c) IN
         IF e = 0 THEN LET stop == SkipLineStop(s, i + 1) IN T("err", <<>>, i, stop, stop)      \* unterminated: up to the line end
         ELSE T("str", SubSeq(s, i + 1, e - 1), i, e + 1, e + 1)
    ELSE IF IsPunct(c) THEN T("p", <<c>>, i, i + 1, i + 1)
    ELSE IF IsDigit(c) THEN
         LET e1 == DigitsEnd(s, i)
             dot == e1 <= Len(s) /\ s[e1] = DOT
             frac == dot /\ e1 + 1 <= Len(s) /\ IsDigit(s[e1 + 1])
             e == IF frac THEN DigitsEnd(s, e1 + 1) ELSE e1
         IN IF dot /\ ~frac THEN T("err", <<>>, i, e1 + 1, e1 + 1)                             \* `1.` without a digit
            ELSE IF e <= Len(s) /\ IsAlpha(s[e]) THEN LET w == WordEnd(s, e) IN T("err", <<>>, i, w, w)   \* `1abc`
            ELSE T("num", SubSeq(s, i, e - 1), i, e, e)
    ELSE IF IsAlpha(c) THEN
         LET e == WordEnd(s, i)  w == SubSeq(s, i, e - 1) IN
         IF w = wIf THEN
              LET a == TryWord(s, e, wTo)   a2 == IF a > 0 THEN TryWord(s, a, wSay) ELSE 0
                  b == TryWord(s, e, wNot)  b2 == IF b > 0 THEN TryWord(s, b, wSo) ELSE 0 IN
              IF a2 > 0 THEN T("ifsay", <<>>, i, a2, a2)
              ELSE IF b2 > 0 THEN T("ifnot", <<>>, i, b2, b2)
              ELSE T("id", w, i, e, e)
         ELSE IF w = wSmall /\ TryWord(s, e, wPass) > 0 THEN LET p == TryWord(s, e, wPass) IN T("smallpass", <<>>, i, p, p)
         ELSE T(IF w \in Keywords THEN "kw" ELSE "id", w, i, e, e)
    ELSE T("err", <<>>, i, i + 1, i + 1)                                                       \* a character no token starts with

\* whole input -> sequence of tokens and diagnostics (without eof)
RECURSIVE LexAll(_, _)
LexAll(s, i) == LET t == NextTok(s, i) IN IF t.k = "eof" THEN <<>> ELSE <<t>> \o LexAll(s, t.next)
Clean(ts) == \A j \in 1..Len(ts) : ts[j].k # "err"
\* byte offset of character index i
RECURSIVE ByteOff(_, _)
ByteOff(s, i) == IF i <= 1 THEN 0 ELSE Width(s[i - 1]) + ByteOff(s, i - 1)

\* design invariants of one lexing step (checked by TLC on every step of every input)
StepOk(s, i, t) == /\ t.from >= i /\ t.from <= t.to /\ t.to <= t.next
                   /\ t.next <= Len(s) + 1
                   /\ (t.k # "eof" => t.next > i)                 \* progress: the cursor strictly increases
=============================================================================
