------------------------------- MODULE Render -------------------------------
(***************************************************************************)
(* What the diagnostic renderer (src/diagnostics.rs) prints for one        *)
(* diagnostic, as a function of the source text and the diagnostic's data  *)
(* (colour codes left out).  Texts are sequences of code points, positions *)
(* are 1-based character indices (the harness converts byte offsets).      *)
(*                                                                         *)
(* This module goes beyond the listed properties: C07 only asks that       *)
(* rendering does not fail.  It is DESCRIPTIVE - it states what the code   *)
(* does today, including two choices one could argue with, named here:     *)
(*   KeepCR      the text of a line that ends in CRLF keeps its CR         *)
(*   CaretChars  carets count characters, label dashes count columns       *)
(*               (they differ when the span contains a tab)                *)
(* The conformance run (checks/c07.py, information only, never a verdict)  *)
(* compares every line of the real rendering with Lines(..).               *)
(*                                                                         *)
(* Layout:   sev[code]: message                                            *)
(*            --> file:line:col                                            *)
(*             |                                                           *)
(*           ( N | source line of a label on another line                  *)
(*             |      --- label                                            *)
(*             |                                            )*             *)
(*           N | source line of the diagnostic (tabs expanded to 4)        *)
(*             |      ^^^                                                  *)
(*           (  |      --- label on the same line )*                       *)
(***************************************************************************)
EXTENDS Integers, Sequences, TLC, Json, IOUtils

LF == 10  CR == 13  TAB == 9  SP == 32
TabW == 4

\* ---- lines: LF, a lone CR, and CRLF (one terminator) end a line ----
RECURSIVE StartsFrom(_, _)
StartsFrom(s, i) ==
  IF i > Len(s) THEN <<>>
  ELSE IF s[i] = CR /\ i < Len(s) /\ s[i + 1] = LF THEN <<i + 2>> \o StartsFrom(s, i + 2)
  ELSE IF s[i] \in {LF, CR} THEN <<i + 1>> \o StartsFrom(s, i + 1)
  ELSE StartsFrom(s, i + 1)
LineStarts(s) == <<1>> \o StartsFrom(s, 1)
\* number of the line position p lies on (a position on a terminator belongs to the line it ends)
LineNo(s, p) == LET ls == LineStarts(s) IN CHOOSE n \in 1..Len(ls) : ls[n] <= p /\ (n = Len(ls) \/ ls[n + 1] > p)
LineBeg(s, n) == LineStarts(s)[n]
\* one past the last character shown for line n.  KeepCR: the next start minus ONE character, so of a CRLF only the LF goes
LineEnd(s, n) == LET ls == LineStarts(s) IN IF n < Len(ls) THEN ls[n + 1] - 1 ELSE Len(s) + 1

\* ---- columns: a tab advances to the next multiple of 4 ----
RECURSIVE VisualFrom(_, _, _)
VisualFrom(t, i, col) == IF i > Len(t) THEN col
                         ELSE VisualFrom(t, i + 1, IF t[i] = TAB THEN col + (TabW - (col % TabW)) ELSE col + 1)
Visual(t) == VisualFrom(t, 1, 0)
RECURSIVE ExpandFrom(_, _, _)
ExpandFrom(t, i, col) == IF i > Len(t) THEN <<>>
                         ELSE IF t[i] = TAB THEN LET n == TabW - (col % TabW) IN [j \in 1..n |-> SP] \o ExpandFrom(t, i + 1, col + n)
                         ELSE <<t[i]>> \o ExpandFrom(t, i + 1, col + 1)
Expand(t) == ExpandFrom(t, 1, 0)
Sub(s, a, b) == IF b <= a THEN <<>> ELSE SubSeq(s, a, b - 1)           \* [a, b)
Min(a, b) == IF a < b THEN a ELSE b
Max(a, b) == IF a > b THEN a ELSE b
Col(s, p) == Visual(Sub(s, LineBeg(s, LineNo(s, p)), p)) + 1
Spaces(n) == [j \in 1..n |-> SP]
Rep(c, n) == [j \in 1..n |-> c]
RECURSIVE NatCps(_)
NatCps(n) == IF n < 10 THEN <<48 + n>> ELSE NatCps(n \div 10) \o <<48 + (n % 10)>>

\* ---- one diagnostic: d = [from, to, head (cps of "sev[code]: message"), labels: seq of [from, to, msg]] ----
Gutter(n, w) == Spaces(w - Len(NatCps(n))) \o NatCps(n) \o <<SP, 124, SP>>          \* " N | "
Plain(w) == Spaces(w) \o <<SP, 124, SP>>
Dashes(s, l, n) == Max(1, Visual(Sub(s, l.from, Min(l.to, LineEnd(s, n)))))
LabelLine(s, l, n, w) == Plain(w) \o Spaces(Col(s, l.from) - 1) \o Rep(45, Dashes(s, l, n)) \o <<SP>> \o l.msg
Lines(s, d, file, w) ==
  LET n == LineNo(s, d.from)
      \* CaretChars: characters, not columns
      carets == Max(1, Len(Sub(s, d.from, Min(d.to, LineEnd(s, n)))))
      same == SelectSeq(d.labels, LAMBDA l : LineNo(s, l.from) = n)
      cross == SelectSeq(d.labels, LAMBDA l : LineNo(s, l.from) # n)
      RECURSIVE CrossLines(_)
      CrossLines(i) == IF i > Len(cross) THEN <<>>
                       ELSE LET l == cross[i]  ln == LineNo(s, l.from) IN
                            <<Gutter(ln, w) \o Expand(Sub(s, LineBeg(s, ln), LineEnd(s, ln))), LabelLine(s, l, ln, w), Plain(w)>> \o CrossLines(i + 1)
  IN <<d.head, <<SP, 45, 45, 62, SP>> \o file \o <<58>> \o NatCps(n) \o <<58>> \o NatCps(Col(s, d.from)), Plain(w)>>
     \o CrossLines(1)
     \o <<Gutter(n, w) \o Expand(Sub(s, LineBeg(s, n), LineEnd(s, n))), Plain(w) \o Spaces(Col(s, d.from) - 1) \o Rep(94, carets)>>
     \o [i \in 1..Len(same) |-> LabelLine(s, same[i], n, w)]
\* gutter width: digits of the largest line number any diagnostic or label of the set starts on
RECURSIVE MaxSeq(_)
MaxSeq(q) == IF q = <<>> THEN 1 ELSE Max(Head(q), MaxSeq(Tail(q)))
Width(s, ds) == Len(NatCps(MaxSeq([i \in 1..Len(ds) |-> Max(LineNo(s, ds[i].from), MaxSeq([j \in 1..Len(ds[i].labels) |-> LineNo(s, ds[i].labels[j].from)]))])))
RECURSIVE All(_, _, _, _, _)
All(s, ds, i, file, w) == IF i > Len(ds) THEN <<>> ELSE Lines(s, ds[i], file, w) \o All(s, ds, i + 1, file, w)
Rendering(s, ds, file) == All(s, ds, 1, file, Width(s, ds))

\* ---- design facts TLC checks on every case ----
Sane(s, ds) == \A i \in 1..Len(ds) : LET n == LineNo(s, ds[i].from) IN
                  /\ LineBeg(s, n) <= ds[i].from /\ ds[i].from <= LineEnd(s, n) + 1
                  /\ Col(s, ds[i].from) >= 1

\* ---- driver: cases from a file, one state per case ----
Cases == ndJsonDeserialize(IOEnv.CASES)
VARIABLE c
Init == c \in 1..Len(Cases)
Next == UNCHANGED c
Spec == Init /\ [][Next]_c
Emit == PrintT(ToJson([i |-> c, lines |-> Rendering(Cases[c].src, Cases[c].ds, Cases[c].file)]))
SaneOk == Sane(Cases[c].src, Cases[c].ds)
=============================================================================
