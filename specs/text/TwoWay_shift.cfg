\* only the shift as found (offset = start + max(1, period)). Refuted: it can land at or before the anchor just examined (Variant/Bounded) or jump over a match (Correct).
SPECIFICATION Spec
CONSTANTS
  Threshold = 2
  Bound = "lt"
  Shift = "period"
  Guard = "anchor"
INVARIANTS NoPanic InRange Correct Bounded Progress
PROPERTY Variant
CHECK_DEADLOCK FALSE
