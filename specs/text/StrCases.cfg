\* Domain bounds come from the environment (MAXH MAXN REPH REPO REPW SPLH SPLP SLIH WSH CASEH), see StrCases.tla.
SPECIFICATION Spec
INVARIANTS Emit Laws WsLaws CaseLaws
CHECK_DEADLOCK FALSE
