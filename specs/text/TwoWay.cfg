\* tw::find as it is NOW (after the repair): all properties must hold. MAXH / MAXN come from the environment (default 10 / 6).
SPECIFICATION Spec
CONSTANTS
  Threshold = 2
  Bound = "lt"
  Shift = "anchor"
  Guard = "anchor"
INVARIANTS NoPanic InRange Correct Bounded Progress
PROPERTY Variant
CHECK_DEADLOCK FALSE
