------------------------------ MODULE LexSweep ------------------------------
(***************************************************************************)
(* C07: every text up to a length over an alphabet that has one member of  *)
(* every character class the lexer distinguishes, including 2-, 3- and     *)
(* 4-byte characters.  TLC builds each text character by character, lexes  *)
(* it with the reference lexer one token per step, checks the design       *)
(* invariants of every step and prints the text with its reference tokens. *)
(***************************************************************************)
EXTENDS Lexer, Json, IOUtils, TLC
MaxLen == atoi(IOEnv.MAXLEN)
\* 1 . a _ " ' \ n { } # SP TAB LF CR ( ) [ ] , @ e-acute(2) ni(3) smiley(4)
Alphabet == IF IOEnv.ALPHA = "full"
            THEN {49, 46, 97, 95, 34, 39, 92, 110, 123, 125, 35, 32, 9, 10, 13, 40, 41, 91, 93, 44, 64, 233, 20320, 128518}
            ELSE {49, 46, 97, 34, 92, 35, 32, 10, 40, 64, 233, 128518, 105, 102}       \* reduced (+ i f for keyword prefixes)
VARIABLES text, phase, pos, toks
vars == <<text, phase, pos, toks>>
Init == text = <<>> /\ phase = "gen" /\ pos = 1 /\ toks = <<>>
Grow == phase = "gen" /\ Len(text) < MaxLen /\ \E c \in Alphabet : text' = Append(text, c) /\ UNCHANGED <<phase, pos, toks>>
Start == phase = "gen" /\ text # <<>> /\ phase' = "lex" /\ UNCHANGED <<text, pos, toks>>
Step == /\ phase = "lex"
        /\ LET t == NextTok(text, pos) IN
           IF t.k = "eof" THEN phase' = "done" /\ UNCHANGED <<text, pos, toks>>
           ELSE pos' = t.next /\ toks' = Append(toks, [k |-> t.k, from |-> ByteOff(text, t.from), to |-> ByteOff(text, t.to)]) /\ UNCHANGED <<text, phase>>
Next == Grow \/ Start \/ Step
Spec == Init /\ [][Next]_vars
\* design invariants: progress, ordered spans inside the text
Progress == phase = "lex" => StepOk(text, pos, NextTok(text, pos))
Ordered == \A j \in 1..(Len(toks) - 1) : toks[j].to <= toks[j + 1].from
Emit == phase = "done" => PrintT(ToJson([tag |-> "TEXT", cps |-> text, toks |-> toks]))
=============================================================================
