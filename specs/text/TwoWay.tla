------------------------------- MODULE TwoWay -------------------------------
(***************************************************************************)
(* C13: a step-by-step TRANSCRIPTION of `find` in src/builtins/tw.rs, the  *)
(* length-tiered substring search behind `find`, `replace` and (through    *)
(* them) every script that searches a string.  Indexes are 0-based as in   *)
(* the Rust; `At(s, i)` is `s[i]`.  Strings are sequences of BYTES.        *)
(*                                                                         *)
(* The code has four tiers selected by the needle length:                  *)
(*   0 bytes        -> Some(0)            longer than the haystack -> None *)
(*   1 byte         -> one memchr                                          *)
(*   2..SIMD_THRESHOLD bytes -> loop: memchr(first byte) + compare         *)
(*   > SIMD_THRESHOLD  -> critical factorisation (maximal_suffix twice,    *)
(*                        crit_period), loop: memchr(n[crit]) + compare    *)
(* SIMD_THRESHOLD (16 in the code) is the CONSTANT `Threshold`, so that    *)
(* TLC can lower it to 2 and run the long tier on EVERY haystack/needle    *)
(* pair over a two-letter alphabet.                                        *)
(*                                                                         *)
(* Registers of the long tier: offset (where the next memchr starts),      *)
(* index (where memchr found the anchor byte n[crit]), start = index-crit  *)
(* (where a match would have to begin).  One transition per loop           *)
(* iteration; the action names are the five ways an iteration can end:     *)
(*   GuardExit    the `while` condition is false             -> None       *)
(*   MemchrMiss   no anchor byte at or after offset          -> None       *)
(*   BeforeCrit   anchor found at index < crit               -> offset = index+1 *)
(*   CompareHit   h[start..start+|n|] = n                    -> Some(start)*)
(*   CompareMiss  otherwise                                  -> shift      *)
(* (MemchrHit is the common precondition of the last three.)               *)
(*                                                                         *)
(* Three lines of the code are CONSTANTS, because each of them was wrong   *)
(* in the code as found and the model is the design review of the repair:  *)
(*   Bound  "le": `while j + k <= n` in maximal_suffix (reads x[n])        *)
(*          "lt": `while j + k < n`                                        *)
(*   Shift  "period": `offset = start + max(1, period)` after a mismatch   *)
(*          "anchor": `offset = index + 1`                                 *)
(*   Guard  "start" : `while offset + nlen <= hlen`                        *)
(*          "anchor": `while offset < hlen`                                *)
(*          "tight" : `while offset + (nlen - crit) <= hlen` (an           *)
(*                    alternative the review also considered)              *)
(* TwoWay.cfg is the code AS IT IS NOW (lt / anchor / anchor).  The other  *)
(* .cfg files are the code as found and the two partial repairs; TLC       *)
(* refutes each of them (see checks/c13.py).                               *)
(*                                                                         *)
(* Checked for ALL pairs (h, n) over {a, b} with |h| <= MaxH, |n| <= MaxN: *)
(*   NoPanic   no slice/array index outside its range is ever read         *)
(*   InRange   crit < |n|, offset <= |h|, index <= |h|, 0 <= start <= index*)
(*   Correct   the result is StrOps!Find(h, n): the byte offset of the     *)
(*             FIRST occurrence, or -1                                     *)
(*   Variant   `offset` strictly increases from one iteration to the next, *)
(*   Bounded   so the loop runs at most |h| + 1 times: non-termination is  *)
(*             a SAFETY violation                                          *)
(***************************************************************************)
EXTENDS Integers, Sequences, FiniteSets, TLC, IOUtils
CONSTANTS Threshold,        \* SIMD_THRESHOLD
          Bound, Shift, Guard
S == INSTANCE StrOps

EnvOr(name, dflt) == IF name \in DOMAIN IOEnv THEN atoi(IOEnv[name]) ELSE dflt
MaxH == EnvOr("MAXH", 10)
MaxN == EnvOr("MAXN", 6)
Alphabet == {97, 98}
Strs(hi) == UNION {[1..k -> Alphabet] : k \in 0..hi}

At(s, i) == s[i + 1]
Max(a, b) == IF a > b THEN a ELSE b

\* ---------------------------------------------------------------- maximal_suffix / crit_period
\* fn maximal_suffix(x, rev) -> (i, p), transcribed iteration by iteration.  `ok = FALSE` means
\* the Rust would have panicked on an index outside x (why = "oob"), or the loop did not end (why = "fuel").
RECURSIVE MS(_, _, _, _, _, _, _)
MS(x, rev, i, j, k, p, fuel) ==
  LET n == Len(x) IN
  IF ~(IF Bound = "le" THEN j + k <= n ELSE j + k < n) THEN [i |-> i, p |-> p, ok |-> TRUE, why |-> ""]
  ELSE IF fuel = 0 THEN [i |-> i, p |-> p, ok |-> FALSE, why |-> "fuel"]
  ELSE IF i + k >= n \/ j + k >= n THEN [i |-> i, p |-> p, ok |-> FALSE, why |-> "oob"]    \* x[i + k], x[j + k]
  ELSE LET ap == At(x, i + k)
           a == At(x, j + k)
       IN IF (a < ap /\ ~rev) \/ (a > ap /\ rev) THEN MS(x, rev, i, j + k, 1, (j + k) - i, fuel - 1)
          ELSE IF a = ap THEN (IF k = p THEN MS(x, rev, i, j + p, 1, p, fuel - 1)
                                        ELSE MS(x, rev, i, j, k + 1, p, fuel - 1))
          ELSE MS(x, rev, j, j + 1, 1, 1, fuel - 1)
MaximalSuffix(x, rev) == MS(x, rev, 0, 1, 1, 1, 4 * (Len(x) + 1) * (Len(x) + 1))
\* fn crit_period(x): the later of the two maximal suffixes
CritPeriod(x) ==
  LET f == MaximalSuffix(x, FALSE)
      r == MaximalSuffix(x, TRUE)
  IN IF ~f.ok THEN f ELSE IF ~r.ok THEN r ELSE IF f.i >= r.i THEN f ELSE r

\* memchr_rs::memchr(c, h, off): index of the first c at or after off, |h| if there is none
RECURSIVE Scan(_, _, _)
Scan(c, h, i) == IF i >= Len(h) THEN Len(h) ELSE IF At(h, i) = c THEN i ELSE Scan(c, h, i + 1)
Memchr(c, h, off) == Scan(c, h, off)
\* `start + nlen <= hlen && &h[start..start + nlen] == n`
MatchAt(h, n, s) == s + Len(n) <= Len(h) /\ SubSeq(h, s + 1, s + Len(n)) = n

\* ---------------------------------------------------------------- the matcher
VARIABLES h, n,             \* haystack, needle (bytes)
          pc,               \* "entry" | "factor" | "loop" | "done" | "panic"
          tier,             \* "" | "empty" | "longer" | "one" | "short" | "long"
          crit, period,     \* critical factorisation of the needle (0 / 1 in the short tier)
          offset, index, start,
          dec,              \* how the last iteration ended
          res,              \* -2 running, -1 None, k = Some(k)
          steps             \* loop iterations so far
vars == <<h, n, pc, tier, crit, period, offset, index, start, dec, res, steps>>

Start(hh, nn) == /\ h = hh /\ n = nn /\ pc = "entry" /\ tier = "" /\ crit = 0 /\ period = 1
                 /\ offset = 0 /\ index = 0 /\ start = 0 /\ dec = "" /\ res = -2 /\ steps = 0
Init == \E hh \in Strs(MaxH), nn \in Strs(MaxN) : Start(hh, nn)

Return(r) == res' = r /\ pc' = "done"

\* early returns and tier selection
Entry ==
  /\ pc = "entry"
  /\ UNCHANGED <<h, n, crit, period, offset, start, steps, dec>>
  /\ IF Len(n) = 0 THEN tier' = "empty" /\ Return(0) /\ UNCHANGED index
     ELSE IF Len(n) > Len(h) THEN tier' = "longer" /\ Return(-1) /\ UNCHANGED index
     ELSE IF Len(n) = 1 THEN /\ tier' = "one"
                             /\ index' = Memchr(At(n, 0), h, 0)
                             /\ Return(IF index' < Len(h) THEN index' ELSE -1)
     ELSE IF Len(n) <= Threshold THEN tier' = "short" /\ pc' = "loop" /\ UNCHANGED <<res, index>>    \* anchor = n[0]
     ELSE tier' = "long" /\ pc' = "factor" /\ UNCHANGED <<res, index>>

\* `let (crit, period) = crit_period(n); let anchor = n[crit];`
Factorise ==
  /\ pc = "factor"
  /\ UNCHANGED <<h, n, tier, offset, index, start, steps, res, dec>>
  /\ LET cp == CritPeriod(n) IN
     IF ~cp.ok \/ cp.i >= Len(n) THEN pc' = "panic" /\ UNCHANGED <<crit, period>>
     ELSE crit' = cp.i /\ period' = cp.p /\ pc' = "loop"

Anchor == At(n, crit)
GuardHolds ==
  IF tier = "short" THEN offset < Len(h)
  ELSE CASE Guard = "start"  -> offset + Len(n) <= Len(h)
         [] Guard = "anchor" -> offset < Len(h)
         [] Guard = "tight"  -> offset + (Len(n) - crit) <= Len(h)
ShiftTo(idx, st) ==
  IF tier = "short" \/ Shift = "anchor" THEN idx + 1
  ELSE st + Max(1, period)

Iteration == pc = "loop" /\ steps' = steps + 1 /\ UNCHANGED <<h, n, tier, crit, period>>
Found == Memchr(Anchor, h, offset)                  \* `let index = memchr(anchor, h, offset);`
MemchrHit == GuardHolds /\ Found < Len(h)

GuardExit ==
  /\ Iteration /\ ~GuardHolds
  /\ dec' = "exit" /\ Return(-1) /\ UNCHANGED <<offset, index, start>>
MemchrMiss ==
  /\ Iteration /\ GuardHolds /\ Found >= Len(h)
  /\ index' = Found
  /\ dec' = "none" /\ Return(-1) /\ UNCHANGED <<offset, start>>
BeforeCrit ==
  /\ Iteration /\ MemchrHit /\ Found < crit
  /\ index' = Found /\ offset' = Found + 1
  /\ dec' = "before" /\ UNCHANGED <<start, res, pc>>
CompareHit ==
  /\ Iteration /\ MemchrHit /\ Found >= crit /\ MatchAt(h, n, Found - crit)
  /\ index' = Found /\ start' = Found - crit
  /\ dec' = "hit" /\ Return(Found - crit) /\ UNCHANGED offset
CompareMiss ==
  /\ Iteration /\ MemchrHit /\ Found >= crit /\ ~MatchAt(h, n, Found - crit)
  /\ index' = Found /\ start' = Found - crit
  /\ offset' = ShiftTo(Found, Found - crit)
  /\ dec' = "miss" /\ UNCHANGED <<res, pc>>

Next == Entry \/ Factorise \/ GuardExit \/ MemchrMiss \/ BeforeCrit \/ CompareHit \/ CompareMiss
Spec == Init /\ [][Next]_vars

\* ---------------------------------------------------------------- what TLC checks
NoPanic == pc # "panic"
InRange == /\ tier = "long" /\ pc \in {"loop", "done"} => crit < Len(n)
           /\ offset \in 0..Len(h) /\ index \in 0..Len(h)
           /\ start >= 0 /\ (dec \in {"hit", "miss"} => start = index - crit)
\* h and n are BYTE strings here, so the position of the first occurrence in the sequence
\* (StrOps!FindIdx) is the byte offset StrOps!Find speaks of; over {a, b} the two coincide
Correct == pc = "done" => res = S!FindIdx(h, n) /\ res = S!Find(h, n)
Bounded == steps <= Len(h) + 1
\* the variant |h| - offset decreases with every iteration that does not return
Variant == [][pc = "loop" /\ pc' = "loop" => offset' > offset]_vars
\* every run ends (a state without successor is a final one)
Progress == pc \notin {"done", "panic"} => ENABLED Next
=============================================================================
