----------------------------- MODULE ArenaTrace -----------------------------
(***************************************************************************)
(* C11, V direction: histories RECORDED FROM THE REAL ARENA (harness        *)
(* sub-command `vh arena`, debug::Arena and bump::Arena builds) are judged  *)
(* by the ABSTRACT layer ArenaAbs.  A trace is                              *)
(*   {"id":.., "hdr":{"cap","bm","slack","off0"},                           *)
(*    "steps":[{"o","i","s","a",  request: op, block id, size, alignment    *)
(*              "fail","beg","len","amod","off","commit",                   *)
(*              "zero","kept","seen":[ids],"bad":[ids]}, ...]}              *)
(* where beg = returned address - base, amod = returned address mod a, off  *)
(* = Arena::offset() after the step, commit = committed prefix after the    *)
(* step, seen/bad = blocks whose byte pattern was re-read / found damaged.  *)
(* Everything the implementation chose is fed back; a trace is accepted iff *)
(* every step is a step the abstract layer allows.  One initial state per   *)
(* trace, one TLC state per recorded step, one VERDICT record per trace.    *)
(***************************************************************************)
EXTENDS ArenaAbs, Json, IOUtils

Traces == ndJsonDeserialize(IOEnv.TRACES)
VARIABLES i, k, a, verdict
vars == <<i, k, a, verdict>>

JOf(t) == [cap |-> t.hdr.cap, bm |-> t.hdr.bm, slack |-> t.hdr.slack]
ReqOf(st) == [op |-> st.o, id |-> st.i, sz |-> st.s, al |-> st.a]
ObsOf(st) == [fail |-> st.fail, beg |-> st.beg, len |-> st.len, amod |-> st.amod, off |-> st.off, commit |-> st.commit,
              zero |-> st.zero, kept |-> st.kept, seen |-> Range(st.seen), bad |-> Range(st.bad)]

Init == /\ i \in 1..Len(Traces)
        /\ k = 1
        /\ a = AbsInit(Traces[i].hdr.off0)
        /\ verdict = [v |-> "running", why |-> ""]

Next == /\ verdict.v = "running"
        /\ i' = i
        /\ LET t == Traces[i] IN
           IF k > Len(t.steps)
           THEN verdict' = [v |-> "accept", why |-> ""] /\ UNCHANGED <<k, a>>
           ELSE LET J == JOf(t)
                    o == ReqOf(t.steps[k])
                    r == ObsOf(t.steps[k])
                    j == Judge(J, a, o, r)
                    a2 == Apply(a, o, r)
                    p == IF j # "ok" THEN j
                         ELSE IF Post(J, a2, r) # "ok" THEN Post(J, a2, r)
                         ELSE IF ~AbsInv(J, a2) THEN "abstract-invariant" ELSE "ok"
                IN IF p = "ok"
                   THEN a' = a2 /\ k' = k + 1 /\ UNCHANGED verdict
                   ELSE verdict' = [v |-> "reject", why |-> p] /\ UNCHANGED <<k, a>>
Spec == Init /\ [][Next]_vars

Emit == verdict.v # "running" =>
          PrintT(ToJson([tag |-> "VERDICT", i |-> i, id |-> Traces[i].id, verdict |-> verdict.v, k |-> k, why |-> verdict.why]))
=============================================================================
