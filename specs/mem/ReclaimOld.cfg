SPECIFICATION Spec
CONSTANTS NSlots = 3
NFrame = 8
MaxOps = 4
Fixes = {}
INVARIANT NoStale
CHECK_DEADLOCK FALSE
