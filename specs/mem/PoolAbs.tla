------------------------------- MODULE PoolAbs -------------------------------
(***************************************************************************)
(* C12 - string pool, ABSTRACT LAYER.  Pure operators; no constants, no    *)
(* variables.  It states only what the property states:                    *)
(*   - per size class the slots are partitioned into live / free / virgin  *)
(*     (free = handed out before and not live, virgin = never handed out); *)
(*   - Alloc(sz) is served by the smallest class whose slot is >= sz and   *)
(*     returns ANY slot of that class that is not live, if there is one;   *)
(*     otherwise (class exhausted, or sz larger than every slot) it falls  *)
(*     back to FRESH arena memory that is never recycled;                  *)
(*   - a buffer is at least as long as requested and never longer than its *)
(*     slot; no slot is live twice; a released slot goes back to ITS class;*)
(*   - the implementation's counters (live, free, virgin) equal those      *)
(*     cardinalities, so live + free + virgin = count at all times;        *)
(*   - Contains(addr) <=> addr lies inside some class block.               *)
(* Which non-live slot is handed out (LIFO, FIFO, lowest index, virgin     *)
(* first ...) is the implementation's choice: the observed answer `r` is   *)
(* FED BACK and only judged.  The class table T (slot size, slot count,    *)
(* block extent per class) is READ FROM THE IMPLEMENTATION.                *)
(*                                                                         *)
(*   T : sequence of [size, count, beg, end]   (beg/end: byte offsets of   *)
(*        the class block relative to the arena base)                      *)
(*   a : [live, used : class -> set of slot indices,                       *)
(*        bufs : set of live buffers [id, cls, slot, beg, len]  (cls 0 =   *)
(*               fallback), fb : set of [beg, end] ever returned as        *)
(*               fallback memory]                                          *)
(*   o : request [op, id, sz]     op: "alloc" | "dealloc" | "palloc" (a    *)
(*        single class asked directly: exhaustion answers `none`)          *)
(*   r : answer [none, beg, len, aoff0, aoff1, ctr, probes, nseen, bad]    *)
(***************************************************************************)
EXTENDS Integers, Sequences, FiniteSets, TLC

MinOf(S) == CHOOSE x \in S : \A y \in S : x <= y
Range(s) == {s[i] : i \in DOMAIN s}
Overlap(b1, e1, b2, e2) == b1 < e1 /\ b2 < e2 /\ b1 < e2 /\ b2 < e1
FirstFail(checks) == LET bad == {i \in 1..Len(checks) : ~checks[i][1]}
                     IN IF bad = {} THEN "ok" ELSE checks[MinOf(bad)][2]

Classes(T) == DOMAIN T
\* the smallest class whose slot is >= sz; 0 if the request is larger than every slot
ClassOf(T, sz) ==
  LET fit == {c \in Classes(T) : T[c].size >= sz}
  IN IF fit = {} THEN 0 ELSE CHOOSE c \in fit : \A d \in fit : T[c].size <= T[d].size
\* the class whose block contains the byte at `off`; 0 if none
BlockOf(T, off) ==
  LET in == {c \in Classes(T) : T[c].beg <= off /\ off < T[c].end}
  IN IF in = {} THEN 0 ELSE CHOOSE c \in in : TRUE

TableOk(T) ==
  /\ \A c \in Classes(T) : T[c].size > 0 /\ T[c].count > 0 /\ T[c].end - T[c].beg = T[c].size * T[c].count
  /\ \A c, d \in Classes(T) : c # d => ~Overlap(T[c].beg, T[c].end, T[d].beg, T[d].end)

AbsInit(T) == [live |-> [c \in Classes(T) |-> {}], used |-> [c \in Classes(T) |-> {}], bufs |-> {}, fb |-> {}]
Buf(a, id) == CHOOSE b \in a.bufs : b.id = id
Known(a, id) == \E b \in a.bufs : b.id = id
Exhausted(T, a, c) == c = 0 \/ Cardinality(a.live[c]) = T[c].count

Pooled(T, a, c, sz, r) ==
  LET bc == BlockOf(T, r.beg)
      slot == (r.beg - T[c].beg) \div T[c].size
  IN FirstFail(<< <<bc # 0, "fallback-while-a-slot-is-available">>,
                  <<bc = c, "wrong-class">>,
                  <<(r.beg - T[c].beg) % T[c].size = 0, "not-on-a-slot-boundary">>,
                  <<slot \notin a.live[c], "slot-handed-out-twice">>,
                  <<r.len >= sz, "short-buffer">>,
                  <<r.len <= T[c].size, "buffer-exceeds-its-slot">> >>)

Fallback(T, a, sz, r) ==
  FirstFail(<< <<\A c \in Classes(T) : ~Overlap(r.beg, r.beg + r.len, T[c].beg, T[c].end) /\ BlockOf(T, r.beg) = 0, "fallback-inside-the-pool">>,
               <<r.len >= sz, "short-buffer">>,
               <<r.beg >= r.aoff0 /\ r.beg + r.len <= r.aoff1, "fallback-is-not-fresh-arena-memory">>,
               <<\A f \in a.fb : ~Overlap(r.beg, r.beg + r.len, f.beg, f.end), "fallback-memory-recycled">> >>)

Judge(T, a, o, r) ==
  CASE o.op = "alloc" ->
         (LET c == ClassOf(T, o.sz)
          IN IF r.none THEN "harness-no-answer"
             ELSE IF Exhausted(T, a, c) THEN Fallback(T, a, o.sz, r) ELSE Pooled(T, a, c, o.sz, r))
    [] o.op = "palloc" ->
         (LET c == ClassOf(T, o.sz)
          IN IF c = 0 THEN "harness-unknown-class"
             ELSE IF r.none THEN FirstFail(<< <<Exhausted(T, a, c), "none-while-a-slot-is-available">> >>)
             ELSE IF Exhausted(T, a, c) THEN "slot-handed-out-twice"
             ELSE Pooled(T, a, c, o.sz, r))
    [] o.op = "dealloc" -> IF Known(a, o.id) THEN "ok" ELSE "harness-unknown-buffer"
    [] o.op = "skip" -> "ok"
    [] OTHER -> "harness-unknown-op"

Apply(T, a, o, r) ==
  CASE o.op \in {"alloc", "palloc"} ->
         (IF r.none THEN a
          ELSE LET c == BlockOf(T, r.beg)
               IN IF c = 0
                  THEN [a EXCEPT !.bufs = @ \cup {[id |-> o.id, cls |-> 0, slot |-> 0, beg |-> r.beg, len |-> r.len]},
                                 !.fb = @ \cup {[beg |-> r.beg, end |-> r.beg + r.len]}]
                  ELSE LET slot == (r.beg - T[c].beg) \div T[c].size
                       IN [a EXCEPT !.live[c] = @ \cup {slot}, !.used[c] = @ \cup {slot},
                                    !.bufs = @ \cup {[id |-> o.id, cls |-> c, slot |-> slot, beg |-> r.beg, len |-> r.len]}])
    [] o.op = "dealloc" ->
         (IF ~Known(a, o.id) THEN a
          ELSE LET b == Buf(a, o.id)
               IN IF b.cls = 0 THEN [a EXCEPT !.bufs = @ \ {b}]                              \* a fallback buffer is never recycled
                  ELSE [a EXCEPT !.bufs = @ \ {b}, !.live[b.cls] = @ \ {b.slot}])            \* the slot is free again, in ITS class
    [] OTHER -> a

\* after every step: the implementation's counters are the abstract cardinalities (hence they
\* conserve), its ownership test is exact, every live buffer still carries its byte pattern
Post(T, a2, r) ==
  FirstFail(<< <<\A c \in Classes(T) : r.ctr[c][1] + r.ctr[c][2] + r.ctr[c][3] = T[c].count, "counters-do-not-conserve">>,
               <<\A c \in Classes(T) : r.ctr[c][1] = Cardinality(a2.live[c]), "live-count-wrong">>,
               <<\A c \in Classes(T) : r.ctr[c][2] = Cardinality(a2.used[c] \ a2.live[c]), "free-count-wrong">>,
               <<\A c \in Classes(T) : r.ctr[c][3] = T[c].count - Cardinality(a2.used[c]), "virgin-count-wrong">>,
               <<\A i \in DOMAIN r.probes : r.probes[i][2] = (BlockOf(T, r.probes[i][1]) # 0), "contains-wrong">>,
               <<r.nseen = Cardinality(a2.bufs), "harness-live-set-mismatch">>,
               <<r.bad = {}, "live-buffer-corrupted">> >>)

AbsInv(T, a) ==
  /\ \A c \in Classes(T) : a.live[c] \subseteq a.used[c] /\ a.used[c] \subseteq 0..(T[c].count - 1)
  /\ \A b \in a.bufs : IF b.cls = 0 THEN [beg |-> b.beg, end |-> b.beg + b.len] \in a.fb
                       ELSE /\ b.slot \in a.live[b.cls]
                            /\ b.beg = T[b.cls].beg + b.slot * T[b.cls].size /\ b.len <= T[b.cls].size
  /\ LET pooled == {b \in a.bufs : b.cls # 0}                  \* no slot is owned by two live buffers
     IN Cardinality({<<b.cls, b.slot>> : b \in pooled}) = Cardinality(pooled)
  /\ Cardinality({b.id : b \in a.bufs}) = Cardinality(a.bufs)
  /\ \A f \in a.fb : \A c \in Classes(T) : ~Overlap(f.beg, f.end, T[c].beg, T[c].end)
  /\ \A f1, f2 \in a.fb : f1 # f2 => ~Overlap(f1.beg, f1.end, f2.beg, f2.end)
=============================================================================
