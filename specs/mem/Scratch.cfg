SPECIFICATION Spec
CONSTANTS MaxRuns = 3
ConflictForFrame = "persistent"
INVARIANTS FrameIsNotPersistent HistoryIndependent NewestBorrowOnTop
CHECK_DEADLOCK FALSE
