\* refinement as the code is written today; the check passes AlignMode through ArenaOffset.cfg for the
\* design-level demonstration that aligning the OFFSET instead of the ADDRESS violates AddrAligned
SPECIFICATION Spec
CONSTANTS
  Chunk = 8
  Caps = {8, 16, 24}
  BaseAlign = 8
  Aligns = {1, 2, 8, 16}
  AlignMode = "address"
  Fill = 1
  Huge = 100000
VIEW View
INVARIANTS Shape BlocksInBounds AddrAligned Disjoint ContentsIntact MarksOK AbstractInv
PROPERTY RefinesAbstract
ACTION_CONSTRAINT Edge
CHECK_DEADLOCK FALSE
