------------------------------ MODULE ArenaAbs ------------------------------
(***************************************************************************)
(* C11 - bump arena, ABSTRACT LAYER.  Pure operators over an explicit      *)
(* abstract state record; no constants, no variables.  It states only what *)
(* the property states: a reservation [0, cap), a set of live blocks       *)
(* [id, beg, end, al, lvl], a stack of marks and the observable offset().  *)
(* It is nondeterministic in everything the implementation may choose      *)
(* (where a block goes, whether a grow moves, how much is committed, a red *)
(* zone between blocks, the commit granularity): the implementation's      *)
(* observed answer `r` is FED BACK and only judged.                        *)
(*                                                                         *)
(*   Judge(J, a, o, r)  "ok" or the name of the first violated clause      *)
(*   Apply(a, o, r)     the abstract successor state                       *)
(*   Post(J, a2, r)     what must hold of the live blocks after the step   *)
(*   AbsInv(J, a)       state invariant of the abstract layer              *)
(*                                                                         *)
(* Used by Arena.tla (every transition of the implementation-shaped        *)
(* refinement must be a step this layer allows) and by ArenaTrace.tla (the *)
(* verdict on histories recorded from the real arena).                     *)
(***************************************************************************)
EXTENDS Integers, Sequences, FiniteSets, TLC

Max(a, b) == IF a > b THEN a ELSE b
Min(a, b) == IF a < b THEN a ELSE b
MinOf(S) == CHOOSE x \in S : \A y \in S : x <= y
MaxOf(S) == CHOOSE x \in S : \A y \in S : x >= y
Range(s) == {s[i] : i \in DOMAIN s}
AlignUp(x, a) == ((x + (a - 1)) \div a) * a
\* least offset o >= x such that the ADDRESS base + o is a multiple of a (bm = base mod a multiple of a)
AlignAddr(bm, x, a) == AlignUp(bm + x, a) - bm
\* two byte ranges share a byte (an empty range shares nothing)
Overlap(b1, e1, b2, e2) == b1 < e1 /\ b2 < e2 /\ b1 < e2 /\ b2 < e1
\* checks: sequence of <<condition, name>>; "ok" or the name of the first failed condition
FirstFail(checks) == LET bad == {i \in 1..Len(checks) : ~checks[i][1]}
                     IN IF bad = {} THEN "ok" ELSE checks[MinOf(bad)][2]

(***************************************************************************)
(* ABSTRACT LAYER                                                          *)
(*   J : [cap, bm, slack]  reservation size, base address modulo a large   *)
(*        power of two, bytes per block the implementation may keep for    *)
(*        itself (red zone; measured by the harness, 0 today)              *)
(*   a : [off, blocks, marks]                                              *)
(*   o : request  [op, id, sz, al]                                         *)
(*   r : what the implementation answered [fail, beg, len, amod, off,      *)
(*        commit, zero, kept, seen, bad]  (seen / bad: SETS of block ids   *)
(*        whose pattern was re-read / found damaged after the step)        *)
(***************************************************************************)
AbsInit(off0) == [off |-> off0, blocks |-> {}, marks |-> <<>>]
Blk(a, id) == CHOOSE b \in a.blocks : b.id = id
Known(a, id) == \E b \in a.blocks : b.id = id
Lvl(a) == Len(a.marks)
\* a fresh aligned block of sz bytes fits above `off`
FreshFits(J, off, sz, al) == AlignAddr(J.bm, off + J.slack, al) + sz + J.slack <= J.cap
NoOverlap(S, beg, end) == \A b \in S : ~Overlap(beg, end, b.beg, b.end)

\* a returned block: long enough, inside the reservation and the committed (readable/writable)
\* prefix, ADDRESS aligned, and below the new offset() so that a later mark protects it
Placed(J, r, sz) ==
  << <<r.len >= sz, "short-block">>,
     <<r.beg >= 0 /\ r.beg + r.len <= J.cap, "out-of-reservation">>,
     <<r.beg + r.len <= r.commit, "not-committed">>,
     <<r.amod = 0, "misaligned">>,
     <<r.off >= r.beg + r.len /\ r.off <= J.cap, "offset-does-not-cover-block">> >>

Judge(J, a, o, r) ==
  CASE o.op \in {"alloc", "allocz"} ->
         (IF r.fail
          THEN FirstFail(<< <<r.off = a.off, "failed-request-changed-offset">>,
                            <<~FreshFits(J, a.off, o.sz, o.al), "spurious-failure">> >>)
          ELSE FirstFail(Placed(J, r, o.sz) \o
                         << <<r.beg >= a.off, "below-offset">>,
                            <<NoOverlap(a.blocks, r.beg, r.beg + r.len), "overlap">>,
                            <<o.op = "allocz" => r.zero, "not-zeroed">> >>))
    [] o.op \in {"grow", "shrink"} ->
         (IF ~Known(a, o.id) THEN "harness-unknown-block"
          ELSE LET b == Blk(a, o.id)
                   others == a.blocks \ {b}
               IN IF r.fail
                  THEN FirstFail(<< <<r.off = a.off, "failed-request-changed-offset">>,
                                    <<o.op = "grow" => ~FreshFits(J, a.off, o.sz, b.al), "spurious-failure">> >>)
                  ELSE FirstFail(Placed(J, r, o.sz) \o
                         << <<r.beg = b.beg \/ (r.beg >= a.off /\ ~Overlap(r.beg, r.beg + r.len, b.beg, b.end)), "moved-block-not-fresh">>,
                            <<NoOverlap(others, r.beg, r.beg + r.len), "overlap">>,
                            <<r.kept, "contents-lost">> >>))
    [] o.op \in {"mark", "borrow"} -> FirstFail(<< <<r.off = a.off, "mark-changed-offset">> >>)
    [] o.op \in {"reset", "release"} ->
         (IF a.marks = <<>> THEN "harness-no-mark"
          ELSE FirstFail(<< <<r.off = a.marks[Len(a.marks)].off, "reset-offset-is-not-the-mark">> >>))
    [] o.op = "decommit" -> FirstFail(<< <<r.off = a.off, "decommit-changed-offset">> >>)
    [] o.op = "skip" -> "ok"
    [] OTHER -> "harness-unknown-op"

Apply(a, o, r) ==
  CASE o.op \in {"alloc", "allocz"} ->
         (IF r.fail THEN a
          ELSE [a EXCEPT !.off = r.off,
                         !.blocks = @ \cup {[id |-> o.id, beg |-> r.beg, end |-> r.beg + r.len, al |-> o.al, lvl |-> Lvl(a)]}])
    [] o.op \in {"grow", "shrink"} ->
         (IF r.fail \/ ~Known(a, o.id) THEN a
          ELSE LET b == Blk(a, o.id)
                   lv == IF o.op = "shrink" /\ r.beg = b.beg THEN b.lvl ELSE Lvl(a)
               IN [a EXCEPT !.off = r.off,
                            !.blocks = (@ \ {b}) \cup {[b EXCEPT !.beg = r.beg, !.end = r.beg + r.len, !.lvl = lv]}])
    [] o.op \in {"mark", "borrow"} -> [a EXCEPT !.marks = Append(@, [off |-> r.off, kind |-> o.op])]
    [] o.op \in {"reset", "release"} ->
         (IF a.marks = <<>> THEN a
          ELSE LET n == Len(a.marks)
               IN [off |-> a.marks[n].off,
                   blocks |-> {b \in a.blocks : b.lvl < n},     \* exactly the blocks placed after the mark die
                   marks |-> SubSeq(a.marks, 1, n - 1)])
    [] OTHER -> a

\* after every step: every block the abstract layer considers live is still readable and carries
\* the pattern written into it; the recorded pattern checks cover exactly that set
Post(J, a2, r) ==
  FirstFail(<< <<r.seen = {b.id : b \in a2.blocks}, "harness-live-set-mismatch">>,
               <<r.bad = {}, "live-block-corrupted">>,
               <<\A b \in a2.blocks : b.beg < b.end => b.end <= r.commit, "live-block-not-committed">>,
               <<\A b1, b2 \in a2.blocks : b1.id # b2.id => ~Overlap(b1.beg, b1.end, b2.beg, b2.end), "live-blocks-overlap">> >>)

AbsInv(J, a) ==
  /\ a.off >= 0 /\ a.off <= J.cap
  /\ \A b \in a.blocks : /\ 0 <= b.beg /\ b.beg <= b.end /\ b.end <= J.cap
                         /\ (b.beg < b.end => b.end <= a.off)     \* an empty block owns no byte
                         /\ (J.bm + b.beg) % b.al = 0
                         /\ b.lvl <= Len(a.marks)
  /\ \A b1, b2 \in a.blocks : b1.id # b2.id => ~Overlap(b1.beg, b1.end, b2.beg, b2.end)
  /\ \A j \in 1..Len(a.marks) : a.marks[j].off <= a.off

=============================================================================
