------------------------------- MODULE Arena -------------------------------
(***************************************************************************)
(* C11 - bump arena.  Two layers.                                          *)
(*                                                                         *)
(* ABSTRACT LAYER: module ArenaAbs (extended here): operators Judge /      *)
(* Apply / Post / AbsInv over an explicit abstract state record.  It is    *)
(* the verdict for recorded traces of the real arena (ArenaTrace.tla) and  *)
(* the specification the refinement below is checked against.              *)
(*                                                                         *)
(* REFINEMENT (variables, Init / Next): mirrors src/arena/bump.rs -        *)
(* offset <= commit <= cap, commit a multiple of the chunk, aligned bump,  *)
(* lazy chunked commit, tail-only in-place grow / shrink, debug fill,      *)
(* scratch borrow = mark, release = reset + decommit; `bm` is the base     *)
(* address modulo the largest alignment (alignment is a property of the    *)
(* ADDRESS).  TLC checks the invariants on it, checks every transition     *)
(* against the abstract layer ([][Refines]_vars) and emits one operation   *)
(* history per transition of the reachable graph (ACTION_CONSTRAINT Edge;  *)
(* `hist` is hidden behind the VIEW, so a history is a shortest path to    *)
(* the pre-state plus the transition).                                     *)
(*                                                                         *)
(* Numbers are in model units; the harness scales them (1 unit = chunk/8   *)
(* bytes so that the model chunk is the real chunk, and two finer scales). *)
(***************************************************************************)
EXTENDS ArenaAbs, Json, IOUtils

(***************************************************************************)
(* REFINEMENT (mirrors src/arena/bump.rs, scratch.rs)                      *)
(***************************************************************************)
CONSTANTS Chunk,       \* commit granularity
          Caps,        \* reservation sizes explored (multiples of Chunk)
          BaseAlign,   \* what the OS guarantees for the base address
          Aligns,      \* requested alignments (powers of two), at least one above BaseAlign
          AlignMode,   \* "address": the bump aligns base+offset; "offset": it aligns the offset only
          Fill,        \* debug builds poison [offset, end + Fill) on alloc and [to, offset + Fill) on reset
          Huge         \* a size larger than every capacity

MaxOps == atoi(IOEnv.MAXOPS)
MaxBlocks == atoi(IOEnv.MAXBLOCKS)
MaxMarks == atoi(IOEnv.MAXMARKS)
Profile == IOEnv.PROFILE

VARIABLES cap, bm, offset, commit, blocks, marks, hist
vars == <<cap, bm, offset, commit, blocks, marks, hist>>
\* `hist` (and the block ids, which are step numbers) are observation only
View == <<cap, bm, offset, commit, [i \in DOMAIN blocks |-> [blocks[i] EXCEPT !.id = 0]], marks, Len(hist)>>

MaxAlign == MaxOf(Aligns)
Sizes == IF Profile = "small" THEN {0, 1, 8, 9}
         ELSE IF Profile = "mid" THEN {0, 1, 7, 8, 9, 17}
         ELSE {0, 1, 7, 8, 9, 16, 17}
AllocSizes == Sizes \cup {cap - 1, cap, cap + 1, Huge}
ZeroSizes == {1, 9}
GrowSizes == Sizes \cup {cap, cap + 1}

JM == [cap |-> cap, bm |-> bm, slack |-> 0]
AbsOf == [off |-> offset,
          blocks |-> {[id |-> blocks[i].id, beg |-> blocks[i].beg, end |-> blocks[i].end, al |-> blocks[i].al, lvl |-> blocks[i].lvl] : i \in DOMAIN blocks},
          marks |-> marks]

Init == /\ cap \in Caps
        /\ bm \in {x \in 0..(MaxAlign - 1) : x % BaseAlign = 0}
        /\ offset = 0 /\ commit = 0 /\ blocks = <<>> /\ marks = <<>> /\ hist = <<>>

Place(off, al) == IF AlignMode = "address" THEN AlignAddr(bm, off, al) ELSE AlignUp(off, al)

\* alloc_raw / alloc_raw_bump: result and the byte range the call itself writes (debug fill)
Raw(off, com, sz, al) ==
  LET beg == Place(off, al)
      end == beg + sz
      none == [fail |-> TRUE, beg |-> 0, end |-> 0, off |-> off, commit |-> com, wbeg |-> 0, wend |-> 0]
  IN IF end <= com
     THEN [fail |-> FALSE, beg |-> beg, end |-> end, off |-> end, commit |-> com, wbeg |-> off, wend |-> Min(end + Fill, com)]
     ELSE LET cn == AlignUp(end, Chunk)
          IN IF cn > cap THEN none
             ELSE [fail |-> FALSE, beg |-> beg, end |-> end, off |-> end, commit |-> cn, wbeg |-> off, wend |-> Min(end + Fill, com)]

\* writing [wb, we) destroys the contents of every block it touches
Written(bs, wb, we) == [i \in DOMAIN bs |-> IF Overlap(wb, we, bs[i].beg, bs[i].end) THEN [bs[i] EXCEPT !.ok = FALSE] ELSE bs[i]]
Ids(bs) == {bs[i].id : i \in DOMAIN bs}
BadIds(bs) == {bs[i].id : i \in {j \in DOMAIN bs : ~bs[j].ok}}
Obs(fail, beg, len, al, kept, bs, off2, com2) ==
  [fail |-> fail, beg |-> beg, len |-> len, amod |-> IF fail THEN 0 ELSE (bm + beg) % al, off |-> off2, commit |-> com2,
   zero |-> TRUE, kept |-> kept, seen |-> Ids(bs), bad |-> BadIds(bs)]
Log(o, r) == hist' = Append(hist, [o |-> o, r |-> r])
Step == Len(hist) < MaxOps
Req(op, id, sz, al) == [op |-> op, id |-> id, sz |-> sz, al |-> al]

Alloc(op, sz, al) ==
  /\ Step /\ Len(blocks) < MaxBlocks
  /\ LET x == Raw(offset, commit, sz, al)
         id == Len(hist) + 1
     IN IF x.fail
        THEN /\ UNCHANGED <<offset, commit, blocks>>
             /\ Log(Req(op, id, sz, al), Obs(TRUE, 0, 0, al, TRUE, blocks, offset, commit))
        ELSE LET bs == Append(Written(Written(blocks, x.wbeg, x.wend), x.beg, x.end),
                              [id |-> id, beg |-> x.beg, end |-> x.end, al |-> al, lvl |-> Len(marks), ok |-> TRUE])
             IN /\ offset' = x.off /\ commit' = x.commit /\ blocks' = bs
                /\ Log(Req(op, id, sz, al), Obs(FALSE, x.beg, sz, al, TRUE, bs, x.off, x.commit))
  /\ UNCHANGED <<cap, bm, marks>>

Grow(i, nsz) ==
  /\ Step /\ i \in DOMAIN blocks /\ nsz > blocks[i].end - blocks[i].beg
  /\ LET b == blocks[i]
         old == b.end - b.beg
         tail == b.end = offset
         x == IF tail THEN Raw(offset, commit, nsz - old, 1) ELSE Raw(offset, commit, nsz, b.al)
     IN IF x.fail
        THEN /\ UNCHANGED <<offset, commit, blocks>>
             /\ Log(Req("grow", b.id, nsz, b.al), Obs(TRUE, 0, 0, b.al, TRUE, blocks, offset, commit))
        ELSE LET nb == IF tail THEN b.beg ELSE x.beg
                 w1 == Written(blocks, x.wbeg, x.wend)                  \* debug fill of the new range
                 kept == w1[i].ok                                       \* the source is read after the fill
                 w2 == [w1 EXCEPT ![i] = [b EXCEPT !.beg = nb, !.end = x.end, !.lvl = Len(marks), !.ok = TRUE]]
                 bs == [j \in DOMAIN w2 |-> IF j # i /\ Overlap(nb, x.end, w2[j].beg, w2[j].end) THEN [w2[j] EXCEPT !.ok = FALSE] ELSE w2[j]]
             IN /\ offset' = x.off /\ commit' = x.commit /\ blocks' = bs
                /\ Log(Req("grow", b.id, nsz, b.al), Obs(FALSE, nb, nsz, b.al, kept, bs, x.off, x.commit))
  /\ UNCHANGED <<cap, bm, marks>>

\* only the tail block, and only a block placed after the newest mark (shrinking below a mark
\* would move offset() under it: outside the arena's contract)
Shrink(i, nsz) ==
  /\ Step /\ i \in DOMAIN blocks
  /\ LET b == blocks[i]
     IN /\ b.end = offset /\ b.lvl = Len(marks) /\ nsz < b.end - b.beg
        /\ (marks # <<>> => b.beg >= marks[Len(marks)].off)
        /\ LET bs == [blocks EXCEPT ![i].end = b.beg + nsz]
           IN /\ offset' = b.beg + nsz /\ blocks' = bs
              /\ Log(Req("shrink", b.id, nsz, b.al), Obs(FALSE, b.beg, nsz, b.al, TRUE, bs, b.beg + nsz, commit))
  /\ UNCHANGED <<cap, bm, commit, marks>>

Mark(kind) ==
  /\ Step /\ Len(marks) < MaxMarks
  /\ marks' = Append(marks, [off |-> offset, kind |-> kind])
  /\ Log(Req(kind, 0, 0, 1), Obs(FALSE, 0, 0, 1, TRUE, blocks, offset, commit))
  /\ UNCHANGED <<cap, bm, offset, commit, blocks>>

Decommitted(off, com) == LET keep == AlignUp(off, Chunk) IN IF keep < com THEN keep ELSE com

\* reset(mark) (kind "mark") or ScratchArena::drop = reset + decommit (kind "borrow")
Reset(kind) ==
  /\ Step /\ marks # <<>> /\ marks[Len(marks)].kind = kind
  /\ LET n == Len(marks)
         m == marks[n].off
         surv == SelectSeq(blocks, LAMBDA b : b.lvl < n)
         bs == IF offset > m THEN Written(surv, m, Min(offset + Fill, commit)) ELSE surv
         com == IF kind = "borrow" THEN Decommitted(m, commit) ELSE commit
     IN /\ offset' = m /\ commit' = com /\ blocks' = bs /\ marks' = SubSeq(marks, 1, n - 1)
        /\ Log(Req(IF kind = "borrow" THEN "release" ELSE "reset", 0, 0, 1), Obs(FALSE, 0, 0, 1, TRUE, bs, m, com))
  /\ UNCHANGED <<cap, bm>>

Decommit ==
  /\ Step
  /\ commit' = Decommitted(offset, commit)
  /\ Log(Req("decommit", 0, 0, 1), Obs(FALSE, 0, 0, 1, TRUE, blocks, offset, commit'))
  /\ UNCHANGED <<cap, bm, offset, blocks, marks>>

Next == \/ \E sz \in AllocSizes, al \in Aligns : Alloc("alloc", sz, al)
        \/ \E sz \in ZeroSizes, al \in Aligns : Alloc("allocz", sz, al)
        \/ \E i \in 1..MaxBlocks, sz \in GrowSizes : Grow(i, sz)
        \/ \E i \in 1..MaxBlocks, sz \in Sizes : Shrink(i, sz)
        \/ Mark("mark") \/ Mark("borrow") \/ Reset("mark") \/ Reset("borrow") \/ Decommit
Spec == Init /\ [][Next]_vars

(* invariants of the refinement *)
Shape == /\ 0 <= offset /\ offset <= commit /\ commit <= cap /\ commit % Chunk = 0
BlocksInBounds == \A i \in DOMAIN blocks : /\ 0 <= blocks[i].beg /\ blocks[i].beg <= blocks[i].end /\ blocks[i].end <= cap
                                            /\ (blocks[i].beg < blocks[i].end => blocks[i].end <= offset /\ blocks[i].end <= commit)
AddrAligned == \A i \in DOMAIN blocks : (bm + blocks[i].beg) % blocks[i].al = 0
Disjoint == \A i, j \in DOMAIN blocks : i < j => ~Overlap(blocks[i].beg, blocks[i].end, blocks[j].beg, blocks[j].end)
ContentsIntact == \A i \in DOMAIN blocks : blocks[i].ok
MarksOK == /\ \A j \in DOMAIN marks : marks[j].off <= offset
           /\ \A j \in 1..(Len(marks) - 1) : marks[j].off <= marks[j + 1].off
           /\ \A i \in DOMAIN blocks : blocks[i].lvl <= Len(marks)
AbstractInv == AbsInv(JM, AbsOf)

(* every transition of the refinement is a step the abstract layer allows *)
Refines == LET e == hist'[Len(hist')]
               a2 == Apply(AbsOf, e.o, e.r)
           IN /\ Judge(JM, AbsOf, e.o, e.r) = "ok"
              /\ a2 = AbsOf'
              /\ Post(JM, a2, e.r) = "ok"
RefinesAbstract == [][Refines]_vars

(* one JSON record per transition: the operation history that ends with it (requests, plus the
   refinement's own prediction as information) *)
Short(e) == [o |-> e.o.op, i |-> e.o.id, s |-> e.o.sz, a |-> e.o.al,
             pf |-> e.r.fail, pb |-> e.r.beg, px |-> e.r.off, pc |-> e.r.commit]
Edge == PrintT(ToJson([cap |-> cap', bm |-> bm', ops |-> [k \in DOMAIN hist' |-> Short(hist'[k])]]))
=============================================================================
