---------------------------- MODULE ScratchTrace ----------------------------
(***************************************************************************)
(* Trace validation of the scratch arenas: event sequences recorded from   *)
(* the real pipeline (hooks in src/arena/scratch.rs) are accepted iff the  *)
(* abstract protocol explains them.  Allocation between events is not      *)
(* logged: TLC infers it (offsets may only grow between a borrow and the   *)
(* matching drop).                                                         *)
(*   IOEnv.TRACES  ndjson: {"events":[..]} - one process history each      *)
(*                 (several runs back to back, each starting with init)    *)
(***************************************************************************)
EXTENDS Integers, Sequences, FiniteSets, TLC, Json, IOUtils
Traces == ndJsonDeserialize(IOEnv.TRACES)
VARIABLES i, l, off, borrows, verdict, why
vars == <<i, l, off, borrows, verdict, why>>
Init == i \in 1..Len(Traces) /\ l = 1 /\ off = [a \in {0, 1} |-> 0] /\ borrows = <<>> /\ verdict = "running" /\ why = ""
Reject(r) == verdict' = "reject" /\ why' = r /\ UNCHANGED <<i, l, off, borrows>>
NewestOn(a) == LET I == {j \in 1..Len(borrows) : borrows[j].arena = a} IN IF I = {} THEN 0 ELSE CHOOSE j \in I : \A q \in I : q <= j
Next ==
  /\ verdict = "running"
  /\ LET evs == Traces[i].events IN
     IF l > Len(evs) THEN
        \* end of the process history: every borrow returned, both arenas back at the state after init
        IF borrows = <<>> /\ off = [a \in {0, 1} |-> 0] THEN verdict' = "accept" /\ UNCHANGED <<i, l, off, borrows, why>>
        ELSE Reject("state after the last run differs from the state after init")
     ELSE LET e == evs[l] IN
       CASE e.ev = "scratch_init" ->
              \* init may only happen between runs and leaves both arenas empty
              IF borrows # <<>> THEN Reject("init while an arena is borrowed")
              ELSE IF e.off # <<0, 0>> THEN Reject("init does not reset both arenas")
              ELSE off' = [a \in {0, 1} |-> 0] /\ l' = l + 1 /\ UNCHANGED <<i, borrows, verdict, why>>
         [] e.ev = "scratch_borrow" ->
              IF e.arena \notin {0, 1} THEN Reject("unknown arena")
              ELSE IF e.conflict = e.arena THEN Reject("borrowed the conflict arena")
              ELSE IF e.offset < off[e.arena] THEN Reject("offset went down without a drop")
              ELSE /\ off' = [off EXCEPT ![e.arena] = e.offset]          \* unlogged allocation since the last event
                   /\ borrows' = Append(borrows, [arena |-> e.arena, saved |-> e.offset])
                   /\ l' = l + 1 /\ UNCHANGED <<i, verdict, why>>
         [] e.ev = "scratch_drop" ->
              LET j == NewestOn(e.arena) IN
              IF j = 0 THEN Reject("drop without a borrow")
              ELSE IF e.to # borrows[j].saved THEN Reject("drop does not reset to the offset saved by the newest borrow of that arena")
              ELSE IF e.from < off[e.arena] THEN Reject("offset went down without a drop")
              ELSE /\ off' = [off EXCEPT ![e.arena] = e.to]
                   /\ borrows' = [q \in 1..(Len(borrows) - 1) |-> IF q < j THEN borrows[q] ELSE borrows[q + 1]]
                   /\ l' = l + 1 /\ UNCHANGED <<i, verdict, why>>
         [] OTHER -> Reject("unknown event")
Spec == Init /\ [][Next]_vars
Emit == verdict # "running" => PrintT(ToJson([tag |-> "VERDICT", i |-> i, verdict |-> verdict, l |-> l, why |-> why]))
=============================================================================
