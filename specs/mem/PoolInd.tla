------------------------------ MODULE PoolInd ------------------------------
(***************************************************************************)
(* C12 bonus (not the verdict): one size class of the refinement (bump      *)
(* boundary + free SET; the order of the free list is irrelevant to the     *)
(* invariants) with the slot count N symbolic in 1..MaxN, for Apalache.     *)
(* IndInv is inductive:  IndInit => IndInv,  IndInv /\ Next => IndInv',     *)
(* and IndInv => Conservation /\ Exclusive - for EVERY state satisfying     *)
(* IndInv, not only the reachable ones.                                     *)
(***************************************************************************)
EXTENDS Integers, FiniteSets
CONSTANT
  \* @type: Int;
  N
VARIABLES
  \* @type: Set(Int);
  live,
  \* @type: Set(Int);
  free,
  \* @type: Int;
  bump,
  \* @type: Int;
  fallbacks
MaxN == 6
ConstInit == N \in 1..MaxN
Init == live = {} /\ free = {} /\ bump = 0 /\ fallbacks = 0
AllocFree == \E s \in free : live' = live \cup {s} /\ free' = free \ {s} /\ UNCHANGED <<bump, fallbacks>>
AllocVirgin == free = {} /\ bump < N /\ live' = live \cup {bump + 1} /\ bump' = bump + 1 /\ UNCHANGED <<free, fallbacks>>
AllocFallback == free = {} /\ bump >= N /\ fallbacks' = fallbacks + 1 /\ UNCHANGED <<live, free, bump>>
Dealloc == \E s \in live : live' = live \ {s} /\ free' = free \cup {s} /\ UNCHANGED <<bump, fallbacks>>
Next == AllocFree \/ AllocVirgin \/ AllocFallback \/ Dealloc
TypeOK == live \subseteq 1..MaxN /\ free \subseteq 1..MaxN /\ bump >= 0 /\ bump <= N /\ fallbacks >= 0
Conservation == Cardinality(live) + Cardinality(free) + (N - bump) = N
Exclusive == live \cap free = {}
IndInv == TypeOK /\ Exclusive /\ (live \cup free) = {s \in 1..MaxN : s <= bump}
IndInit == live \in SUBSET (1..MaxN) /\ free \in SUBSET (1..MaxN) /\ bump \in 0..MaxN /\ fallbacks \in 0..3 /\ IndInv
Safety == Conservation /\ Exclusive
=============================================================================
