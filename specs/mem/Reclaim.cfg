SPECIFICATION Spec
CONSTANTS NSlots = 3
NFrame = 8
MaxOps = 4
Fixes = {"copy_on_read", "promote_first"}
INVARIANT NoStale
CHECK_DEADLOCK FALSE
