-------------------------------- MODULE Pool --------------------------------
(***************************************************************************)
(* C12 - string pool, implementation-shaped REFINEMENT of PoolAbs (mirrors *)
(* src/arena/pool.rs): per class a `bump` boundary (slots below it have    *)
(* been handed out at least once) and a LIFO `free` sequence; Alloc pops   *)
(* the free list, else takes the next virgin slot, else falls back to      *)
(* fresh arena memory; Dealloc pushes; releasing a fallback buffer is a    *)
(* no-op.  TLC checks the invariants (no slot both live and free, no       *)
(* duplicate in free, live + free + virgin = count, everything handed out  *)
(* lies below bump, the abstract invariant), checks every transition       *)
(* against the abstract layer ([][Refines]_vars) and emits one operation   *)
(* history per transition of the reachable graph (ACTION_CONSTRAINT Edge;  *)
(* `hist`, `owner`, `fbid` are hidden behind the VIEW).                    *)
(* Requests are symbolic: class k and "lo" (one byte more than the next    *)
(* smaller slot, 0 for the first class) or "hi" (exactly the slot size),   *)
(* or "big" (one byte more than the largest slot); the driver turns them   *)
(* into byte sizes with the class table read from the implementation.      *)
(***************************************************************************)
EXTENDS PoolAbs, Json, IOUtils

K == atoi(IOEnv.CLASSES)           \* number of classes
N == atoi(IOEnv.SLOTS)             \* slots of the first class (the others get N or N+1 alternately)
MaxOps == atoi(IOEnv.MAXOPS)
MaxFb == atoi(IOEnv.MAXFB)         \* fallback allocations per history
Mut == IOEnv.MUT                   \* "none"; "keepfree": a design error (the popped slot stays in the free list)

SizeOf(c) == 8 * c                                  \* model slot sizes 8, 16, 24
CountOf(c) == IF c % 2 = 1 THEN N ELSE N + 1
Gap == 4                                            \* the free-list array sits between two blocks
RECURSIVE BegOf(_)
BegOf(c) == IF c = 1 THEN 0 ELSE BegOf(c - 1) + SizeOf(c - 1) * CountOf(c - 1) + Gap
TM == [c \in 1..K |-> [size |-> SizeOf(c), count |-> CountOf(c), beg |-> BegOf(c), end |-> BegOf(c) + SizeOf(c) * CountOf(c)]]
FbBase == TM[K].end + Gap
Big == SizeOf(K) + 1
ReqSize(c, k) == IF k = "hi" THEN SizeOf(c) ELSE IF c = 1 THEN 0 ELSE SizeOf(c - 1) + 1

VARIABLES bump, free, live, fbtop, fblive, owner, fbid, hist
vars == <<bump, free, live, fbtop, fblive, owner, fbid, hist>>
\* fblive: number of live fallback buffers; fbid: their ids; owner: (class, slot) -> buffer id
View == <<bump, free, live, fbtop, fblive, Len(hist)>>

Init == /\ bump = [c \in 1..K |-> 0] /\ free = [c \in 1..K |-> <<>>] /\ live = [c \in 1..K |-> {}]
        /\ fbtop = 0 /\ fblive = 0 /\ owner = <<>> /\ fbid = {} /\ hist = <<>>

\* the abstract state this refinement state stands for (owner / fbid give the buffers their ids)
FbOf(id) == LET e == hist[id] IN [beg |-> e.r.beg, end |-> e.r.beg + e.r.len]
AbsOf == [live |-> live,
          used |-> [c \in 1..K |-> 0..(bump[c] - 1)],
          bufs |-> {[id |-> owner[p], cls |-> p[1], slot |-> p[2], beg |-> TM[p[1]].beg + p[2] * SizeOf(p[1]), len |-> SizeOf(p[1])] : p \in DOMAIN owner}
                   \cup {[id |-> i, cls |-> 0, slot |-> 0, beg |-> FbOf(i).beg, len |-> FbOf(i).end - FbOf(i).beg] : i \in fbid},
          fb |-> {FbOf(i) : i \in {j \in DOMAIN hist : hist[j].o.op = "alloc" /\ BlockOf(TM, hist[j].r.beg) = 0}}]

Ctr(b, f, l) == [c \in 1..K |-> <<Cardinality(l[c]), Len(f[c]), CountOf(c) - b[c]>>]
\* what the model answers: the probes cover both ends of every class block
Probes == [i \in 1..(4 * K) |-> LET c == ((i - 1) \div 4) + 1  j == (i - 1) % 4
                                    off == IF j = 0 THEN TM[c].beg - 1 ELSE IF j = 1 THEN TM[c].beg ELSE IF j = 2 THEN TM[c].end - 1 ELSE TM[c].end
                                IN <<off, j \in {1, 2}>>]
Obs(beg, len, a0, a1, b, f, l, nlive) ==
  [none |-> FALSE, beg |-> beg, len |-> len, aoff0 |-> a0, aoff1 |-> a1, ctr |-> Ctr(b, f, l), probes |-> Probes, nseen |-> nlive, bad |-> {}]
NLive(l, nf) == Cardinality(UNION {{<<c, s>> : s \in l[c]} : c \in 1..K}) + nf
Log(o, r) == hist' = Append(hist, [o |-> o, r |-> r])
Step == Len(hist) < MaxOps

Without(f, p) == [q \in (DOMAIN f) \ {p} |-> f[q]]
With(f, p, x) == [q \in (DOMAIN f) \cup {p} |-> IF q = p THEN x ELSE f[q]]

\* PoolSet::alloc -> Pool::alloc, else the arena
Alloc(c, kind) ==
  /\ Step
  /\ LET id == Len(hist) + 1
         sz == IF c = 0 THEN Big ELSE ReqSize(c, kind)
         req == [op |-> "alloc", id |-> id, sz |-> sz, c |-> c, k |-> kind]
         a0 == FbBase + fbtop
     IN IF c # 0 /\ free[c] # <<>>
        THEN LET s == free[c][Len(free[c])]                                   \* LIFO pop
                 f2 == IF Mut = "keepfree" THEN free ELSE [free EXCEPT ![c] = SubSeq(@, 1, Len(@) - 1)]
                 l2 == [live EXCEPT ![c] = @ \cup {s}]
             IN /\ free' = f2 /\ live' = l2 /\ owner' = With(owner, <<c, s>>, id)
                /\ UNCHANGED <<bump, fbtop, fblive, fbid>>
                /\ Log(req, Obs(TM[c].beg + s * SizeOf(c), SizeOf(c), a0, a0, bump, f2, l2, NLive(l2, fblive)))
        ELSE IF c # 0 /\ bump[c] < CountOf(c)
        THEN LET s == bump[c]                                                 \* next virgin slot
                 b2 == [bump EXCEPT ![c] = @ + 1]
                 l2 == [live EXCEPT ![c] = @ \cup {s}]
             IN /\ bump' = b2 /\ live' = l2 /\ owner' = With(owner, <<c, s>>, id)
                /\ UNCHANGED <<free, fbtop, fblive, fbid>>
                /\ Log(req, Obs(TM[c].beg + s * SizeOf(c), SizeOf(c), a0, a0, b2, free, l2, NLive(l2, fblive)))
        ELSE /\ fbtop < MaxFb * Big /\ Cardinality(fbid) < MaxFb /\ fblive < MaxFb   \* arena fallback
             /\ fbtop' = fbtop + sz /\ fblive' = fblive + 1 /\ fbid' = fbid \cup {id}
             /\ UNCHANGED <<bump, free, live, owner>>
             /\ Log(req, Obs(a0, sz, a0, a0 + sz, bump, free, live, NLive(live, fblive + 1)))

\* PoolSet::dealloc of a pooled buffer
Dealloc(c, s) ==
  /\ Step /\ c \in 1..K /\ s \in live[c]
  /\ LET f2 == [free EXCEPT ![c] = Append(@, s)]
         l2 == [live EXCEPT ![c] = @ \ {s}]
         a0 == FbBase + fbtop
     IN /\ free' = f2 /\ live' = l2 /\ owner' = Without(owner, <<c, s>>)
        /\ UNCHANGED <<bump, fbtop, fblive, fbid>>
        /\ Log([op |-> "dealloc", id |-> owner[<<c, s>>], sz |-> 0, c |-> c, k |-> ""],
               Obs(0, 0, a0, a0, bump, f2, l2, NLive(l2, fblive)))

\* PoolSet::dealloc of a fallback buffer: nothing happens, the memory is never recycled
DeallocFb ==
  /\ Step /\ fbid # {}
  /\ LET id == MinOf(fbid)
         a0 == FbBase + fbtop
     IN /\ fbid' = fbid \ {id} /\ fblive' = fblive - 1
        /\ UNCHANGED <<bump, free, live, fbtop, owner>>
        /\ Log([op |-> "dealloc", id |-> id, sz |-> 0, c |-> 0, k |-> ""], Obs(0, 0, a0, a0, bump, free, live, NLive(live, fblive - 1)))

Next == \/ \E c \in 1..K, kind \in {"lo", "hi"} : Alloc(c, kind)
        \/ Alloc(0, "big")
        \/ \E c \in 1..K, s \in 0..N : Dealloc(c, s)
        \/ DeallocFb
Spec == Init /\ [][Next]_vars

(* invariants of the refinement *)
Exclusive == \A c \in 1..K : live[c] \cap Range(free[c]) = {}
NoDuplicateFree == \A c \in 1..K : Cardinality(Range(free[c])) = Len(free[c])
Conservation == \A c \in 1..K : Cardinality(live[c]) + Len(free[c]) + (CountOf(c) - bump[c]) = CountOf(c)
BelowBump == \A c \in 1..K : bump[c] <= CountOf(c) /\ live[c] \cup Range(free[c]) = 0..(bump[c] - 1)
OwnerOk == DOMAIN owner = UNION {{<<c, s>> : s \in live[c]} : c \in 1..K} /\ fblive = Cardinality(fbid)
TableIsOk == TableOk(TM)
AbstractInv == AbsInv(TM, AbsOf)

(* every transition of the refinement is a step the abstract layer allows *)
Refines == LET e == hist'[Len(hist')]
               a2 == Apply(TM, AbsOf, e.o, e.r)
           IN /\ Judge(TM, AbsOf, e.o, e.r) = "ok"
              /\ a2 = AbsOf'
              /\ Post(TM, a2, e.r) = "ok"
RefinesAbstract == [][Refines]_vars

Short(e) == [o |-> e.o.op, i |-> e.o.id, c |-> e.o.c, k |-> e.o.k, pb |-> e.r.beg]
Edge == PrintT(ToJson([ops |-> [j \in DOMAIN hist' |-> Short(hist'[j])]]))
=============================================================================
