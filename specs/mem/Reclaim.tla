------------------------------ MODULE Reclaim ------------------------------
(***************************************************************************)
(* C02, on the design: the runtime's ownership protocol for strings.       *)
(* Physical memory  mem : Loc -> ContentId | POISON  over pool slots       *)
(* ("p"), frame cells ("f") and stable locations (source literals "s",     *)
(* persistent arena "a").  A REFERENCE is [k, own, loc, c] where c is the  *)
(* logical string it must denote.  One action per critical section of the  *)
(* runtime: variable read (Clone = clone_into), fresh temporary on the     *)
(* frame, Store (= overwrite_slot: release the old slot and promote the    *)
(* new value - their ORDER is the constant "promote_first"), parameter     *)
(* binding, scope exit (Release), frame reset (cells above the mark are    *)
(* poisoned, as the debug build does), Relocate (relocate_return_value),   *)
(* Shout (promote into the output), pool Alloc (LIFO free list, virgin     *)
(* bump, arena fallback).                                                  *)
(* NoStale: every reference reachable from the environment or the output   *)
(* still denotes its logical content, and every physical copy read a       *)
(* correct source (h.bad).  TLC explores ALL sequences of abstract         *)
(* statements up to MaxOps over two variables.                             *)
(* Fixes = {"copy_on_read", "promote_first"} is the discipline of the      *)
(* current code (after the C02 repair); Fixes = {} is the discipline the   *)
(* repository had: TLC refutes it in a handful of states - the model tells *)
(* the two apart, and reviews any further change of the protocol.          *)
(***************************************************************************)
EXTENDS Integers, Sequences, TLC, FiniteSets
CONSTANTS NSlots, NFrame, MaxOps, Fixes
Vars == {"x", "y"}
POISON == -1
NONE == [k |-> "none"]
Locs == ({"p"} \X (1..NSlots)) \cup ({"f"} \X (1..NFrame))
IsPool(l) == l[1] = "p"
IsFrame(l) == l[1] = "f"
Stable(l) == l[1] \in {"s", "a"}     \* source literal / persistent arena: never recycled

VARIABLES h, env, out, nextC, nops, trace
vars == <<h, env, out, nextC, nops, trace>>

H0 == [mem |-> [l \in Locs |-> POISON], free |-> <<>>, bump |-> 1, top |-> 0, bad |-> FALSE]
Phys(hh, r) == IF Stable(r.loc) THEN r.c ELSE hh.mem[r.loc]
Correct(hh, r) == r.k = "none" \/ ((IF IsFrame(r.loc) THEN r.loc[2] <= hh.top ELSE TRUE) /\ Phys(hh, r) = r.c)

Alloc(hh) == IF hh.free # <<>> THEN [h |-> [hh EXCEPT !.free = Tail(hh.free)], loc |-> <<"p", Head(hh.free)>>]
             ELSE IF hh.bump <= NSlots THEN [h |-> [hh EXCEPT !.bump = hh.bump + 1], loc |-> <<"p", hh.bump>>]
             ELSE [h |-> hh, loc |-> <<"a", 0>>]
Release(hh, r) == IF r.k = "str" /\ r.own /\ IsPool(r.loc)
                  THEN [hh EXCEPT !.mem[r.loc] = POISON, !.free = <<r.loc[2]>> \o hh.free] ELSE hh
NeedsCopy(v) == v.k = "str" /\ ((~v.own /\ (IsFrame(v.loc) \/ IsPool(v.loc))) \/ (v.own /\ IsFrame(v.loc)))
Promote(hh, v) == IF ~NeedsCopy(v) THEN [h |-> hh, r |-> v]
                  ELSE LET a == Alloc(hh)
                           src == Phys(hh, v)
                           h1 == IF IsPool(a.loc) THEN [a.h EXCEPT !.mem[a.loc] = src] ELSE a.h
                       IN [h |-> [h1 EXCEPT !.bad = (h1.bad \/ src # v.c)], r |-> [k |-> "str", own |-> TRUE, loc |-> a.loc, c |-> v.c]]
Store(hh, old, v) == IF "promote_first" \in Fixes
                     THEN LET p == Promote(hh, v) IN [h |-> Release(p.h, old), r |-> p.r]
                     ELSE Promote(Release(hh, old), v)
\* variable read: clone_into. Code: Owned -> Borrowed alias. Fix "copy_on_read": Owned pool/frame string is copied to a fresh frame cell.
Fresh(hh, c) == LET cell == <<"f", hh.top + 1>> IN [h |-> [hh EXCEPT !.top = hh.top + 1, !.mem[cell] = c], v |-> [k |-> "str", own |-> TRUE, loc |-> cell, c |-> c]]
Clone(hh, r) == IF r.k # "str" THEN [h |-> hh, v |-> r]
                ELSE IF "copy_on_read" \in Fixes /\ ~Stable(r.loc)
                     THEN LET f == Fresh(hh, Phys(hh, r)) IN [h |-> [f.h EXCEPT !.bad = (f.h.bad \/ Phys(hh, r) # r.c)], v |-> [f.v EXCEPT !.c = r.c]]
                     ELSE [h |-> hh, v |-> [r EXCEPT !.own = FALSE]]
Use(hh, v) == IF v.k # "str" THEN hh ELSE [hh EXCEPT !.bad = (hh.bad \/ ~Correct(hh, v))]   \* bytes of v are read (print/concat)
ResetTo(hh, mark) == [hh EXCEPT !.top = mark, !.mem = [l \in Locs |-> IF IsFrame(l) /\ l[2] > mark THEN POISON ELSE hh.mem[l]]]
\* relocate_return_value for a string value
Relocate(hh, v, mark) == IF v.k = "str" /\ v.own /\ IsFrame(v.loc)
                         THEN LET c == Phys(hh, v)  h1 == ResetTo(hh, mark)  f == Fresh(h1, c)
                              IN [h |-> [f.h EXCEPT !.bad = (f.h.bad \/ c # v.c)], v |-> [f.v EXCEPT !.c = v.c]]
                         ELSE [h |-> ResetTo(hh, mark), v |-> v]

Init == h = H0 /\ env = [v \in Vars |-> NONE] /\ out = <<>> /\ nextC = 1 /\ nops = 0 /\ trace = <<>>
Tick(op) == nops < MaxOps /\ nops' = nops + 1 /\ trace' = Append(trace, op) /\ h.top < NFrame - 1

AssignFresh(v) == /\ Tick(<<"v get a add b", v>>)
                  /\ LET f == Fresh(h, nextC)  s == Store(f.h, env[v], f.v)
                     IN h' = s.h /\ env' = [env EXCEPT ![v] = s.r] /\ nextC' = nextC + 1 /\ UNCHANGED out
AssignVar(v, w) == /\ env[w].k = "str" /\ Tick(<<"v get w", v, w>>)
                   /\ LET c == Clone(h, env[w])  s == Store(c.h, env[v], c.v)
                      IN h' = s.h /\ env' = [env EXCEPT ![v] = s.r] /\ UNCHANGED <<nextC, out>>
AssignLit(v) == /\ Tick(<<"v get lit", v>>)
                /\ LET s == Store(h, env[v], [k |-> "str", own |-> FALSE, loc |-> <<"s", 0>>, c |-> 0])
                   IN h' = s.h /\ env' = [env EXCEPT ![v] = s.r] /\ UNCHANGED <<nextC, out>>
Shout(v) == /\ env[v].k = "str" /\ Tick(<<"shout(v)", v>>)
            /\ LET c == Clone(h, env[v])  u == Use(c.h, c.v)  p == Promote(u, c.v)
               IN h' = p.h /\ out' = Append(out, p.r) /\ UNCHANGED <<env, nextC>>
\* shout(v add f()) where f() does: v get fresh ; return "!"
ConcatCall(v) == /\ env[v].k = "str" /\ Tick(<<"shout(v add f()) f:{v get fresh}", v>>)
                 /\ LET c1 == Clone(h, env[v])
                        mark == c1.h.top
                        f == Fresh(c1.h, nextC)
                        s == Store(f.h, env[v], f.v)
                        h2 == ResetTo(s.h, mark)
                        u == Use(h2, c1.v)
                        t == Fresh(u, nextC + 1)
                        p == Promote(t.h, t.v)
                    IN h' = p.h /\ env' = [env EXCEPT ![v] = s.r] /\ out' = Append(out, p.r) /\ nextC' = nextC + 2
\* v get id(arg)   do id(s) start return s end ; arg is variable w or a fresh temp
CallId(v, w) == /\ (w # "fresh" => env[w].k = "str") /\ Tick(<<"v get id(w)", v, w>>)
                /\ LET mark == h.top
                       a == IF w = "fresh" THEN Fresh(h, nextC) ELSE Clone(h, env[w])
                       \* param binding: Borrowed-in-pool gets its own pool slot
                       pb == IF a.v.k = "str" /\ ~a.v.own /\ IsPool(a.v.loc)
                             THEN LET al == Alloc(a.h)  src == Phys(a.h, a.v)
                                  IN [h |-> IF IsPool(al.loc) THEN [al.h EXCEPT !.mem[al.loc] = src] ELSE al.h,
                                      r |-> [k |-> "str", own |-> TRUE, loc |-> al.loc, c |-> a.v.c]]
                             ELSE [h |-> a.h, r |-> a.v]
                       rv == Clone(pb.h, pb.r)                      \* return s
                       hPop == IF "own_return" \in Fixes THEN rv.h ELSE Release(rv.h, pb.r)  \* pop param scope
                       rv2 == IF "own_return" \in Fixes /\ rv.v.k = "str" /\ ~Stable(rv.v.loc)
                              THEN LET f == Fresh(rv.h, Phys(rv.h, rv.v)) IN [h |-> Release(f.h, pb.r), v |-> [f.v EXCEPT !.c = rv.v.c]]
                              ELSE [h |-> hPop, v |-> rv.v]
                       rl == Relocate(rv2.h, rv2.v, mark)
                       s == Store(rl.h, env[v], rl.v)
                   IN h' = s.h /\ env' = [env EXCEPT ![v] = s.r] /\ nextC' = nextC + 1 /\ UNCHANGED out
\* one loop iteration: make t get fresh ; v get t   (t local to body scope)
LoopIter(v) == /\ Tick(<<"loop{make t get fresh; v get t}", v>>)
               /\ LET mark == h.top
                      f == Fresh(h, nextC)
                      st == Store(f.h, NONE, f.v)          \* define t
                      c == Clone(st.h, st.r)
                      sv == Store(c.h, env[v], c.v)
                      hp == Release(sv.h, st.r)            \* pop body scope
                      hr == ResetTo(hp, mark)
                  IN h' = hr /\ env' = [env EXCEPT ![v] = sv.r] /\ nextC' = nextC + 1 /\ UNCHANGED out
Next == \E v \in Vars : \/ AssignFresh(v) \/ AssignLit(v) \/ Shout(v) \/ ConcatCall(v) \/ LoopIter(v)
                        \/ \E w \in Vars : AssignVar(v, w)
                        \/ \E w \in Vars \cup {"fresh"} : CallId(v, w)
Spec == Init /\ [][Next]_vars
NoStale == /\ ~h.bad
           /\ \A v \in Vars : Correct(h, env[v])
           /\ \A i \in 1..Len(out) : Correct(h, out[i])
=============================================================================
