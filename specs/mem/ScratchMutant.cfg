SPECIFICATION Spec
CONSTANTS MaxRuns = 3
ConflictForFrame = "none"
INVARIANTS FrameIsNotPersistent HistoryIndependent NewestBorrowOnTop
CHECK_DEADLOCK FALSE
