------------------------------ MODULE PoolTrace ------------------------------
(***************************************************************************)
(* C12, V direction: histories RECORDED FROM THE REAL POOL (harness         *)
(* sub-command `vh pool`: small PoolSets, single Pools and the real         *)
(* 20-class PoolSet behind the gated wrappers) are judged by the ABSTRACT   *)
(* layer PoolAbs.  A trace is                                               *)
(*   {"id":.., "hdr":{"table":[[slot size, slot count, block beg, block     *)
(*                               end], ...]},      read from the pool       *)
(*    "steps":[{"o","i","s",            request: op, buffer id, byte size   *)
(*              "none","beg","len",     answer: address - arena base, len   *)
(*              "aoff0","aoff1",        arena offset() before / after       *)
(*              "ctr":[[live,free,virgin],..],   the pool's own counters    *)
(*              "probes":[[offset, contains?],..],                          *)
(*              "nseen","bad":[ids]}, ...]}      byte-pattern re-reads      *)
(* Accepted iff every step is a step the abstract layer allows.  One        *)
(* initial state per trace, one TLC state per recorded step, one VERDICT    *)
(* record per trace.                                                        *)
(***************************************************************************)
EXTENDS PoolAbs, Json, IOUtils

Traces == ndJsonDeserialize(IOEnv.TRACES)
VARIABLES i, k, a, verdict
vars == <<i, k, a, verdict>>

TableOf(t) == [c \in 1..Len(t.hdr.table) |-> [size |-> t.hdr.table[c][1], count |-> t.hdr.table[c][2],
                                              beg |-> t.hdr.table[c][3], end |-> t.hdr.table[c][4]]]
ReqOf(st) == [op |-> st.o, id |-> st.i, sz |-> st.s]
ObsOf(st) == [none |-> st.none, beg |-> st.beg, len |-> st.len, aoff0 |-> st.aoff0, aoff1 |-> st.aoff1,
              ctr |-> st.ctr, probes |-> st.probes, nseen |-> st.nseen, bad |-> Range(st.bad)]

Init == /\ i \in 1..Len(Traces)
        /\ k = 1
        /\ a = AbsInit(TableOf(Traces[i]))
        /\ verdict = [v |-> "running", why |-> ""]

Next == /\ verdict.v = "running"
        /\ i' = i
        /\ LET t == Traces[i]
               T == TableOf(t)
           IN IF k = 1 /\ ~TableOk(T)
              THEN verdict' = [v |-> "reject", why |-> "harness-bad-class-table"] /\ UNCHANGED <<k, a>>
              ELSE IF k > Len(t.steps)
              THEN verdict' = [v |-> "accept", why |-> ""] /\ UNCHANGED <<k, a>>
              ELSE LET o == ReqOf(t.steps[k])
                       r == ObsOf(t.steps[k])
                       j == Judge(T, a, o, r)
                       a2 == Apply(T, a, o, r)
                       p == IF j # "ok" THEN j
                            ELSE IF Post(T, a2, r) # "ok" THEN Post(T, a2, r)
                            ELSE IF ~AbsInv(T, a2) THEN "abstract-invariant" ELSE "ok"
                   IN IF p = "ok"
                      THEN a' = a2 /\ k' = k + 1 /\ UNCHANGED verdict
                      ELSE verdict' = [v |-> "reject", why |-> p] /\ UNCHANGED <<k, a>>
Spec == Init /\ [][Next]_vars

Emit == verdict.v # "running" =>
          PrintT(ToJson([tag |-> "VERDICT", i |-> i, id |-> Traces[i].id, verdict |-> verdict.v, k |-> k, why |-> verdict.why]))
=============================================================================
