------------------------------ MODULE Scratch ------------------------------
(***************************************************************************)
(* The two global scratch arenas and the pipeline that shares them         *)
(* (src/arena/scratch.rs, src/bin/naija/cmd.rs, wasm/src/lib.rs).          *)
(*   init        creates both arenas or resets both to offset 0            *)
(*   Borrow(c)   hands out the arena that is NOT the conflict arena c and  *)
(*               remembers its current offset                              *)
(*   Drop        of the NEWEST borrow of an arena resets it to the         *)
(*               remembered offset (and decommits)                         *)
(* The pipeline: persistent <- Borrow(none); resolver scratch <-           *)
(* Borrow(persistent); frame <- Borrow(persistent) while the resolver      *)
(* scratch is still borrowed but no longer used; drops in reverse.  A run  *)
(* may stop early (parse error, static error, runtime error).              *)
(* Properties: the frame arena is never the persistent arena; borrows of   *)
(* one arena are dropped newest-first; after ANY run - whatever its        *)
(* outcome - both offsets and the borrow stack are what they are after     *)
(* init (history independence: runs cannot influence each other).          *)
(***************************************************************************)
EXTENDS Integers, Sequences, TLC, FiniteSets
CONSTANTS MaxRuns, ConflictForFrame   \* "persistent" as in the code; "none" is the slip the model refutes
Outcomes == {"parse_error", "static_error", "runtime_error", "ok"}
VARIABLES off, borrows, phase, runs, outcome
vars == <<off, borrows, phase, runs, outcome>>
Init == off = [a \in {0, 1} |-> 0] /\ borrows = <<>> /\ phase = "init" /\ runs = 0 /\ outcome = "none"
Pick(conflict) == IF conflict = 0 THEN 1 ELSE 0
ArenaOf(role) == LET I == {i \in 1..Len(borrows) : borrows[i].role = role} IN IF I = {} THEN -1 ELSE borrows[CHOOSE i \in I : TRUE].arena
Borrow(role, conflictArena, next) ==
  LET a == Pick(conflictArena) IN
  /\ borrows' = Append(borrows, [arena |-> a, saved |-> off[a], role |-> role])
  /\ phase' = next /\ UNCHANGED <<off, runs, outcome>>
Alloc(role, n, next) == LET a == ArenaOf(role) IN off' = [off EXCEPT ![a] = @ + n] /\ phase' = next /\ UNCHANGED <<borrows, runs, outcome>>
DropTop(next) ==
  LET b == borrows[Len(borrows)] IN
  /\ off' = [off EXCEPT ![b.arena] = b.saved]
  /\ borrows' = SubSeq(borrows, 1, Len(borrows) - 1) /\ phase' = next /\ UNCHANGED <<runs, outcome>>
StartRun == /\ phase = "init" /\ runs < MaxRuns
            /\ off' = [a \in {0, 1} |-> 0]
            /\ \E o \in Outcomes : outcome' = o
            /\ phase' = "borrow_persistent" /\ runs' = runs + 1 /\ UNCHANGED borrows
Next ==
  \/ StartRun
  \/ phase = "borrow_persistent" /\ Borrow("persistent", -1, "parse")
  \/ phase = "parse" /\ Alloc("persistent", 2, IF outcome = "parse_error" THEN "drop_persistent" ELSE "borrow_res")
  \/ phase = "borrow_res" /\ Borrow("res", ArenaOf("persistent"), "resolve")
  \/ phase = "resolve" /\ Alloc("res", 2, "facts")
  \/ phase = "facts" /\ Alloc("persistent", 1, IF outcome = "static_error" THEN "drop_res" ELSE "borrow_frame")
  \/ phase = "borrow_frame" /\ Borrow("frame", IF ConflictForFrame = "persistent" THEN ArenaOf("persistent") ELSE -1, "run")
  \/ phase = "run" /\ Alloc("frame", 1, "run2")
  \/ phase = "run2" /\ Alloc("persistent", 1, "drop_frame")
  \/ phase = "drop_frame" /\ DropTop("drop_res")
  \/ phase = "drop_res" /\ DropTop("drop_persistent")
  \/ phase = "drop_persistent" /\ DropTop("init")
Spec == Init /\ [][Next]_vars
FrameIsNotPersistent == ArenaOf("frame") # -1 => ArenaOf("frame") # ArenaOf("persistent")
HistoryIndependent == phase = "init" => (off = [a \in {0, 1} |-> 0] /\ borrows = <<>>)
NewestBorrowOnTop == \A i, j \in 1..Len(borrows) : (i < j /\ borrows[i].arena = borrows[j].arena) => borrows[i].saved <= borrows[j].saved
=============================================================================
