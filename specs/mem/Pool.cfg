SPECIFICATION Spec
VIEW View
INVARIANTS Exclusive NoDuplicateFree Conservation BelowBump OwnerOk TableIsOk AbstractInv
PROPERTY RefinesAbstract
ACTION_CONSTRAINT Edge
CHECK_DEADLOCK FALSE
