---- MODULE MCGenScope ----
EXTENDS LangGen
MCP == [names |-> {"x", "y"}, funs |-> {"f"}, arity |-> [f \in {"f"} |-> 0], ty |-> "num",
        kinds |-> {"make", "set", "shout", "call", "block", "def", "ret", "empty", "interp2"},
        prelude |-> <<>>, preDecl |-> {}, ops |-> {}, maxStmts |-> atoi(IOEnv.MAXSTMTS), minStmts |-> 1, maxDepth |-> atoi(IOEnv.MAXDEPTH), fuel |-> 400, events |-> atoi(IOEnv.EVENTS)]
====
