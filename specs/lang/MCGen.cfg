SPECIFICATION Spec
CONSTANT P <- MCP
INVARIANT Emit
INVARIANT MachineOk
INVARIANT GeneratedAreResolved
PROPERTY OutGrows
CHECK_DEADLOCK FALSE
