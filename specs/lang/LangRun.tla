------------------------------ MODULE LangRun ------------------------------
(***************************************************************************)
(* Driver: runs the reference machine on programs read from a file.        *)
(* One initial state per program, so the chains are independent and every  *)
(* TLC worker is used.  For each program one JSON record is printed when   *)
(* the run ends: status, printed values and (optionally) the event list.   *)
(*   IOEnv.PROGS  ndjson, one {"body": [...]} per line (labelled, unresolved)*)
(*   IOEnv.FUEL   step budget per program                                  *)
(*   IOEnv.EVENTS "1" to collect the event history, "2" to include the     *)
(*                environment projection after every statement             *)
(***************************************************************************)
EXTENDS LangDyn, Json, IOUtils
S == INSTANCE LangStatic
Progs == ndJsonDeserialize(IOEnv.PROGS)
Fuel == atoi(IOEnv.FUEL)
EvLevel == atoi(IOEnv.EVENTS)
VARIABLES i, m, fuel, hist
vars == <<i, m, fuel, hist>>
Cfg == [skip |-> {}, skipf |-> {}, env |-> EvLevel >= 2]
Init == /\ i \in 1..Len(Progs)
        /\ m = Init0(S!Resolve(Progs[i].body), Cfg)
        /\ fuel = Fuel
        /\ hist = <<>>
Next == /\ m.st = "run" /\ fuel > 0
        /\ m' = Step(m)
        /\ fuel' = fuel - 1
        /\ i' = i
        /\ hist' = IF EvLevel >= 1 /\ m'.e # <<>> THEN Append(hist, m'.e) ELSE hist
Spec == Init /\ [][Next]_vars
Finished == m.st # "run" \/ fuel = 0
Emit == Finished => PrintT(ToJson([tag |-> "CASE", i |-> i, st |-> IF m.st = "run" THEN "Fuel" ELSE m.st,
                                   why |-> IF m.st \in {"Unspecified", "Unmodelled"} THEN m.e[2] ELSE "",
                                   out |-> m.out, used |-> m.used, ev |-> hist]))
\* properties of the reference machine itself
OutGrows == [][Len(m.out) <= Len(m'.out) /\ SubSeq(m'.out, 1, Len(m.out)) = m.out]_vars
MachineOk == DoneClean(m) /\ EnvWellFormed(m)
=============================================================================
