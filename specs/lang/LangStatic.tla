----------------------------- MODULE LangStatic -----------------------------
(***************************************************************************)
(* Static semantics of NaijaScript, part 1: lexical resolution.            *)
(*                                                                         *)
(* Resolve(body) annotates                                                 *)
(*   - every `make`, parameter and function definition with its SITE,      *)
(*   - every variable use, assignment, {name} placeholder and call with    *)
(*     the site of the declaration it refers to (-1 = nothing in scope).   *)
(*                                                                         *)
(* Rules (docs/VARIABLES.md, docs/FUNCTIONS.md, property C04):             *)
(*   - a reference denotes the nearest enclosing declaration that          *)
(*     textually precedes it; `make` of a name already declared in the     *)
(*     SAME block rebinds that same variable (same site);                  *)
(*   - the initialiser of `make x get e` is resolved BEFORE x is declared; *)
(*   - function definitions are visible throughout their block (hoisted),  *)
(*     from nested blocks and functions, not outside; inner shadow outer;  *)
(*   - parameters live in a scope of their own, outside the body block.    *)
(***************************************************************************)
EXTENDS Integers, Sequences, FiniteSets, TLC

GlobalBuiltins == {"shout", "typeof", "to_string", "read_line", "command"}

RECURSIVE LookupIn(_, _, _)
LookupIn(scopes, i, name) ==      \* innermost scope first
  IF i = 0 THEN -1
  ELSE LET sc == scopes[i]  I == {j \in 1..Len(sc) : sc[j].n = name} IN
       IF I # {} THEN sc[CHOOSE j \in I : TRUE].site ELSE LookupIn(scopes, i - 1, name)
Lookup(scopes, name) == LookupIn(scopes, Len(scopes), name)
InTop(scopes, name) == \E j \in 1..Len(scopes[Len(scopes)]) : scopes[Len(scopes)][j].n = name
AddTop(scopes, name, site) == [scopes EXCEPT ![Len(scopes)] = Append(@, [n |-> name, site |-> site])]

RECURSIVE RExpr(_, _, _)
RExpr(e, vs, fs) ==
  CASE e.k = "var" -> [e EXCEPT !.site = Lookup(vs, e.n)]
    [] e.k = "str" -> [e EXCEPT !.segs = [i \in 1..Len(e.segs) |->
                         IF e.segs[i].k = "var" THEN [e.segs[i] EXCEPT !.site = Lookup(vs, e.segs[i].n)] ELSE e.segs[i]]]
    [] e.k = "bin" -> [e EXCEPT !.l = RExpr(e.l, vs, fs), !.r = RExpr(e.r, vs, fs)]
    [] e.k = "un" -> [e EXCEPT !.e = RExpr(e.e, vs, fs)]
    [] e.k = "arr" -> [e EXCEPT !.es = [i \in 1..Len(e.es) |-> RExpr(e.es[i], vs, fs)]]
    [] e.k = "idx" -> [e EXCEPT !.a = RExpr(e.a, vs, fs), !.i = RExpr(e.i, vs, fs)]
    [] e.k = "call" -> [e EXCEPT !.site = (IF e.f \in GlobalBuiltins THEN 0 ELSE Lookup(fs, e.f)),
                                 !.as = [i \in 1..Len(e.as) |-> RExpr(e.as[i], vs, fs)]]
    [] e.k = "mcall" -> [e EXCEPT !.o = RExpr(e.o, vs, fs), !.as = [i \in 1..Len(e.as) |-> RExpr(e.as[i], vs, fs)]]
    [] e.k = "member" -> [e EXCEPT !.o = RExpr(e.o, vs, fs)]
    [] e.k = "callx" -> [e EXCEPT !.o = RExpr(e.o, vs, fs), !.as = [i \in 1..Len(e.as) |-> RExpr(e.as[i], vs, fs)]]
    [] OTHER -> e

\* Every declaring node carries its own label `d` (parameters: `pd[j]`), unique in the
\* program and assigned by whoever built the tree; a declaration's SITE is the label of the
\* node that first declared the variable in its block.  Statement ids `id` are unique too.

\* hoisting: the first definition of each function name of this block, in order
RECURSIVE HoistSites(_, _, _)
HoistSites(stmts, i, fs) ==
  IF i > Len(stmts) THEN fs
  ELSE IF stmts[i].k = "def" /\ ~InTop(fs, stmts[i].n) THEN HoistSites(stmts, i + 1, AddTop(fs, stmts[i].n, stmts[i].d))
  ELSE HoistSites(stmts, i + 1, fs)

RECURSIVE RBlock(_, _, _), RStmts(_, _, _, _, _), RStmt(_, _, _)
RBlock(stmts, vs, fs) == RStmts(stmts, 1, Append(vs, <<>>), HoistSites(stmts, 1, Append(fs, <<>>)), <<>>)
RStmts(stmts, i, vs, fs, acc) ==
  IF i > Len(stmts) THEN acc
  ELSE LET r == RStmt(stmts[i], vs, fs) IN RStmts(stmts, i + 1, r.vs, fs, Append(acc, r.s))
RStmt(s, vs, fs) ==
  CASE s.k = "make" ->
         LET e == RExpr(s.e, vs, fs) IN
         IF InTop(vs, s.n) THEN [s |-> [s EXCEPT !.e = e, !.site = Lookup(<<vs[Len(vs)]>>, s.n)], vs |-> vs]
         ELSE [s |-> [s EXCEPT !.e = e, !.site = s.d], vs |-> AddTop(vs, s.n, s.d)]
    [] s.k = "make0" ->
         IF InTop(vs, s.n) THEN [s |-> [s EXCEPT !.site = Lookup(<<vs[Len(vs)]>>, s.n)], vs |-> vs]
         ELSE [s |-> [s EXCEPT !.site = s.d], vs |-> AddTop(vs, s.n, s.d)]
    [] s.k = "set" -> [s |-> [s EXCEPT !.site = Lookup(vs, s.n), !.e = RExpr(s.e, vs, fs)], vs |-> vs]
    [] s.k = "seti" -> [s |-> [s EXCEPT !.site = Lookup(vs, s.n), !.is = [j \in 1..Len(s.is) |-> RExpr(s.is[j], vs, fs)],
                                        !.e = RExpr(s.e, vs, fs)], vs |-> vs]
    [] s.k \in {"expr", "ret"} -> [s |-> [s EXCEPT !.e = RExpr(s.e, vs, fs)], vs |-> vs]
    [] s.k = "setx" -> [s |-> [s EXCEPT !.t = RExpr(s.t, vs, fs), !.e = RExpr(s.e, vs, fs)], vs |-> vs]
    [] s.k = "if" ->
         [s |-> [s EXCEPT !.c = RExpr(s.c, vs, fs), !.t = RBlock(s.t, vs, fs),
                          !.f = IF s.f = <<>> THEN <<>> ELSE <<RBlock(s.f[1], vs, fs)>>], vs |-> vs]
    [] s.k = "loop" -> [s |-> [s EXCEPT !.c = RExpr(s.c, vs, fs), !.b = RBlock(s.b, vs, fs)], vs |-> vs]
    [] s.k = "block" -> [s |-> [s EXCEPT !.b = RBlock(s.b, vs, fs)], vs |-> vs]
    [] s.k = "def" ->
         LET np == Len(s.ps)
             pscope == [j \in 1..np |-> [n |-> s.ps[j], site |-> s.pd[j]]]
             top == fs[Len(fs)]
             I == {j \in 1..Len(top) : top[j].n = s.n}
         IN [s |-> [s EXCEPT !.b = RBlock(s.b, Append(vs, pscope), fs), !.psites = s.pd,
                             !.site = top[CHOOSE j \in I : TRUE].site], vs |-> vs]
    [] OTHER -> [s |-> s, vs |-> vs]

Resolve(body) == RBlock(body, <<>>, <<>>)

(***************************************************************************)
(* Static semantics, part 2: the verdict.  Check(body) is the set of       *)
(* categories of static rules the program breaks ({} = accepted).          *)
(* Rules (docs + property C09): a variable must be in scope to be used or  *)
(* assigned; a function must be in scope and called with as many arguments *)
(* as it has parameters; comot/next only inside a loop OF THE SAME         *)
(* FUNCTION; return only inside a function; no two functions of one name   *)
(* in a block; no repeated parameter; no built-in name as a name; and an   *)
(* operator, condition or index whose operand has a statically KNOWN wrong *)
(* type (a literal's type, or the type a variable was declared with) is a  *)
(* type error.  Anything whose type is only known at run time (parameters, *)
(* call results, elements) is never a static type error.                   *)
(***************************************************************************)
RECURSIVE TyIn(_, _, _)
TyIn(scopes, i, name) ==
  IF i = 0 THEN "none"
  ELSE LET sc == scopes[i]  I == {j \in 1..Len(sc) : sc[j].n = name} IN
       IF I # {} THEN sc[CHOOSE j \in I : \A q \in I : q <= j].ty ELSE TyIn(scopes, i - 1, name)
TyOf(scopes, name) == TyIn(scopes, Len(scopes), name)
RECURSIVE FunIn(_, _, _)
FunIn(scopes, i, name) ==
  IF i = 0 THEN -1
  ELSE LET sc == scopes[i]  I == {j \in 1..Len(sc) : sc[j].n = name} IN
       IF I # {} THEN sc[CHOOSE j \in I : \A q \in I : j <= q].arity ELSE FunIn(scopes, i - 1, name)
Arith == {"minus", "times", "divide", "mod"}
MethodsOf == [str |-> {"len", "slice", "to_uppercase", "to_lowercase", "find", "replace", "trim", "to_number", "split"},
              num |-> {"abs", "sqrt", "floor", "ceil", "round"},
              arr |-> {"len", "push", "pop", "reverse", "join"}]
RECURSIVE TypeOf(_, _)
TypeOf(e, vs) ==
  CASE e.k \in {"num", "str", "bool", "null", "arr"} -> e.k
    [] e.k = "var" -> LET t == TyOf(vs, e.n) IN IF t = "none" THEN "dyn" ELSE t
    [] e.k = "bin" -> (IF e.op \in Arith THEN "num"
                      ELSE IF e.op = "add" THEN (LET l == TypeOf(e.l, vs)  r == TypeOf(e.r, vs) IN
                                                 IF l = "str" \/ r = "str" THEN "str" ELSE IF l = "num" /\ r = "num" THEN "num" ELSE "dyn")
                      ELSE "bool")
    [] e.k = "un" -> (IF e.op = "not" THEN "bool" ELSE "num")
    \* a process command is a value of its own type (never a condition, an operand or an index)
    [] e.k = "call" /\ e.f = "command" -> "cmd"
    [] OTHER -> "dyn"
Known(t) == t # "dyn"
Boolish(t) == t \in {"bool", "null", "dyn"}
RECURSIVE CExpr(_, _, _)
CExpr(e, vs, fs) ==
  CASE e.k = "var" -> (IF TyOf(vs, e.n) = "none" THEN {"undeclared-variable"} ELSE {})
    [] e.k = "str" -> UNION {IF e.segs[j].k = "var" /\ TyOf(vs, e.segs[j].n) = "none" THEN {"undeclared-variable"} ELSE {} : j \in 1..Len(e.segs)}
    [] e.k = "bin" ->
         LET l == TypeOf(e.l, vs)  r == TypeOf(e.r, vs)
             bad == CASE e.op \in Arith -> (Known(l) /\ l # "num") \/ (Known(r) /\ r # "num")
                      [] e.op = "add" -> (Known(l) /\ l \notin {"num", "str"}) /\ (Known(r) /\ r \notin {"num", "str"})
                      [] e.op \in {"na", "pass", "lt"} -> Known(l) /\ Known(r) /\ l # r /\ l # "null" /\ r # "null"
                      [] e.op \in {"and", "or"} -> ~Boolish(l) \/ ~Boolish(r)
         IN CExpr(e.l, vs, fs) \cup CExpr(e.r, vs, fs) \cup (IF bad THEN {"type"} ELSE {})
    [] e.k = "un" ->
         LET t == TypeOf(e.e, vs) IN
         CExpr(e.e, vs, fs) \cup (IF (e.op = "not" /\ ~Boolish(t)) \/ (e.op = "neg" /\ Known(t) /\ t # "num") THEN {"type"} ELSE {})
    [] e.k = "arr" -> UNION {CExpr(e.es[j], vs, fs) : j \in 1..Len(e.es)}
    [] e.k = "idx" ->
         LET a == TypeOf(e.a, vs)  i == TypeOf(e.i, vs) IN
         CExpr(e.a, vs, fs) \cup CExpr(e.i, vs, fs) \cup (IF (Known(a) /\ a # "arr") \/ (Known(i) /\ i # "num") THEN {"type"} ELSE {})
    [] e.k = "call" ->
         LET args == UNION {CExpr(e.as[j], vs, fs) : j \in 1..Len(e.as)}
             ar == IF e.f \in GlobalBuiltins THEN 1 ELSE FunIn(fs, Len(fs), e.f)
         IN args \cup (IF ar < 0 THEN {"undeclared-function"} ELSE IF ar # Len(e.as) THEN {"arity"} ELSE {})
    \* a method of ANOTHER type on a receiver whose type is statically known (`"abc".push(1)`, `[1].trim()`) is a static error
    [] e.k = "mcall" -> CExpr(e.o, vs, fs) \cup UNION {CExpr(e.as[j], vs, fs) : j \in 1..Len(e.as)}
                        \cup (LET t == TypeOf(e.o, vs) IN IF t \in DOMAIN MethodsOf /\ e.m \notin MethodsOf[t] THEN {"method"} ELSE {})
    [] e.k = "member" -> CExpr(e.o, vs, fs)
    [] e.k = "callx" -> CExpr(e.o, vs, fs) \cup UNION {CExpr(e.as[j], vs, fs) : j \in 1..Len(e.as)}
    [] OTHER -> {}

AddTy(scopes, name, ty) == [scopes EXCEPT ![Len(scopes)] = Append(@, [n |-> name, ty |-> ty])]
\* function table of a block: the first definition of each name
RECURSIVE FunTable(_, _, _)
FunTable(stmts, i, acc) ==
  IF i > Len(stmts) THEN acc
  ELSE IF stmts[i].k = "def" /\ ~\E j \in 1..Len(acc) : acc[j].n = stmts[i].n
       THEN FunTable(stmts, i + 1, Append(acc, [n |-> stmts[i].n, arity |-> Len(stmts[i].ps)]))
       ELSE FunTable(stmts, i + 1, acc)
DupFuns(stmts) == IF \E i, j \in 1..Len(stmts) : i < j /\ stmts[i].k = "def" /\ stmts[j].k = "def" /\ stmts[i].n = stmts[j].n
                  THEN {"duplicate-function"} ELSE {}
\* ctx = [loop |-> BOOLEAN, fun |-> BOOLEAN]
RECURSIVE CBlock(_, _, _, _), CStmts(_, _, _, _, _)
CBlock(stmts, vs, fs, ctx) == DupFuns(stmts) \cup CStmts(stmts, 1, Append(vs, <<>>), Append(fs, FunTable(stmts, 1, <<>>)), ctx)
CStmts(stmts, i, vs, fs, ctx) ==
  IF i > Len(stmts) THEN {}
  ELSE LET s == stmts[i]
           declared == IF s.k = "make" THEN AddTy(vs, s.n, TypeOf(s.e, vs)) ELSE IF s.k = "make0" THEN AddTy(vs, s.n, "null") ELSE vs
           here ==
             CASE s.k = "make" -> CExpr(s.e, vs, fs) \cup (IF s.n \in GlobalBuiltins THEN {"reserved-name"} ELSE {})
               [] s.k = "make0" -> (IF s.n \in GlobalBuiltins THEN {"reserved-name"} ELSE {})
               [] s.k = "set" -> CExpr(s.e, vs, fs) \cup (IF TyOf(vs, s.n) = "none" THEN {"assign-undeclared"} ELSE {})
               [] s.k = "seti" -> CExpr(s.e, vs, fs) \cup UNION {CExpr(s.is[j], vs, fs) : j \in 1..Len(s.is)}
                                  \cup (IF TyOf(vs, s.n) = "none" THEN {"undeclared-variable"} ELSE {})
               [] s.k = "expr" -> CExpr(s.e, vs, fs)
               [] s.k = "setx" -> CExpr(s.t, vs, fs) \cup CExpr(s.e, vs, fs)
               [] s.k = "ret" -> CExpr(s.e, vs, fs) \cup (IF ctx.fun THEN {} ELSE {"return-outside-function"})
               [] s.k = "ret0" -> (IF ctx.fun THEN {} ELSE {"return-outside-function"})
               [] s.k = "brk" -> (IF ctx.loop THEN {} ELSE {"break-outside-loop"})
               [] s.k = "cont" -> (IF ctx.loop THEN {} ELSE {"continue-outside-loop"})
               [] s.k = "if" -> CExpr(s.c, vs, fs) \cup (IF ~Boolish(TypeOf(s.c, vs)) THEN {"type"} ELSE {})
                                \cup CBlock(s.t, vs, fs, ctx) \cup (IF s.f = <<>> THEN {} ELSE CBlock(s.f[1], vs, fs, ctx))
               [] s.k = "loop" -> CExpr(s.c, vs, fs) \cup (IF ~Boolish(TypeOf(s.c, vs)) THEN {"type"} ELSE {})
                                  \cup CBlock(s.b, vs, fs, [ctx EXCEPT !.loop = TRUE])
               [] s.k = "block" -> CBlock(s.b, vs, fs, ctx)
               [] s.k = "def" ->
                    (IF s.n \in GlobalBuiltins \/ \E j \in 1..Len(s.ps) : s.ps[j] \in GlobalBuiltins THEN {"reserved-name"} ELSE {})
                    \cup (IF \E a, b \in 1..Len(s.ps) : a < b /\ s.ps[a] = s.ps[b] THEN {"duplicate-parameter"} ELSE {})
                    \* a function body is neither inside the loops nor inside the conditionals around its definition
                    \cup CBlock(s.b, Append(vs, [j \in 1..Len(s.ps) |-> [n |-> s.ps[j], ty |-> "dyn"]]), fs, [loop |-> FALSE, fun |-> TRUE])
       IN here \cup CStmts(stmts, i + 1, declared, fs, ctx)
Check(body) == CBlock(body, <<>>, <<>>, [loop |-> FALSE, fun |-> FALSE])
=============================================================================
