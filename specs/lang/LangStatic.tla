----------------------------- MODULE LangStatic -----------------------------
(***************************************************************************)
(* Static semantics of NaijaScript, part 1: lexical resolution.            *)
(*                                                                         *)
(* Resolve(body) annotates                                                 *)
(*   - every `make`, parameter and function definition with its SITE,      *)
(*   - every variable use, assignment, {name} placeholder and call with    *)
(*     the site of the declaration it refers to (-1 = nothing in scope).   *)
(*                                                                         *)
(* Rules (docs/VARIABLES.md, docs/FUNCTIONS.md, property C04):             *)
(*   - a reference denotes the nearest enclosing declaration that          *)
(*     textually precedes it; `make` of a name already declared in the     *)
(*     SAME block rebinds that same variable (same site);                  *)
(*   - the initialiser of `make x get e` is resolved BEFORE x is declared; *)
(*   - function definitions are visible throughout their block (hoisted),  *)
(*     from nested blocks and functions, not outside; inner shadow outer;  *)
(*   - parameters live in a scope of their own, outside the body block.    *)
(***************************************************************************)
EXTENDS Integers, Sequences, FiniteSets, TLC

GlobalBuiltins == {"shout", "typeof", "to_string", "read_line", "command"}

RECURSIVE LookupIn(_, _, _)
LookupIn(scopes, i, name) ==      \* innermost scope first
  IF i = 0 THEN -1
  ELSE LET sc == scopes[i]  I == {j \in 1..Len(sc) : sc[j].n = name} IN
       IF I # {} THEN sc[CHOOSE j \in I : TRUE].site ELSE LookupIn(scopes, i - 1, name)
Lookup(scopes, name) == LookupIn(scopes, Len(scopes), name)
InTop(scopes, name) == \E j \in 1..Len(scopes[Len(scopes)]) : scopes[Len(scopes)][j].n = name
AddTop(scopes, name, site) == [scopes EXCEPT ![Len(scopes)] = Append(@, [n |-> name, site |-> site])]

RECURSIVE RExpr(_, _, _)
RExpr(e, vs, fs) ==
  CASE e.k = "var" -> [e EXCEPT !.site = Lookup(vs, e.n)]
    [] e.k = "str" -> [e EXCEPT !.segs = [i \in 1..Len(e.segs) |->
                         IF e.segs[i].k = "var" THEN [e.segs[i] EXCEPT !.site = Lookup(vs, e.segs[i].n)] ELSE e.segs[i]]]
    [] e.k = "bin" -> [e EXCEPT !.l = RExpr(e.l, vs, fs), !.r = RExpr(e.r, vs, fs)]
    [] e.k = "un" -> [e EXCEPT !.e = RExpr(e.e, vs, fs)]
    [] e.k = "arr" -> [e EXCEPT !.es = [i \in 1..Len(e.es) |-> RExpr(e.es[i], vs, fs)]]
    [] e.k = "idx" -> [e EXCEPT !.a = RExpr(e.a, vs, fs), !.i = RExpr(e.i, vs, fs)]
    [] e.k = "call" -> [e EXCEPT !.site = (IF e.f \in GlobalBuiltins THEN 0 ELSE Lookup(fs, e.f)),
                                 !.as = [i \in 1..Len(e.as) |-> RExpr(e.as[i], vs, fs)]]
    [] e.k = "mcall" -> [e EXCEPT !.o = RExpr(e.o, vs, fs), !.as = [i \in 1..Len(e.as) |-> RExpr(e.as[i], vs, fs)]]
    [] OTHER -> e

\* Every declaring node carries its own label `d` (parameters: `pd[j]`), unique in the
\* program and assigned by whoever built the tree; a declaration's SITE is the label of the
\* node that first declared the variable in its block.  Statement ids `id` are unique too.

\* hoisting: the first definition of each function name of this block, in order
RECURSIVE HoistSites(_, _, _)
HoistSites(stmts, i, fs) ==
  IF i > Len(stmts) THEN fs
  ELSE IF stmts[i].k = "def" /\ ~InTop(fs, stmts[i].n) THEN HoistSites(stmts, i + 1, AddTop(fs, stmts[i].n, stmts[i].d))
  ELSE HoistSites(stmts, i + 1, fs)

RECURSIVE RBlock(_, _, _), RStmts(_, _, _, _, _), RStmt(_, _, _)
RBlock(stmts, vs, fs) == RStmts(stmts, 1, Append(vs, <<>>), HoistSites(stmts, 1, Append(fs, <<>>)), <<>>)
RStmts(stmts, i, vs, fs, acc) ==
  IF i > Len(stmts) THEN acc
  ELSE LET r == RStmt(stmts[i], vs, fs) IN RStmts(stmts, i + 1, r.vs, fs, Append(acc, r.s))
RStmt(s, vs, fs) ==
  CASE s.k = "make" ->
         LET e == RExpr(s.e, vs, fs) IN
         IF InTop(vs, s.n) THEN [s |-> [s EXCEPT !.e = e, !.site = Lookup(<<vs[Len(vs)]>>, s.n)], vs |-> vs]
         ELSE [s |-> [s EXCEPT !.e = e, !.site = s.d], vs |-> AddTop(vs, s.n, s.d)]
    [] s.k = "make0" ->
         IF InTop(vs, s.n) THEN [s |-> [s EXCEPT !.site = Lookup(<<vs[Len(vs)]>>, s.n)], vs |-> vs]
         ELSE [s |-> [s EXCEPT !.site = s.d], vs |-> AddTop(vs, s.n, s.d)]
    [] s.k = "set" -> [s |-> [s EXCEPT !.site = Lookup(vs, s.n), !.e = RExpr(s.e, vs, fs)], vs |-> vs]
    [] s.k = "seti" -> [s |-> [s EXCEPT !.site = Lookup(vs, s.n), !.is = [j \in 1..Len(s.is) |-> RExpr(s.is[j], vs, fs)],
                                        !.e = RExpr(s.e, vs, fs)], vs |-> vs]
    [] s.k \in {"expr", "ret"} -> [s |-> [s EXCEPT !.e = RExpr(s.e, vs, fs)], vs |-> vs]
    [] s.k = "if" ->
         [s |-> [s EXCEPT !.c = RExpr(s.c, vs, fs), !.t = RBlock(s.t, vs, fs),
                          !.f = IF s.f = <<>> THEN <<>> ELSE <<RBlock(s.f[1], vs, fs)>>], vs |-> vs]
    [] s.k = "loop" -> [s |-> [s EXCEPT !.c = RExpr(s.c, vs, fs), !.b = RBlock(s.b, vs, fs)], vs |-> vs]
    [] s.k = "block" -> [s |-> [s EXCEPT !.b = RBlock(s.b, vs, fs)], vs |-> vs]
    [] s.k = "def" ->
         LET np == Len(s.ps)
             pscope == [j \in 1..np |-> [n |-> s.ps[j], site |-> s.pd[j]]]
             top == fs[Len(fs)]
             I == {j \in 1..Len(top) : top[j].n = s.n}
         IN [s |-> [s EXCEPT !.b = RBlock(s.b, Append(vs, pscope), fs), !.psites = s.pd,
                             !.site = top[CHOOSE j \in I : TRUE].site], vs |-> vs]
    [] OTHER -> [s |-> s, vs |-> vs]

Resolve(body) == RBlock(body, <<>>, <<>>)
=============================================================================
