SPECIFICATION Spec
INVARIANT Emit
CHECK_DEADLOCK FALSE
