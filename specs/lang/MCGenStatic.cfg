SPECIFICATION Spec
CONSTANT P <- MCP
INVARIANT Emit
INVARIANT MachineOk
INVARIANT StaticAgrees
CHECK_DEADLOCK FALSE
