---------------------------- MODULE GenCapCases ----------------------------
(***************************************************************************)
(* `capturecases` profile (C03): interprocedural capture effects that need *)
(* more statements than the exhaustive capture profiles reach.             *)
(* A variable v is owned by the script or by an enclosing function; a      *)
(* callee `e()` has an EFFECT on it (write a constant / write a computed   *)
(* value / read it / read then write / none); the call `e()` sits in a     *)
(* statement whose own result nobody reads (dead `make t get e()`, dead    *)
(* `t get e()`, or a bare call) placed in the SAME function as v, in       *)
(* ANOTHER top-level function, or in a function NESTED in v's owner;       *)
(* optionally under a condition or inside a loop; v is printed afterwards. *)
(* Pruning the dead statement would lose the effect.                       *)
(***************************************************************************)
EXTENDS LangDyn, Json, IOUtils
S == INSTANCE LangStatic
Num(c) == [k |-> "num", v |-> 4 * c]
Var(x) == [k |-> "var", n |-> x, site |-> 0]
Bin(op, l, r) == [k |-> "bin", op |-> op, l |-> l, r |-> r]
G(f, as) == [k |-> "call", f |-> f, site |-> 0, as |-> as]
Make(id, x, e) == [k |-> "make", id |-> id, d |-> 10 * id, n |-> x, site |-> 0, e |-> e]
Set(id, x, e) == [k |-> "set", id |-> id, n |-> x, site |-> 0, e |-> e]
ExprS(id, e) == [k |-> "expr", id |-> id, e |-> e]
Shout(id, e) == ExprS(id, G("shout", <<e>>))
Ret(id, e) == [k |-> "ret", id |-> id, e |-> e]
If(id, c, t) == [k |-> "if", id |-> id, c |-> c, t |-> t, f |-> <<>>]
Def(id, name, ps, body) == [k |-> "def", id |-> id, d |-> 10 * id, n |-> name, site |-> 0, ps |-> ps,
                            pd |-> [j \in 1..Len(ps) |-> 10 * id + j], psites |-> [j \in 1..Len(ps) |-> 0], b |-> body]
Effects == {"write-const", "write-computed", "read", "read-write", "none", "print", "trap"}
Effect(id, ef) ==
  CASE ef = "write-const" -> <<Set(id, "v", Num(5))>>
    [] ef = "print" -> <<Shout(id, Num(6))>>
    [] ef = "trap" -> <<ExprS(id, Bin("divide", Num(1), Num(0)))>>
    [] ef = "write-computed" -> <<Set(id, "v", Bin("add", Num(2), Num(3)))>>
    [] ef = "read" -> <<Shout(id, Var("v"))>>
    [] ef = "read-write" -> <<Set(id, "v", Bin("add", Var("v"), Num(1)))>>
    [] ef = "none" -> <<>>
Dead(id, how) ==
  CASE how = "make" -> <<Make(id, "t", G("e", <<>>))>>
    [] how = "set" -> <<Make(id, "t", Num(0)), Set(id + 1, "t", G("e", <<>>))>>
    [] how = "bare" -> <<ExprS(id, G("e", <<>>))>>
    [] how = "twice" -> <<Make(id, "t", G("e", <<>>)), Make(id + 1, "u", G("e", <<>>))>>
Wrap(id, w, stmts) ==
  CASE w = "plain" -> stmts
    [] w = "if" -> <<If(id, Bin("lt", Num(0), Num(1)), stmts)>>
    [] w = "loop" -> <<Make(id, "i", Num(0)),
                       [k |-> "loop", id |-> id + 1, c |-> Bin("lt", Var("i"), Num(2)), b |-> <<Set(id + 2, "i", Bin("add", Var("i"), Num(1)))>> \o stmts]>>
\* where: the dead statement is in the SAME function as v / in ANOTHER top-level function / in a function NESTED in v's owner
\* the effect sits `depth` calls below e(): e -> e1 -> e2, the functions in between are pure wrappers
\* (what a caller's summary knows about effects further down the chain)
EDefs(ef, depth) ==
  CASE depth = 1 -> <<Def(2, "e", <<>>, Effect(3, ef) \o <<Ret(4, Num(1))>>)>>
    [] depth = 2 -> <<Def(2, "e", <<>>, <<Ret(4, G("e1", <<>>))>>), Def(50, "e1", <<>>, Effect(51, ef) \o <<Ret(52, Num(1))>>)>>
    [] depth = 3 -> <<Def(2, "e", <<>>, <<Ret(4, G("e1", <<>>))>>), Def(50, "e1", <<>>, <<Ret(52, G("e2", <<>>))>>),
                      Def(53, "e2", <<>>, Effect(54, ef) \o <<Ret(55, Num(1))>>)>>
\* how v is observed afterwards: directly, or only after being overwritten (then `v get 7` is observed only through the call)
Observe(obs) == IF obs = "direct" THEN <<Shout(30, Var("v"))>> ELSE <<Set(31, "v", Num(8)), Shout(30, Var("v"))>>
Prog(ef, how, where, w, depth, obs) ==
  LET e == EDefs(ef, depth)
      dead == Wrap(20, w, Dead(10, how))
  IN CASE where = "same" -> <<Make(1, "v", Num(0))>> \o e \o <<Set(5, "v", Num(7))>> \o dead \o Observe(obs)
       [] where = "other" -> <<Make(1, "v", Num(0))>> \o e \o <<Def(6, "g", <<>>, dead \o <<Ret(7, Num(0))>>), Set(5, "v", Num(7)),
                               ExprS(8, G("g", <<>>))>> \o Observe(obs)
       [] where = "nested" -> <<Def(40, "outer", <<>>, <<Make(1, "v", Num(0))>> \o e \o <<Def(6, "g", <<>>, dead \o <<Ret(7, Num(0))>>), Set(5, "v", Num(7)),
                                                          ExprS(8, G("g", <<>>))>> \o Observe(obs) \o <<Ret(41, Var("v"))>>),
                                Shout(42, G("outer", <<>>))>>
Programs == {Prog(ef, how, wh, w, d, obs) : ef \in Effects, how \in {"make", "set", "bare", "twice"}, wh \in {"same", "other", "nested"}, w \in {"plain", "if", "loop"},
                                          d \in {1, 2, 3}, obs \in {"direct", "overwritten"}}
VARIABLES prog, m, fuel
vars == <<prog, m, fuel>>
Init == \E p \in Programs : prog = S!Resolve(p) /\ m = Init0(prog, NoSkip) /\ fuel = 800
Next == m.st = "run" /\ fuel > 0 /\ m' = Step(m) /\ fuel' = fuel - 1 /\ prog' = prog
Spec == Init /\ [][Next]_vars
Finished == m.st # "run" \/ fuel = 0
Emit == Finished => PrintT(ToJson([tag |-> "CASE", prog |-> prog, st |-> IF m.st = "run" THEN "Fuel" ELSE m.st,
                                   why |-> IF m.st \in {"Unspecified", "Unmodelled"} THEN m.e[2] ELSE "",
                                   out |-> m.out, used |-> m.used, ev |-> <<>>]))
MachineOk == DoneClean(m) /\ EnvWellFormed(m)
=============================================================================
