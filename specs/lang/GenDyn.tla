------------------------------- MODULE GenDyn -------------------------------
(***************************************************************************)
(* `typeroute` profile (C06): the finite product                           *)
(*        SITE  x  RUNTIME TYPES of its operands  x  ROUTE                 *)
(* A site is a position where a value is used (operator, condition, index, *)
(* indexed store, method receiver / argument, global built-in,             *)
(* interpolation); a route is a way of getting a value whose type is only  *)
(* known at run time into that position (parameter, array element, pop()   *)
(* result, function with several return types, variable re-assigned at     *)
(* another type).  TLC enumerates the whole product and runs each program  *)
(* on the reference machine; the record carries the abstract key           *)
(* site:types under which a crash of the implementation is reported.       *)
(***************************************************************************)
EXTENDS LangDyn, Json, IOUtils
S == INSTANCE LangStatic

Types == {"num", "str", "bool", "null", "arr"}
\* a process_command builder as a receiver (never run: nothing is spawned)
RecvTypes == Types \cup {"cmd"}
Num(c) == [k |-> "num", v |-> c]
StrL(s) == [k |-> "str", segs |-> <<[k |-> "lit", v |-> s]>>]
\* numbers at the edges of the native conversions (index -> usize, timeout -> u32, slice bound -> isize): 2^32, -2^32,
\* 1e300, and not-a-number (1e300 * 1e300 - 1e300 * 1e300)
ExtTypes == {"big", "negbig", "huge", "nan"}
Raw(t) == [k |-> "rawnum", t |-> t]
Huge == Raw("1000000000000000000000000000000000000000000000000000000000000000000000000000000000000000000000000000000000000000000000000000000000000000000000000000000000000000000000000000000000000000000000000000000000000000000000000000000000000000000000000000000000000000000000000000000000000000000000000000000000000")
ExtVal0(t) == CASE t = "big" -> Raw("4294967296") [] t = "negbig" -> [k |-> "un", op |-> "neg", e |-> Raw("4294967296")] [] t = "huge" -> Huge
               [] t = "nan" -> [k |-> "bin", op |-> "minus", l |-> [k |-> "bin", op |-> "times", l |-> Huge, r |-> Huge], r |-> [k |-> "bin", op |-> "times", l |-> Huge, r |-> Huge]]
Val(t) == CASE t \in {"big", "negbig", "huge", "nan"} -> ExtVal0(t) [] t = "num" -> Num(4) [] t = "str" -> StrL(<<115>>) [] t = "bool" -> [k |-> "bool", v |-> TRUE]
            [] t = "null" -> [k |-> "null"] [] t = "arr" -> [k |-> "arr", es |-> <<Num(4)>>]
            [] t = "cmd" -> [k |-> "call", f |-> "command", site |-> 0, as |-> <<[k |-> "str", segs |-> <<[k |-> "lit", v |-> <<101, 99, 104, 111>>]>>]>>]
Var(x) == [k |-> "var", n |-> x, site |-> 0]
Bin(op, l, r) == [k |-> "bin", op |-> op, l |-> l, r |-> r]
Un(op, e) == [k |-> "un", op |-> op, e |-> e]
Idx(a, i) == [k |-> "idx", a |-> a, i |-> i]
G(f, as) == [k |-> "call", f |-> f, site |-> 0, as |-> as]
M(o, mm, as) == [k |-> "mcall", o |-> o, m |-> mm, as |-> as]
Make(id, x, e) == [k |-> "make", id |-> id, d |-> 10 * id, n |-> x, site |-> 0, e |-> e]
Set(id, x, e) == [k |-> "set", id |-> id, n |-> x, site |-> 0, e |-> e]
ExprS(id, e) == [k |-> "expr", id |-> id, e |-> e]
\* IOEnv.DEAD = "1": the site's expression is the initialiser of a variable nobody reads (`make dd<id> get <expr>`)
\* instead of being printed: whether it fails at run time must not depend on the value being used (C03)
DeadMode == "DEAD" \in DOMAIN IOEnv /\ IOEnv.DEAD = "1"
Shout(id, e) == IF DeadMode THEN [k |-> "make", id |-> id, d |-> 10 * id, n |-> "dd", site |-> 0, e |-> e] ELSE ExprS(id, G("shout", <<e>>))
Ret(id, e) == [k |-> "ret", id |-> id, e |-> e]
If(id, c, t) == [k |-> "if", id |-> id, c |-> c, t |-> t, f |-> <<>>]

\* ---------- sites: [key, n (operands), use] where use(d) builds the statements from operand expressions ----------
BinOps == {"add", "minus", "times", "divide", "mod", "na", "pass", "lt", "and", "or"}
StrM0 == {"len", "to_uppercase", "to_lowercase", "trim", "to_number"}
StrM1 == {"find", "split"}
StrM2 == {"slice", "replace"}
NumM == {"abs", "sqrt", "floor", "ceil", "round"}
Sites ==
       {[key |-> <<"bin", op>>, n |-> 2] : op \in BinOps}
  \cup {[key |-> <<"un", op>>, n |-> 1] : op \in {"not", "neg"}}
  \cup {[key |-> <<"cond", c>>, n |-> 1] : c \in {"if", "loop"}}
  \cup {[key |-> <<"index", "read">>, n |-> 2], [key |-> <<"index", "store">>, n |-> 2]}
  \cup {[key |-> <<"method", mm>>, n |-> 1] : mm \in StrM0 \cup NumM \cup {"pop", "reverse"}}
  \cup {[key |-> <<"method", mm>>, n |-> 2] : mm \in StrM1 \cup {"push", "join"}}
  \cup {[key |-> <<"method", mm>>, n |-> 3] : mm \in StrM2}
  \cup {[key |-> <<"global", f>>, n |-> 1] : f \in {"shout", "typeof", "to_string"}}
  \cup {[key |-> <<"interp", "placeholder">>, n |-> 1]}
  \* fewer arguments than the method takes (the resolver cannot count them on a dynamic receiver)
  \cup {[key |-> <<"method-missing-arg", mm>>, n |-> 1] : mm \in StrM1 \cup {"push", "join"}}
  \cup {[key |-> <<"method-missing-arg", mm>>, n |-> 2] : mm \in StrM2}
  \cup {[key |-> <<"member", mm>>, n |-> 1] : mm \in {"len", "pop", "abs"}}
  \* builder methods of process_command (mutating: they want an lvalue receiver)
  \cup {[key |-> <<"builder", mm>>, n |-> 1] : mm \in {"stdin_null", "stdout_capture", "stderr_inherit"}}
  \cup {[key |-> <<"builder", mm>>, n |-> 2] : mm \in {"arg", "cwd", "stdin_text", "timeout_ms"}}
  \cup {[key |-> <<"builder", "env">>, n |-> 3]}
  \* a unary operator on the operand, itself the operand of a binary operator (the inner result has the operator's type)
  \cup {[key |-> <<"un-in-bin", op>>, n |-> 1] : op \in {"add", "minus", "lt", "na", "and", "or"}}
  \* `add` of the operand and a number (a string at run time makes the sum a string), the sum then used where its type matters
  \cup {[key |-> <<"add-use", w>>, n |-> 1] : w \in {"len", "na-str", "upper", "minus"}}
  \* a call whose callee is a value, not a name
  \cup {[key |-> <<"callee", w>>, n |-> 1] : w \in {"noargs", "onearg"}}
  \* index targets whose base is a call result
  \cup {[key |-> <<"temporary-target", w>>, n |-> 1] : w \in {"store", "push", "nested-store"}}

\* d = sequence of operand expressions (dynamic); ids start at `id`
Use(site, d, id) ==
  LET k1 == site.key[1]  k2 == site.key[2] IN
  CASE k1 = "bin" -> <<Shout(id, Bin(k2, d[1], d[2]))>>
    [] k1 = "un" -> <<Shout(id, Un(k2, d[1]))>>
    [] k1 = "cond" /\ k2 = "if" -> <<If(id, d[1], <<Shout(id + 1, Num(4))>>)>>
    [] k1 = "cond" /\ k2 = "loop" -> <<[k |-> "loop", id |-> id, c |-> d[1], b |-> <<[k |-> "brk", id |-> id + 1]>>]>>
    [] k1 = "index" /\ k2 = "read" -> <<Shout(id, Idx(d[1], d[2]))>>
    [] k1 = "index" /\ k2 = "store" ->
         \* the base must be a variable: copy it first when the route delivers an element expression
         IF d[1].k = "var" THEN <<[k |-> "seti", id |-> id, n |-> d[1].n, site |-> 0, is |-> <<d[2]>>, e |-> Num(8)], Shout(id + 1, d[1])>>
         ELSE IF d[1].k = "idx" THEN <<[k |-> "seti", id |-> id, n |-> d[1].a.n, site |-> 0, is |-> <<d[1].i, d[2]>>, e |-> Num(8)], Shout(id + 1, d[1])>>
         ELSE <<[k |-> "setx", id |-> id, t |-> Idx(d[1], d[2]), e |-> Num(8)], Shout(id + 1, Num(4))>>
    [] k1 = "method" -> <<Shout(id, M(d[1], k2, SubSeq(d, 2, Len(d))))>>
    [] k1 = "global" -> <<Shout(id, G(k2, <<d[1]>>))>>
    [] k1 = "builder" -> <<Shout(id, M(d[1], k2, SubSeq(d, 2, Len(d))))>>
    [] k1 = "method-missing-arg" -> <<Shout(id, M(d[1], k2, SubSeq(d, 2, Len(d))))>>
    [] k1 = "member" -> <<Shout(id, [k |-> "member", o |-> d[1], m |-> k2])>>
    [] k1 = "un-in-bin" ->
         IF k2 \in {"and", "or"} THEN <<Shout(id, Bin(k2, Un("not", d[1]), [k |-> "bool", v |-> TRUE])), Shout(id + 1, Bin(k2, [k |-> "bool", v |-> FALSE], Un("not", d[1])))>>
         ELSE <<Shout(id, Bin(k2, Un("neg", d[1]), Num(4))), Shout(id + 1, Bin(k2, Num(8), Un("neg", d[1])))>>
    [] k1 = "add-use" ->
         LET sum(l) == IF l THEN Bin("add", d[1], Num(4)) ELSE Bin("add", Num(4), d[1])
             use(e) == CASE k2 = "len" -> M(e, "len", <<>>) [] k2 = "upper" -> M(e, "to_uppercase", <<>>)
                         [] k2 = "na-str" -> Bin("na", e, StrL(<<115, 49>>)) [] k2 = "minus" -> Bin("minus", e, Num(4))
         IN <<Shout(id, use(sum(TRUE))), Shout(id + 1, use(sum(FALSE)))>>
    [] k1 = "callee" ->
         \* `p(1)` would be a call BY NAME; a variable operand is wrapped so that the callee is a value
         LET o == IF d[1].k = "var" THEN Idx([k |-> "arr", es |-> <<d[1]>>], Num(0)) ELSE d[1] IN
         <<Shout(id, [k |-> "callx", o |-> o, as |-> IF k2 = "noargs" THEN <<>> ELSE <<Num(4)>>])>>
    [] k1 = "temporary-target" ->
         \* h() returns [[operand]]; the target is rooted at the call
         <<[k |-> "def", id |-> id, d |-> 10 * id, n |-> "h", site |-> 0, ps |-> <<>>, pd |-> <<>>, psites |-> <<>>,
            b |-> <<Ret(id + 1, [k |-> "arr", es |-> <<[k |-> "arr", es |-> <<d[1]>>]>>])>>],
           (CASE k2 = "store" -> [k |-> "setx", id |-> id + 2, t |-> Idx(G("h", <<>>), Num(0)), e |-> Num(8)]
              [] k2 = "nested-store" -> [k |-> "setx", id |-> id + 2, t |-> Idx(Idx(G("h", <<>>), Num(0)), Num(0)), e |-> Num(8)]
              [] k2 = "push" -> ExprS(id + 2, M(Idx(G("h", <<>>), Num(0)), "push", <<Num(8)>>))),
           Shout(id + 3, Num(4))>>
    [] k1 = "interp" ->
         IF d[1].k = "var" THEN <<Shout(id, [k |-> "str", segs |-> <<[k |-> "lit", v |-> <<60>>], [k |-> "var", n |-> d[1].n, site |-> 0]>>])>>
         ELSE <<Make(id, "w", d[1]), Shout(id + 1, [k |-> "str", segs |-> <<[k |-> "lit", v |-> <<60>>], [k |-> "var", n |-> "w", site |-> 0]>>])>>

Routes == {"param", "element", "pop", "mixedreturn", "reassign", "callresult", "popdirect"}
PNames == <<"p", "q", "r">>
\* program for site s, operand types ts (a sequence), route rt
Prog(s, ts, rt) ==
  LET n == Len(ts)
      vars == [j \in 1..n |-> Var(PNames[j])]
  IN CASE rt = "param" ->
            <<[k |-> "def", id |-> 1, d |-> 10, n |-> "f", site |-> 0, ps |-> SubSeq(PNames, 1, n), pd |-> [j \in 1..n |-> 10 + j],
               psites |-> [j \in 1..n |-> 0], b |-> Use(s, vars, 10)],
              ExprS(2, G("f", [j \in 1..n |-> Val(ts[j])]))>>
       [] rt = "element" ->
            <<Make(1, "a", [k |-> "arr", es |-> [j \in 1..n |-> Val(ts[j])]])>> \o Use(s, [j \in 1..n |-> Idx(Var("a"), Num(4 * (j - 1)))], 10)
       [] rt = "pop" ->
            <<Make(1, "a", [k |-> "arr", es |-> [j \in 1..n |-> Val(ts[n - j + 1])]])>>
            \o [j \in 1..n |-> Make(1 + j, PNames[j], M(Var("a"), "pop", <<>>))] \o Use(s, vars, 10)
       [] rt = "mixedreturn" ->
            <<[k |-> "def", id |-> 1, d |-> 10, n |-> "g", site |-> 0, ps |-> <<"k">>, pd |-> <<11>>, psites |-> <<0>>,
               b |-> [j \in 1..n |-> If(20 + 2 * j, Bin("na", Var("k"), Num(4 * j)), <<Ret(21 + 2 * j, Val(ts[j]))>>)] \o <<Ret(30, Num(0))>>]>>
            \o [j \in 1..n |-> Make(1 + j, PNames[j], G("g", <<Num(4 * j)>>))] \o Use(s, vars, 40)
       [] rt = "callresult" ->      \* the operand is the result of a call: a temporary
            <<[k |-> "def", id |-> 1, d |-> 10, n |-> "id", site |-> 0, ps |-> <<"v">>, pd |-> <<11>>, psites |-> <<0>>, b |-> <<Ret(2, Var("v"))>>]>>
            \o Use(s, [j \in 1..n |-> G("id", <<Val(ts[j])>>)], 10)
       [] rt = "popdirect" ->       \* the operand is `a.pop()` itself
            <<Make(1, "a", [k |-> "arr", es |-> [j \in 1..n |-> Val(ts[n - j + 1])]])>> \o Use(s, [j \in 1..n |-> M(Var("a"), "pop", <<>>)], 10)
       [] rt = "reassign" ->
            [j \in 1..(2 * n) |-> IF j % 2 = 1 THEN Make(j, PNames[(j + 1) \div 2], Num(12)) ELSE Set(j, PNames[j \div 2], Val(ts[j \div 2]))]
            \o Use(s, vars, 40)

TypeSeqs(n) == CASE n = 1 -> {<<a>> : a \in Types} [] n = 2 -> {<<a, b>> : a \in Types, b \in Types}
                 [] n = 3 -> {<<a, b, c>> : a \in Types, b \in {"num", "str", "null"}, c \in {"num", "str", "arr"}}
\* method-like sites also get a process_command receiver
RecvSeqs(s) == IF s.key[1] \in {"method", "builder", "member", "method-missing-arg"}
               THEN {[ts EXCEPT ![1] = "cmd"] : ts \in TypeSeqs(s.n)} ELSE {}
\* operand sequences with at least one extreme number (sites with one or two operands; two routes)
ExtSeqs(n) == CASE n = 1 -> {<<a>> : a \in ExtTypes}
                [] n = 2 -> {<<a, b>> : a \in Types \cup ExtTypes, b \in Types \cup ExtTypes} \ {<<a, b>> : a \in Types, b \in Types}
                [] OTHER -> {}
Cases == UNION {{[s |-> s, ts |-> ts, rt |-> rt] : ts \in TypeSeqs(s.n) \cup RecvSeqs(s), rt \in Routes} : s \in Sites}
         \cup UNION {{[s |-> s, ts |-> ts, rt |-> rt] : ts \in ExtSeqs(s.n), rt \in {"param", "callresult"}} : s \in Sites}

VARIABLES c, prog, m, fuel
vars == <<c, prog, m, fuel>>
Init == \E x \in Cases : c = x /\ prog = S!Resolve(Prog(x.s, x.ts, x.rt)) /\ m = Init0(prog, NoSkip) /\ fuel = 300
Next == m.st = "run" /\ fuel > 0 /\ m' = Step(m) /\ fuel' = fuel - 1 /\ UNCHANGED <<c, prog>>
Spec == Init /\ [][Next]_vars
Finished == m.st # "run" \/ fuel = 0
Emit == Finished => PrintT(ToJson([tag |-> "CASE", prog |-> prog, st |-> IF m.st = "run" THEN "Fuel" ELSE m.st,
                                   why |-> IF m.st \in {"Unspecified", "Unmodelled"} THEN m.e[2] ELSE "",
                                   out |-> m.out, ev |-> <<>>, site |-> c.s.key, types |-> c.ts, route |-> c.rt]))
MachineOk == DoneClean(m) /\ EnvWellFormed(m)
=============================================================================
