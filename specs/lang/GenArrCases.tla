---------------------------- MODULE GenArrCases ----------------------------
(***************************************************************************)
(* `arraycases` profile (C05, C02, C04): two families of array scenarios   *)
(* that need more statements than the exhaustive array profiles reach,     *)
(* enumerated over their parameters.                                       *)
(*  REC   a recursive function f(k) with a local array (or its array       *)
(*        parameter) that it mutates IN PLACE after the recursive call     *)
(*        returned - several live activations own an array of the same     *)
(*        declaration; mutation in {push, pop, reverse, indexed store,     *)
(*        nested indexed store}; every activation prints its array.        *)
(*  SHARE an array holding strings COMPUTED at run time is passed to a     *)
(*        function; the callee changes the CALLER's (captured) array -     *)
(*        overwrite / push / pop - then stores other computed strings      *)
(*        (which may recycle the released storage) and finally reads its   *)
(*        own parameter, which must be unchanged; also through a nested    *)
(*        array, and with the copy made by `make b get a` instead of a     *)
(*        call.                                                            *)
(***************************************************************************)
EXTENDS LangDyn, Json, IOUtils
S == INSTANCE LangStatic
Num(c) == [k |-> "num", v |-> 4 * c]
Var(x) == [k |-> "var", n |-> x, site |-> 0]
StrL(s) == [k |-> "str", segs |-> <<[k |-> "lit", v |-> s]>>]
Bin(op, l, r) == [k |-> "bin", op |-> op, l |-> l, r |-> r]
Fresh(c) == Bin("add", StrL(<<116, 48 + c>>), StrL(<<45, 120>>))         \* "t<c>" add "-x" : computed, 5 bytes
Arr(es) == [k |-> "arr", es |-> es]
Idx(a, i) == [k |-> "idx", a |-> a, i |-> i]
G(f, as) == [k |-> "call", f |-> f, site |-> 0, as |-> as]
M(o, mm, as) == [k |-> "mcall", o |-> o, m |-> mm, as |-> as]
Make(id, x, e) == [k |-> "make", id |-> id, d |-> 10 * id, n |-> x, site |-> 0, e |-> e]
SetI(id, x, is, e) == [k |-> "seti", id |-> id, n |-> x, site |-> 0, is |-> is, e |-> e]
ExprS(id, e) == [k |-> "expr", id |-> id, e |-> e]
Shout(id, e) == ExprS(id, G("shout", <<e>>))
Ret(id, e) == [k |-> "ret", id |-> id, e |-> e]
If(id, c, t) == [k |-> "if", id |-> id, c |-> c, t |-> t, f |-> <<>>]
Def(id, name, ps, body) == [k |-> "def", id |-> id, d |-> 10 * id, n |-> name, site |-> 0, ps |-> ps,
                            pd |-> [j \in 1..Len(ps) |-> 10 * id + j], psites |-> [j \in 1..Len(ps) |-> 0], b |-> body]
Muts == {"push", "pop", "reverse", "store", "nested-store", "nested-push"}
Mut(id, x, mm, v) ==
  CASE mm = "push" -> ExprS(id, M(Var(x), "push", <<v>>))
    [] mm = "pop" -> ExprS(id, M(Var(x), "pop", <<>>))
    [] mm = "reverse" -> ExprS(id, M(Var(x), "reverse", <<>>))
    [] mm = "store" -> SetI(id, x, <<Num(0)>>, v)
    [] mm = "nested-store" -> SetI(id, x, <<Num(1), Num(0)>>, v)
    [] mm = "nested-push" -> ExprS(id, M(Idx(Var(x), Num(1)), "push", <<v>>))
\* REC(owner, mm, when): owner = "local" | "param"; the mutation happens "after" or "before" the recursive call
Rec(owner, mm, when, depth) ==
  LET x == IF owner = "local" THEN "a" ELSE "p"
      init == Arr(<<Var("k"), Arr(<<Num(9)>>)>>)
      call == IF owner = "local" THEN ExprS(5, G("f", <<Bin("minus", Var("k"), Num(1))>>))
              ELSE ExprS(5, G("f", <<Bin("minus", Var("k"), Num(1)), Var("p")>>))
      mut == Mut(6, x, mm, Bin("add", Var("k"), Num(10)))
      body == <<If(2, Bin("lt", Var("k"), Num(1)), <<Ret(3, Num(0))>>)>>
              \o (IF owner = "local" THEN <<Make(4, "a", init)>> ELSE <<>>)
              \o (IF when = "after" THEN <<call, mut>> ELSE <<mut, call>>)
              \o <<Shout(7, Var(x)), Ret(8, Num(1))>>
  IN IF owner = "local" THEN <<Def(1, "f", <<"k">>, body), ExprS(9, G("f", <<Num(depth)>>))>>
     ELSE <<Def(1, "f", <<"k", "p">>, body), Make(9, "a", Arr(<<Num(7), Arr(<<Num(9)>>)>>)), ExprS(10, G("f", <<Num(depth), Var("a")>>)), Shout(11, Var("a"))>>
\* SHARE(copy, change, refill, nested)
Share(copy, change, refill, nested) ==
  LET a0 == IF nested THEN Arr(<<Arr(<<Fresh(1)>>), Fresh(2)>>) ELSE Arr(<<Fresh(1), Fresh(2)>>)
      chg == CASE change = "store" -> (IF nested THEN SetI(4, "a", <<Num(0), Num(0)>>, Fresh(3)) ELSE SetI(4, "a", <<Num(0)>>, Fresh(3)))
               [] change = "pop" -> ExprS(4, M(Var("a"), "pop", <<>>))
               [] change = "push" -> ExprS(4, M(Var("a"), "push", <<Fresh(3)>>))
               [] change = "whole" -> [k |-> "set", id |-> 4, n |-> "a", site |-> 0, e |-> Arr(<<Fresh(3)>>)]
      fill == CASE refill = "var" -> <<Make(5, "t", Fresh(4))>>
                [] refill = "push" -> <<ExprS(5, M(Var("a"), "push", <<Fresh(4)>>))>>
                [] refill = "two" -> <<Make(5, "t", Fresh(4)), Make(6, "u", Fresh(5))>>
                [] refill = "none" -> <<>>
      tail == <<Shout(7, Var("b")), Shout(8, Var("a"))>>
  IN IF copy = "call"
     THEN <<Make(1, "a", a0), Def(2, "f", <<"b">>, <<chg>> \o fill \o tail \o <<Ret(9, Var("b"))>>), Make(10, "r", G("f", <<Var("a")>>)), Shout(11, Var("r")), Shout(12, Var("a"))>>
     ELSE <<Make(1, "a", a0), Make(2, "b", Var("a")), chg>> \o fill \o tail
\* CAPT(mm, caller): a function `bump` CAPTURES the script array `v` and mutates it through a variable or an index
\* path; it is called while the caller has its own parameter / local / block variable also named `v`.
\* The mutation must land in the array `bump` captured (the declaration the name resolves to in the text).
CaptMuts == Muts \cup {"nested-pop", "nested-reverse"}
CMut(id, mm, val) ==
  CASE mm = "nested-pop" -> ExprS(id, M(Idx(Var("v"), Num(1)), "pop", <<>>))
    [] mm = "nested-reverse" -> ExprS(id, M(Idx(Var("v"), Num(1)), "reverse", <<>>))
    [] OTHER -> Mut(id, "v", mm, val)
Capt(mm, caller, elems) ==
  LET e(c) == IF elems = "str" THEN Fresh(c) ELSE Num(c)
      v0 == Arr(<<e(1), Arr(<<e(2), e(3)>>)>>)
      w0 == Arr(<<e(5), Arr(<<e(6), e(7)>>)>>)
      bump == Def(2, "bump", <<>>, <<CMut(3, mm, e(9)), Ret(4, Num(0))>>)
      tail == <<Shout(30, Var("v"))>>
  IN CASE caller = "param" -> <<Make(1, "v", v0), bump, Def(5, "work", <<"v">>, <<ExprS(6, G("bump", <<>>)), Ret(7, Var("v"))>>),
                                Make(8, "r", G("work", <<w0>>)), Shout(9, Var("r"))>> \o tail
       [] caller = "local" -> <<Make(1, "v", v0), bump, Def(5, "work", <<>>, <<Make(10, "v", w0), ExprS(6, G("bump", <<>>)), Ret(7, Var("v"))>>),
                                Make(8, "r", G("work", <<>>)), Shout(9, Var("r"))>> \o tail
       [] caller = "block" -> <<Make(1, "v", v0), bump, [k |-> "block", id |-> 5, b |-> <<Make(10, "v", w0), ExprS(6, G("bump", <<>>)), Shout(9, Var("v"))>>]>> \o tail
       \* the capturing function is nested in a function that owns `v`; the caller chain has another `v` in between
       [] caller = "nested-owner" -> <<Def(20, "owner", <<>>, <<Make(1, "v", v0), bump, Def(5, "work", <<"v">>, <<ExprS(6, G("bump", <<>>)), Ret(7, Var("v"))>>),
                                                               Make(8, "r", G("work", <<w0>>)), Shout(9, Var("r")), Ret(21, Var("v"))>>),
                                       Shout(30, G("owner", <<>>))>>
\* PENDING(how, change): an array (of computed strings) is read as an EARLIER operand of an unfinished expression; a LATER
\* operand is a call that changes the source array (indexed store / pop / whole re-assignment) and then stores other
\* computed strings of the same size.  The earlier operand is a copy: it keeps its elements.
Pending(how, change, nested) ==
  LET a0 == IF nested THEN Arr(<<Arr(<<Fresh(1)>>), Fresh(2)>>) ELSE Arr(<<Fresh(1), Fresh(2)>>)
      chg == CASE change = "store" -> (IF nested THEN SetI(4, "a", <<Num(0), Num(0)>>, Fresh(3)) ELSE SetI(4, "a", <<Num(0)>>, Fresh(3)))
               [] change = "pop" -> ExprS(4, M(Var("a"), "pop", <<>>))
               [] change = "whole" -> [k |-> "set", id |-> 4, n |-> "a", site |-> 0, e |-> Arr(<<Fresh(3)>>)]
               [] change = "reverse-store" -> SetI(4, "a", <<Num(1)>>, Fresh(3))
      clobber == Def(2, "clobber", <<>>, <<chg, Make(5, "t", Fresh(4)), Make(6, "u", Fresh(5)), Ret(7, Fresh(6))>>)
      first == Def(8, "first", <<"x", "y">>, <<Ret(9, Var("x"))>>)
  IN <<Make(1, "a", a0), clobber, first>> \o
     (CASE how = "literal" -> <<Make(10, "b", Arr(<<Var("a"), G("clobber", <<>>)>>)), Shout(11, Var("b"))>>
        [] how = "args" -> <<Shout(11, G("first", <<Var("a"), G("clobber", <<>>)>>))>>
        [] how = "element-args" -> <<Shout(11, G("first", <<Idx(Var("a"), Num(0)), G("clobber", <<>>)>>))>>
        [] how = "nested-literal" -> <<Make(10, "b", Arr(<<Arr(<<Var("a")>>), G("clobber", <<>>)>>)), Shout(11, Var("b"))>>)
     \o <<Shout(12, Var("a"))>>
\* REDECL(where, grow): an array variable is declared TWICE in the same block (the second `make` re-uses the slot), then grown
\* by pushes inside a loop whose body also creates other computed strings, then read.
Loop(id, c, b) == [k |-> "loop", id |-> id, c |-> c, b |-> b]
Set(id, x, e) == [k |-> "set", id |-> id, n |-> x, site |-> 0, e |-> e]
Redecl(where, second, n) ==
  LET a2 == CASE second = "literal" -> Arr(<<Fresh(2)>>) [] second = "copy" -> Var("z") [] second = "empty" -> Arr(<<>>)
      body == <<Make(1, "z", Arr(<<Fresh(7), Fresh(8)>>)), Make(2, "a", Arr(<<Fresh(1)>>)), Make(3, "a", a2), Make(4, "i", Num(0)),
                Loop(5, Bin("lt", Var("i"), Num(n)), <<Set(6, "i", Bin("add", Var("i"), Num(1))), ExprS(7, M(Var("a"), "push", <<Fresh(3)>>)),
                                                      Make(8, "t", Arr(<<Fresh(4), Fresh(5), Fresh(6)>>))>>),
                Shout(9, Var("a")), Shout(10, Var("z"))>>
  IN IF where = "top" THEN body ELSE <<Def(20, "run", <<>>, body \o <<Ret(21, Var("a"))>>), Shout(22, G("run", <<>>))>>
\* PUSHCALL(src, where): the array pushed onto another is the RESULT OF A CALL written in place (`rows.push(line.split(","))`,
\* a user function's result, another array's pop()), inside a loop or a function, followed by other computed strings, then read
PushCall(src, where) ==
  LET line == Bin("add", StrL(<<97, 44>>), StrL(<<98, 44, 99>>))                       \* "a," add "b,c" : computed
      arg == CASE src = "split" -> M(Var("line"), "split", <<StrL(<<44>>)>>)
               [] src = "user" -> G("mk", <<>>)
               [] src = "pop" -> M(Var("src"), "pop", <<>>)
      pre == <<Make(1, "line", line), Def(2, "mk", <<>>, <<Ret(3, Arr(<<Fresh(1), Fresh(2)>>))>>),
               Make(4, "src", Arr(<<Arr(<<Fresh(3)>>), Arr(<<Fresh(4)>>), Arr(<<Fresh(5)>>)>>)), Make(5, "rows", Arr(<<>>))>>
      step == <<ExprS(10, M(Var("rows"), "push", <<arg>>)), Make(11, "t", Arr(<<Fresh(6), Fresh(7)>>))>>
  IN CASE where = "loop" -> pre \o <<Make(6, "i", Num(0)), Loop(7, Bin("lt", Var("i"), Num(2)), <<Set(8, "i", Bin("add", Var("i"), Num(1)))>> \o step), Shout(12, Var("rows"))>>
       [] where = "function" -> pre \o <<Def(6, "add1", <<>>, step \o <<Ret(9, Num(0))>>), ExprS(7, G("add1", <<>>)), ExprS(8, G("add1", <<>>)), Shout(12, Var("rows"))>>
       [] where = "top" -> pre \o step \o <<Shout(12, Var("rows"))>>
Programs ==
       {Redecl(w, sc, n) : w \in {"top", "function"}, sc \in {"literal", "copy", "empty"}, n \in {1, 3}}
  \cup {PushCall(sr, w) : sr \in {"split", "user", "pop"}, w \in {"loop", "function", "top"}}
  \cup {Capt(mm, c, el) : mm \in CaptMuts, c \in {"param", "local", "block", "nested-owner"}, el \in {"num", "str"}}
  \cup {Pending(h, ch, n) : h \in {"literal", "args", "element-args", "nested-literal"}, ch \in {"store", "pop", "whole", "reverse-store"}, n \in {TRUE, FALSE}}
  \cup {Rec(o, mm, w, d) : o \in {"local", "param"}, mm \in Muts, w \in {"after", "before"}, d \in {1, 2}}
  \cup {Share(c, ch, rf, n) : c \in {"call", "make"}, ch \in {"store", "pop", "push", "whole"}, rf \in {"var", "push", "two", "none"}, n \in {TRUE, FALSE}}
VARIABLES prog, m, fuel, hist
vars == <<prog, m, fuel, hist>>
Cfg == [skip |-> {}, skipf |-> {}, env |-> TRUE]
Init == \E p \in Programs : prog = S!Resolve(p) /\ m = Init0(prog, Cfg) /\ fuel = 1500 /\ hist = <<>>
Next == /\ m.st = "run" /\ fuel > 0 /\ m' = Step(m) /\ fuel' = fuel - 1 /\ prog' = prog
        /\ hist' = IF m'.e # <<>> THEN Append(hist, m'.e) ELSE hist
Spec == Init /\ [][Next]_vars
Finished == m.st # "run" \/ fuel = 0
Emit == Finished => PrintT(ToJson([tag |-> "CASE", prog |-> prog, st |-> IF m.st = "run" THEN "Fuel" ELSE m.st,
                                   why |-> IF m.st \in {"Unspecified", "Unmodelled"} THEN m.e[2] ELSE "",
                                   out |-> m.out, ev |-> hist]))
MachineOk == DoneClean(m) /\ EnvWellFormed(m)
=============================================================================
