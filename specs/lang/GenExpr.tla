------------------------------ MODULE GenExpr ------------------------------
(***************************************************************************)
(* Declarative generator for the `expr` profile: every well-typed          *)
(* expression up to a depth, as SET-VALUED definitions by type (a grammar  *)
(* is a function from a type to the phrases of that type).  Each program   *)
(* is                                                                      *)
(*     make n get 0                                                        *)
(*     do t() start n get n add 1  return true end      (a visible effect) *)
(*     shout(E)                                                            *)
(*     shout(n)                                                            *)
(* so that precedence, associativity, left-to-right evaluation and the     *)
(* short-circuit of and/or (how often t() ran) are all observable.         *)
(* Every program is an initial state; the reference machine runs it.       *)
(***************************************************************************)
EXTENDS LangDyn, Json, IOUtils
S == INSTANCE LangStatic
Size == atoi(IOEnv.EXPRSIZE)          \* 0 = one literal per type, 1 = two numbers, 2 = three numbers (incl. 0, 2.5) and ""

Num(c) == [k |-> "num", v |-> c]      \* c in quarters
StrL(s) == [k |-> "str", segs |-> IF s = <<>> THEN <<>> ELSE <<[k |-> "lit", v |-> s]>>]
BoolL(b) == [k |-> "bool", v |-> b]
NullL == [k |-> "null"]
Bin(op, l, r) == [k |-> "bin", op |-> op, l |-> l, r |-> r]
Un(op, e) == [k |-> "un", op |-> op, e |-> e]
CallT == [k |-> "call", f |-> "t", site |-> 0, as |-> <<>>]

Arith == {"add", "minus", "times", "divide", "mod"}
Cmp == {"na", "pass", "lt"}
NumLits == IF Size = 0 THEN {Num(8)} ELSE IF Size = 1 THEN {Num(4), Num(8)} ELSE {Num(0), Num(4), Num(10)}
StrLits == IF Size <= 1 THEN {StrL(<<97>>)} ELSE {StrL(<<>>), StrL(<<97>>)}
BoolLits == {BoolL(TRUE), BoolL(FALSE), CallT}

N0 == NumLits
S0 == StrLits
B0 == BoolLits \cup {NullL}            \* operands of and/or/not: booleans and null
N1 == N0 \cup {Bin(op, l, r) : op \in Arith, l \in N0, r \in N0} \cup {Un("neg", e) : e \in N0}
S1 == S0 \cup {Bin("add", l, r) : l \in S0, r \in S0 \cup N0} \cup {Bin("add", l, r) : l \in N0, r \in S0}
B1 == B0 \cup {Bin(op, l, r) : op \in Cmp, l \in N0, r \in N0}
         \cup {Bin(op, l, r) : op \in Cmp, l \in S0, r \in S0}
         \cup {Bin("na", l, r) : l \in B0, r \in B0}
         \cup {Bin("na", NullL, r) : r \in N0 \cup S0} \cup {Bin("na", l, NullL) : l \in N0 \cup S0}
         \cup {Bin(op, l, r) : op \in {"and", "or"}, l \in B0, r \in B0}
         \cup {Un("not", e) : e \in B0}
N2 == N1 \cup {Bin(op, l, r) : op \in Arith, l \in N1, r \in N1} \cup {Un("neg", e) : e \in N1}
S2 == S1 \cup {Bin("add", l, r) : l \in S1, r \in S1 \cup N1} \cup {Bin("add", l, r) : l \in N1, r \in S1}
B2 == B1 \cup {Bin(op, l, r) : op \in Cmp, l \in N1, r \in N1}
         \cup {Bin(op, l, r) : op \in {"and", "or"}, l \in B1, r \in B1}
         \cup {Un("not", e) : e \in B1}
         \cup {Bin("na", l, r) : l \in B1 \ {NullL}, r \in B1 \ {NullL}}
All == N2 \cup S2 \cup B2

Prog(e) == <<[k |-> "make", id |-> 1, d |-> 10, n |-> "n", site |-> 0, e |-> Num(0)],
             [k |-> "def", id |-> 2, d |-> 20, n |-> "t", site |-> 0, ps |-> <<>>, pd |-> <<>>, psites |-> <<>>,
              b |-> <<[k |-> "set", id |-> 3, n |-> "n", site |-> 0, e |-> Bin("add", [k |-> "var", n |-> "n", site |-> 0], Num(4))],
                      [k |-> "ret", id |-> 4, e |-> BoolL(TRUE)]>>],
             [k |-> "expr", id |-> 5, e |-> [k |-> "call", f |-> "shout", site |-> 0, as |-> <<e>>]],
             [k |-> "expr", id |-> 6, e |-> [k |-> "call", f |-> "shout", site |-> 0, as |-> <<[k |-> "var", n |-> "n", site |-> 0]>>]]>>

VARIABLES prog, m, fuel, hist
vars == <<prog, m, fuel, hist>>
Init == \E e \in All : /\ prog = S!Resolve(Prog(e))
                       /\ m = Init0(prog, NoSkip)
                       /\ fuel = 300 /\ hist = <<>>
Next == /\ m.st = "run" /\ fuel > 0
        /\ m' = Step(m) /\ fuel' = fuel - 1 /\ prog' = prog
        /\ hist' = IF m'.e # <<>> THEN Append(hist, m'.e) ELSE hist
Spec == Init /\ [][Next]_vars
Finished == m.st # "run" \/ fuel = 0
Emit == Finished => PrintT(ToJson([tag |-> "CASE", prog |-> prog, st |-> IF m.st = "run" THEN "Fuel" ELSE m.st,
                                   why |-> IF m.st \in {"Unspecified", "Unmodelled"} THEN m.e[2] ELSE "",
                                   out |-> m.out, ev |-> hist]))
MachineOk == DoneClean(m) /\ EnvWellFormed(m)
\* short circuit, stated on the model: the number of calls of t equals what `n` shows at the end
=============================================================================
