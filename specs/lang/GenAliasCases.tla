--------------------------- MODULE GenAliasCases ---------------------------
(***************************************************************************)
(* `aliascases` profile (C02): a variable holding a string COMPUTED at run *)
(* time is read as the FIRST operand of a construct whose LATER operand    *)
(* calls a function that re-assigns that variable (the old storage is      *)
(* released and may be recycled by the strings the function creates).      *)
(* Left-to-right eager evaluation: the construct must see the OLD value.   *)
(* Constructs: every string operator and comparison, every method with     *)
(* arguments (receiver read first), user-call arguments, array literals,   *)
(* index reads on an array of computed strings, placeholders after the     *)
(* call, a second call.  `swap` variants: assign one / two new computed    *)
(* strings of the same or another length; short and long (> any pool       *)
(* class) strings via IOEnv.LONGSTR.                                       *)
(***************************************************************************)
EXTENDS LangDyn, Json, IOUtils
S == INSTANCE LangStatic
LongTail == IF IOEnv.LONGSTR = "1" THEN [j \in 1..300 |-> 76] ELSE [j \in 1..atoi(IOEnv.LONGSTR) |-> 76]    \* "1" = 300 (legacy), else that many
Num(c) == [k |-> "num", v |-> 4 * c]
Var(x) == [k |-> "var", n |-> x, site |-> 0]
StrL(s) == [k |-> "str", segs |-> <<[k |-> "lit", v |-> s]>>]
Bin(op, l, r) == [k |-> "bin", op |-> op, l |-> l, r |-> r]
Fresh(a, b) == Bin("add", StrL(<<a, b>> \o LongTail), StrL(<<111, 108>>))      \* "<ab>" add "ol" : computed
Arr(es) == [k |-> "arr", es |-> es]
Idx(a, i) == [k |-> "idx", a |-> a, i |-> i]
G(f, as) == [k |-> "call", f |-> f, site |-> 0, as |-> as]
M(o, mm, as) == [k |-> "mcall", o |-> o, m |-> mm, as |-> as]
Make(id, x, e) == [k |-> "make", id |-> id, d |-> 10 * id, n |-> x, site |-> 0, e |-> e]
Set(id, x, e) == [k |-> "set", id |-> id, n |-> x, site |-> 0, e |-> e]
ExprS(id, e) == [k |-> "expr", id |-> id, e |-> e]
Shout(id, e) == ExprS(id, G("shout", <<e>>))
Ret(id, e) == [k |-> "ret", id |-> id, e |-> e]
Def(id, name, ps, body) == [k |-> "def", id |-> id, d |-> 10 * id, n |-> name, site |-> 0, ps |-> ps,
                            pd |-> [j \in 1..Len(ps) |-> 10 * id + j], psites |-> [j \in 1..Len(ps) |-> 0], b |-> body]
\* swap(): re-assign x (and create another string), return a short string
Swaps == {"one", "two", "make"}
Swap(v) == Def(2, "swap", <<>>,
                 (CASE v = "one" -> <<Set(3, "x", Fresh(119, 49))>>
                    [] v = "two" -> <<Set(3, "x", Fresh(119, 49)), Set(4, "x", Fresh(119, 50))>>
                    [] v = "make" -> <<Set(3, "x", Fresh(119, 49)), Make(4, "t", Fresh(122, 122))>>)
                 \o <<Ret(5, StrL(<<111>>))>>)                                  \* returns "o"
Two == Def(6, "two", <<"p", "q">>, <<Ret(7, Bin("add", Var("p"), Var("q")))>>)
X == Var("x")
C == G("swap", <<>>)
Uses == {Bin("add", X, C), Bin("na", X, C), Bin("lt", X, C), Bin("pass", X, C),
         M(X, "replace", <<C, StrL(<<48>>)>>), M(X, "replace", <<StrL(<<111>>), C>>), M(X, "find", <<C>>), M(X, "split", <<C>>),
         M(M(X, "split", <<StrL(<<111>>)>>), "join", <<C>>),
         G("two", <<X, C>>), Arr(<<X, C>>), Arr(<<X, C, X>>), Bin("add", Bin("add", X, C), X)}
Prog(u, sw) == <<Make(1, "x", Fresh(104, 101)), Swap(sw), Two, Shout(10, u), Shout(11, X),
                 Shout(12, [k |-> "str", segs |-> <<[k |-> "lit", v |-> <<60>>], [k |-> "var", n |-> "x", site |-> 0]>>])>>
\* the same through an array of computed strings
ArrProg(sw) == <<Make(1, "x", Fresh(104, 101)), Make(8, "a", Arr(<<Fresh(97, 49), Fresh(97, 50)>>)),
                 Def(2, "swap", <<>>, <<[k |-> "seti", id |-> 3, n |-> "a", site |-> 0, is |-> <<Num(0)>>, e |-> Fresh(119, 49)],
                                        Make(4, "t", Fresh(122, 122)), Ret(5, Num(IF sw = "one" THEN 0 ELSE 1))>>),
                 Shout(10, Bin("add", Idx(Var("a"), Num(0)), Idx(Var("a"), G("swap", <<>>)))), Shout(11, Var("a"))>>
\* RETDERIVED(how, recv, use): a function RETURNS DIRECTLY a string derived from an owned (computed) string it holds - a piece
\* of split(), a slice, a trimmed / upper-cased / replaced copy, an element popped from an array of computed strings - and the
\* caller combines the results of two calls (the second call re-uses the first call's frame) or keeps one across other work.
Line == Bin("add", StrL(<<108, 97, 44, 97, 98>> \o LongTail), StrL(<<44, 99, 100>>))       \* "la,ab" add ",cd" : computed "la,ab,cd"
Derived(how, r) ==
  CASE how = "split" -> Idx(M(r, "split", <<StrL(<<44>>)>>), Var("n"))
    [] how = "slice" -> M(r, "slice", <<Var("n"), Num(4)>>)
    [] how = "trim" -> M(r, "trim", <<>>)
    [] how = "upper" -> M(r, "to_uppercase", <<>>)
    [] how = "replace" -> M(r, "replace", <<StrL(<<97>>), StrL(<<122, 122>>)>>)
    [] how = "pop" -> M(M(r, "split", <<StrL(<<44>>)>>), "pop", <<>>)
    [] how = "interp" -> [k |-> "str", segs |-> <<[k |-> "lit", v |-> <<60>>], [k |-> "var", n |-> "line", site |-> 0], [k |-> "lit", v |-> <<62>>]>>]
RetDerived(how, recv, use) ==
  LET r == Var("line")
      pick == CASE recv = "local" -> Def(2, "pick", <<"n">>, <<Make(3, "line", Line), Ret(4, Derived(how, r))>>)
                [] recv = "param" -> Def(2, "pick", <<"n", "line">>, <<Ret(4, Derived(how, r))>>)
                [] recv = "loop" -> Def(2, "pick", <<"n">>, <<Make(3, "line", Line), Make(5, "i", Num(0)),
                                      [k |-> "loop", id |-> 6, c |-> Bin("lt", Var("i"), Num(1)), b |-> <<Ret(4, Derived(how, r))>>], Ret(7, StrL(<<>>))>>)
      call(n) == IF recv = "param" THEN G("pick", <<Num(n), Line>>) ELSE G("pick", <<Num(n)>>)
  IN <<pick>> \o
     (CASE use = "concat" -> <<Shout(10, Bin("add", call(0), call(1)))>>
        [] use = "keep" -> <<Make(10, "a", call(0)), Make(11, "b", call(1)), Make(12, "t", Fresh(113, 114)), Shout(13, Var("a")), Shout(14, Var("b"))>>
        [] use = "array" -> <<Make(10, "a", [k |-> "arr", es |-> <<call(0), call(1)>>]), Make(12, "t", Fresh(113, 114)), Shout(13, Var("a"))>>)
Programs == {Prog(u, sw) : u \in Uses, sw \in Swaps} \cup {ArrProg(sw) : sw \in {"one", "two"}}
            \cup {RetDerived(h, rc, u) : h \in {"split", "slice", "trim", "upper", "replace", "pop", "interp"}, rc \in {"local", "param", "loop"}, u \in {"concat", "keep", "array"}}
VARIABLES prog, m, fuel, hist
vars == <<prog, m, fuel, hist>>
Init == \E p \in Programs : prog = S!Resolve(p) /\ m = Init0(prog, NoSkip) /\ fuel = 800 /\ hist = <<>>
Next == /\ m.st = "run" /\ fuel > 0 /\ m' = Step(m) /\ fuel' = fuel - 1 /\ prog' = prog
        /\ hist' = IF m'.e # <<>> THEN Append(hist, m'.e) ELSE hist
Spec == Init /\ [][Next]_vars
Finished == m.st # "run" \/ fuel = 0
Emit == Finished => PrintT(ToJson([tag |-> "CASE", prog |-> prog, st |-> IF m.st = "run" THEN "Fuel" ELSE m.st,
                                   why |-> IF m.st \in {"Unspecified", "Unmodelled"} THEN m.e[2] ELSE "",
                                   out |-> m.out, ev |-> hist]))
MachineOk == DoneClean(m) /\ EnvWellFormed(m)
=============================================================================
