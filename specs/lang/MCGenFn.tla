---- MODULE MCGenFn ----
EXTENDS LangGen
MCP == [names |-> {"x"}, funs |-> {"f", "g"}, arity |-> [f \in {"f", "g"} |-> 1], ty |-> "num",
        kinds |-> {"make", "set", "shout", "call", "def", "ret", "if", "loop", "varvar"},
        prelude |-> <<>>, preDecl |-> {}, ops |-> {"add"}, maxStmts |-> atoi(IOEnv.MAXSTMTS), minStmts |-> 2, maxDepth |-> atoi(IOEnv.MAXDEPTH), fuel |-> 1200, events |-> atoi(IOEnv.EVENTS)]
====
