----------------------------- MODULE GenBuiltin -----------------------------
(***************************************************************************)
(* `builtin` profile: every documented global function and method applied  *)
(* to a small argument domain; each program is `shout(<call>)`.            *)
(* docs/STRINGS.md, NUMBERS.md, ARRAYS.md, BUILTIN_FUNCTIONS.md.           *)
(***************************************************************************)
EXTENDS LangDyn, Json, IOUtils
S == INSTANCE LangStatic
Num(c) == [k |-> "num", v |-> c]
StrL(s) == [k |-> "str", segs |-> IF s = <<>> THEN <<>> ELSE <<[k |-> "lit", v |-> s]>>]
M(o, m, as) == [k |-> "mcall", o |-> o, m |-> m, as |-> as]
G(f, as) == [k |-> "call", f |-> f, site |-> 0, as |-> as]
Arr(es) == [k |-> "arr", es |-> es]

\* "" a ab aba " a " (with tab) é Ab a,b 你
Strs == {<<>>, <<97>>, <<97, 98>>, <<97, 98, 97>>, <<32, 97, 9>>, <<233>>, <<65, 98>>, <<97, 44, 98>>, <<98, 233, 97>>, <<20320, 97>>}
Needles == {<<97>>, <<98>>, <<97, 98>>, <<44>>, <<233>>, <<120>>, <<97, 97>>}
NumStrs == {<<49, 50>>, <<50, 46, 53>>, <<45, 51>>, <<48, 46, 50, 53>>, <<55>>}
Bounds == {-12, -4, 0, 4, 8, 20, 2, 6, -2, -6, -10}     \* -3 -1 0 1 2 5 0.5 1.5 -0.5 -1.5 -2.5 (floored, then counted from the end)
Nums == {-10, -4, 0, 4, 9, 16, 11, 64, 1, -1, 100}    \* -2.5 -1 0 1 2.25 4 2.75 16 .25 -.25 25

Calls ==
       {M(StrL(s), "len", <<>>) : s \in Strs}
  \cup {M(StrL(s), "slice", <<Num(a), Num(b)>>) : s \in Strs, a \in Bounds, b \in Bounds}
  \cup {M(StrL(s), "find", <<StrL(n)>>) : s \in Strs, n \in Needles \cup {<<>>}}
  \cup {M(StrL(s), "replace", <<StrL(o), StrL(n)>>) : s \in Strs, o \in Needles, n \in {<<>>, <<97>>, <<120, 121>>}}
  \cup {M(StrL(s), "split", <<StrL(p)>>) : s \in Strs, p \in Needles}
  \cup {M(M(StrL(s), "split", <<StrL(p)>>), "join", <<StrL(p)>>) : s \in Strs, p \in Needles}
  \cup {M(StrL(s), m, <<>>) : s \in Strs, m \in {"trim", "to_uppercase", "to_lowercase"}}
  \cup {M(StrL(s), "to_number", <<>>) : s \in NumStrs}
  \cup {M(Num(q), m, <<>>) : q \in Nums, m \in {"abs", "floor", "ceil", "round", "sqrt"}}
  \cup {M(Arr(<<Num(4), StrL(<<97>>), [k |-> "bool", v |-> TRUE], [k |-> "null"]>>), "join", <<StrL(p)>>) : p \in {<<>>, <<44>>, <<45, 45>>}}
  \cup {M(Arr(es), "len", <<>>) : es \in {<<>>, <<Num(4)>>, <<Num(4), Arr(<<>>)>>}}
  \cup {G("typeof", <<v>>) : v \in {Num(4), StrL(<<97>>), [k |-> "bool", v |-> FALSE], [k |-> "null"], Arr(<<>>)}}
  \cup {G("to_string", <<v>>) : v \in {Num(4), Num(10), Num(-3), StrL(<<97>>), [k |-> "bool", v |-> FALSE], [k |-> "null"]}}

Prog(e) == <<[k |-> "expr", id |-> 1, e |-> G("shout", <<e>>)]>>
VARIABLES prog, m, fuel
vars == <<prog, m, fuel>>
Init == \E e \in Calls : prog = S!Resolve(Prog(e)) /\ m = Init0(prog, NoSkip) /\ fuel = 100
Next == m.st = "run" /\ fuel > 0 /\ m' = Step(m) /\ fuel' = fuel - 1 /\ prog' = prog
Spec == Init /\ [][Next]_vars
Finished == m.st # "run" \/ fuel = 0
Emit == Finished => PrintT(ToJson([tag |-> "CASE", prog |-> prog, st |-> IF m.st = "run" THEN "Fuel" ELSE m.st,
                                   why |-> IF m.st \in {"Unspecified", "Unmodelled"} THEN m.e[2] ELSE "",
                                   out |-> m.out, ev |-> <<>>]))
MachineOk == DoneClean(m) /\ EnvWellFormed(m)
=============================================================================
