------------------------------ MODULE LangGen ------------------------------
(***************************************************************************)
(* Program generator + reference run, in one specification.                *)
(*                                                                         *)
(* Phase "gen": TLC builds every well-formed program of a bounded grammar, *)
(* one statement per transition.  The state is a stack of OPEN BLOCKS;     *)
(* a production appends a simple statement to the innermost open block,    *)
(* opens a nested construct (block / if / else / loop / function), or      *)
(* closes the innermost one.  The generator is scope-aware: a reference    *)
(* may only name a variable or function that is lexically visible at that  *)
(* point (functions are promised when their block is opened - hoisting -   *)
(* and the block may only be closed once every promised function has been  *)
(* defined).  Simple expressions come from set-valued operators of the     *)
(* lexical context (Exprs, Conds).                                         *)
(*                                                                         *)
(* Phase "run": the finished program is resolved (LangStatic!Resolve) and  *)
(* executed by the reference machine (LangDyn!Step), one step per state;   *)
(* when it stops, one JSON record is printed: the program and what the     *)
(* documented semantics says it does.  The harness renders each program,   *)
(* runs it through the real pipeline and compares.                         *)
(*                                                                         *)
(* The profile P chooses vocabulary and bounds (see the MC*.cfg files).    *)
(***************************************************************************)
EXTENDS LangDyn, Json, IOUtils
S == INSTANCE LangStatic

CONSTANT P
\* P = [ names    : set of variable names the program may declare
\*       funs     : set of function names;  arity : [funs -> 0..1]
\*       ty       : "num" | "str"            type of every variable (kept, as C01 requires)
\*       kinds    : subset of {"make","make0","set","shout","call","block","if","else","loop",
\*                             "def","ret","brk","cont","dead"}
\*       maxStmts, maxDepth, fuel
\*       ops      : set of binary operators usable in simple expressions
\*       events   : 0 | 1 | 2 ]

VARIABLES phase, stk, n, prog, m, fuel, hist, inj
vars == <<phase, stk, n, prog, m, fuel, hist, inj>>

\* ---------- tree constructors (annotation fields present, filled by Resolve) ----------
Num(c) == [k |-> "num", v |-> 4 * c]
Lit(s) == [k |-> "lit", v |-> s]
\* "s<c>"; with IOEnv.LONGSTR = "1" followed by 300 x "L": longer than any pool size class, so the
\* string lives in arena-fallback storage instead of a recyclable slot
LongTail == IF IOEnv.LONGSTR = "1" THEN [j \in 1..300 |-> 76] ELSE [j \in 1..atoi(IOEnv.LONGSTR) |-> 76]    \* "1" = 300 (legacy), else that many
StrC(c) == [k |-> "str", segs |-> <<Lit(<<115>> \o NatCps(c) \o LongTail)>>]
Var(x) == [k |-> "var", n |-> x, site |-> 0]
Bin(op, l, r) == [k |-> "bin", op |-> op, l |-> l, r |-> r]
Call(f, as) == [k |-> "call", f |-> f, site |-> 0, as |-> as]
Interp(x) == [k |-> "str", segs |-> <<Lit(<<60>>), [k |-> "var", n |-> x, site |-> 0], Lit(<<62>>)>>]   \* "<{x}>"
Interp2(x, y) == [k |-> "str", segs |-> <<[k |-> "var", n |-> x, site |-> 0], Lit(<<124>>), [k |-> "var", n |-> y, site |-> 0]>>]   \* "{x}|{y}"
Idx(a, i) == [k |-> "idx", a |-> a, i |-> i]
MCall(o, mm, as) == [k |-> "mcall", o |-> o, m |-> mm, as |-> as]
ArrE(es) == [k |-> "arr", es |-> es]
SetI(id, x, is, e) == [k |-> "seti", id |-> id, n |-> x, site |-> 0, is |-> is, e |-> e]
Make(id, x, e) == [k |-> "make", id |-> id, d |-> 10 * id, n |-> x, site |-> 0, e |-> e]
Make0(id, x) == [k |-> "make0", id |-> id, d |-> 10 * id, n |-> x, site |-> 0]
Set(id, x, e) == [k |-> "set", id |-> id, n |-> x, site |-> 0, e |-> e]
ExprS(id, e) == [k |-> "expr", id |-> id, e |-> e]
Shout(id, e) == ExprS(id, Call("shout", <<e>>))
Ret(id, e) == [k |-> "ret", id |-> id, e |-> e]
Brk(id) == [k |-> "brk", id |-> id]
Cont(id) == [k |-> "cont", id |-> id]

\* ---------- lexical context, derived from the stack of open blocks ----------
\* entry = [kind, id, stmts, decl : set of names, funs : set promised, defd : set defined, hdr]
Visible == UNION {stk[j].decl : j \in 1..Len(stk)}
VisibleFuns == UNION {stk[j].funs : j \in 1..Len(stk)}
Cur == stk[Len(stk)]
\* innermost enclosing function / loop (a function boundary hides the loops outside it)
InnerKinds == [j \in 1..Len(stk) |-> stk[j].kind]
LastIdx(kind) == LET J == {j \in 1..Len(stk) : stk[j].kind = kind} IN IF J = {} THEN 0 ELSE CHOOSE j \in J : \A q \in J : q <= j
InFun == LastIdx("def") > 0
InLoop == LastIdx("loop") > LastIdx("def")
CounterName(depth) == CASE depth = 1 -> "i1" [] depth = 2 -> "i2" [] depth = 3 -> "i3" [] OTHER -> "i4"
Counters == {"i1", "i2", "i3", "i4"}
NumOnly == Counters \cup {"k"}                 \* loop counters and the parameter k are numbers in every profile
ArrNames == {"a", "b"}                          \* by convention these names hold arrays (of the profile's type)
Assignable == Visible \ (NumOnly \cup ArrNames)
VisArr == Visible \cap ArrNames

\* simple expressions of the profile's type that are well-formed here; `c` makes literals distinct
\* a call from inside a function passes `k minus 1`; with the guard that opens every one-parameter
\* number function (`if to say (k small pass 1) start return .. end`) recursion is bounded by construction.
\* In the `str` profile a one-parameter function takes a string `s`.
\* with "freshatoms" a string atom is a concatenation computed at run time (pooled storage), not a literal
Atom(c) == IF P.ty = "num" THEN Num(c) ELSE IF "freshatoms" \in P.kinds THEN Bin("add", StrC(c), StrC(0)) ELSE StrC(c)
ScalarVars == Visible \ ((IF P.ty = "str" THEN NumOnly ELSE {}) \cup ArrNames)
CallArgSets(f, c) == IF P.arity[f] = 0 THEN {<<>>}
                     ELSE IF P.ty = "str" THEN {<<Atom(c)>>} \cup {<<Var(x)>> : x \in ScalarVars} \cup {<<Bin("add", Var(x), Atom(c))>> : x \in ScalarVars \cap (IF "argcat" \in P.kinds THEN ScalarVars ELSE {})}
                     ELSE IF "k" \in Visible THEN {<<Bin("minus", Var("k"), Num(1))>>} ELSE {<<Num(0)>>, <<Num(2)>>}
Calls(c) == IF "arrfn" \in P.kinds THEN {} ELSE UNION {{Call(f, as) : as \in CallArgSets(f, c)} : f \in VisibleFuns}
NumVars == IF P.ty = "num" THEN Visible ELSE Visible \cap NumOnly
Exprs(c) ==
  {Atom(c)}
  \cup {Var(x) : x \in ScalarVars}
  \cup Calls(c)
  \cup {Bin(op, Var(x), Atom(c)) : op \in P.ops, x \in Assignable}
  \cup (IF "varvar" \in P.kinds THEN {Bin(op, Var(x), Var(y)) : op \in P.ops, x \in Visible \cap NumOnly, y \in Visible \cap NumOnly} ELSE {})
  \cup (IF "addcall" \in P.kinds THEN {Bin("add", Var(x), e) : x \in Assignable, e \in Calls(c)} ELSE {})
  \cup (IF P.ty = "str" /\ "interp" \in P.kinds THEN {Interp(x) : x \in Assignable} ELSE {})
  \* operations that can fail at run time: division by a variable, a method on a dynamically typed parameter
  \cup (IF "trap" \in P.kinds THEN {Bin(op, Num(c), Var(x)) : op \in {"divide", "mod"}, x \in NumVars} \cup {MCall(Var(x), "len", <<>>) : x \in Visible \cap {"k"}} ELSE {})
  \cup (IF "arr" \in P.kinds THEN {Idx(Var(a), Num(0)) : a \in VisArr} \cup {MCall(Var(a), "pop", <<>>) : a \in VisArr} ELSE {})
\* conditions: comparisons of a visible number with a small constant, or a parameter test
Conds(c) == (IF "dyncond" \in P.kinds THEN {Var(x) : x \in Visible \cap {"k"}} ELSE {}) \cup
            {Bin("lt", Var(x), Num((c % 3) + 1)) : x \in NumVars} \cup {[k |-> "bool", v |-> b] : b \in IF NumVars = {} THEN {TRUE, FALSE} ELSE {}}

Open(kind, id, funs, decl, hdr) == [kind |-> kind, id |-> id, stmts |-> <<>>, decl |-> decl, funs |-> funs, defd |-> {}, hdr |-> hdr]
AddStmt(s) == stk' = [stk EXCEPT ![Len(stk)].stmts = Append(@, s)]
AddDecl(s, x) == stk' = [stk EXCEPT ![Len(stk)].stmts = Append(@, s), ![Len(stk)].decl = @ \cup {x}]
Room == n < P.maxStmts
Deep == Len(stk) < P.maxDepth
Has(kind) == kind \in P.kinds
\* after `return`/`comot`/`next` only the "dead" profile keeps generating in the same block
Live == IF Cur.stmts = <<>> \/ Has("dead") THEN TRUE
        ELSE Cur.stmts[Len(Cur.stmts)].k \notin {"ret", "brk", "cont"}

\* the functions a new block may promise: at most one, and only a name not already visible further out
\* in the same function (keeps the space small; shadowing of functions is exercised by nested blocks)
Promises == {{}} \cup {{f} : f \in P.funs}
\* bodies of if / loop / function promise nothing unless the profile has "nestdef"
BodyPromises == IF "nestdef" \in P.kinds THEN Promises ELSE {{}}

GenSimple ==
  /\ phase = "gen" /\ Room /\ Live
  /\ LET id == n + 1 IN
     \/ /\ Has("make") /\ \E x \in P.names \ ArrNames, e \in Exprs(id) : AddDecl(Make(id, x, e), x)
     \/ /\ Has("make0") /\ \E x \in P.names \ ArrNames : AddDecl(Make0(id, x), x)
     \/ /\ Has("set") /\ \E x \in Assignable, e \in Exprs(id) : AddStmt(Set(id, x, e))
     \/ /\ Has("shout") /\ \E e \in Exprs(id) \ {Atom(id)} : AddStmt(Shout(id, e))
     \/ /\ Has("call") /\ \E e \in Calls(id) : AddStmt(ExprS(id, e))
     \* a literal with two placeholders (each must resolve lexically on its own)
     \/ /\ Has("interp2") /\ \E x \in Visible, y \in Visible : AddStmt(Shout(id, Interp2(x, y)))
     \* type juggling: a variable declared at one type is re-assigned at another (accepted by the checker)
     \/ /\ Has("juggle") /\ \E x \in Assignable : AddStmt(Set(id, x, IF P.ty = "num" THEN StrC(id) ELSE Num(id)))
     \* a same-scope re-declaration at another type, then a use that is only legal at the new type
     \/ /\ Has("redecl") /\ \E use \in {Bin("minus", Var("t"), Num(1)), Bin("lt", Var("t"), Num(1)), [k |-> "un", op |-> "neg", e |-> Var("t")]} :
             AddStmt([k |-> "block", id |-> id, b |-> <<Make(id + 500, "t", StrC(1)), Make(id + 501, "t", Num(2)), Shout(id + 502, use)>>])
     \* a function whose only `return` is NESTED (bare block, if, loop, else, block in block) and a use of its result that is
     \* only legal at the returned type: well-formed, whatever the checker infers about call results
     \/ /\ Has("rettype") /\ n = 0 /\ \E nest \in {"block", "if", "loop", "else", "blockblock"}, ty \in {"str", "num", "arr"} :
             LET val == CASE ty = "str" -> StrC(1) [] ty = "num" -> Num(3) [] ty = "arr" -> ArrE(<<Num(5)>>)
                 ret == Ret(id + 503, val)
                 tt == [k |-> "bool", v |-> TRUE]
                 body == CASE nest = "block" -> <<[k |-> "block", id |-> id + 502, b |-> <<ret>>]>>
                           [] nest = "if" -> <<[k |-> "if", id |-> id + 502, c |-> tt, t |-> <<ret>>, f |-> <<>>]>>
                           [] nest = "loop" -> <<[k |-> "loop", id |-> id + 502, c |-> tt, b |-> <<ret>>]>>
                           [] nest = "else" -> <<[k |-> "if", id |-> id + 502, c |-> [k |-> "bool", v |-> FALSE], t |-> <<Shout(id + 504, Num(1))>>, f |-> <<<<ret>>>>]>>
                           [] nest = "blockblock" -> <<[k |-> "block", id |-> id + 502, b |-> <<[k |-> "block", id |-> id + 505, b |-> <<ret>>]>>]>>
                 call == Call("lab", <<>>)
                 use == CASE ty = "str" -> MCall(call, "len", <<>>) [] ty = "num" -> Bin("minus", call, Num(1)) [] ty = "arr" -> Idx(call, Num(0))
             IN AddStmt([k |-> "block", id |-> id, b |-> <<[k |-> "def", id |-> id + 500, d |-> 10 * (id + 500), n |-> "lab", site |-> 0, ps |-> <<>>, pd |-> <<>>, psites |-> <<>>, b |-> body],
                                                            Shout(id + 501, use)>>])
     \/ /\ Has("ret") /\ InFun /\ \E e \in Exprs(id) : AddStmt(Ret(id, e))
     \* arrays ("arr" = all of these, or the single productions "arr.make" "arr.copy" "arr.push" "arr.seti" "arr.shout")
     \/ /\ (Has("arr") \/ Has("arr.make")) /\ \E a \in ArrNames \cap P.names, e \in Exprs(id) : AddDecl(Make(id, a, ArrE(<<e>>)), a)
     \/ /\ (Has("arr") \/ Has("arr.copy")) /\ \E a \in ArrNames \cap P.names, b \in VisArr : AddDecl(Make(id, a, Var(b)), a)
     \/ /\ (Has("arr") \/ Has("arr.push")) /\ \E a \in VisArr, e \in Exprs(id) : AddStmt(ExprS(id, MCall(Var(a), "push", <<e>>)))
     \/ /\ (Has("arr") \/ Has("arr.seti")) /\ \E a \in VisArr, e \in Exprs(id) : AddStmt(SetI(id, a, <<Num(0)>>, e))
     \/ /\ (Has("arr") \/ Has("arr.shout")) /\ \E a \in VisArr : AddStmt(Shout(id, Var(a)))
     \* nested arrays: literals of depth 2, an array stored in / pushed onto another, writes and mutation at depth 2
     \/ /\ Has("arr2") /\ \E a \in ArrNames \cap P.names : AddDecl(Make(id, a, ArrE(<<ArrE(<<Atom(id)>>), Atom(id + 100)>>)), a)
     \/ /\ Has("arr2") /\ \E a \in VisArr, b \in VisArr : AddStmt(ExprS(id, MCall(Var(a), "push", <<Var(b)>>)))
     \/ /\ Has("arr2") /\ \E a \in VisArr, b \in VisArr : AddStmt(SetI(id, a, <<Num(0)>>, Var(b)))
     \/ /\ Has("arr2") /\ \E a \in VisArr : AddStmt(SetI(id, a, <<Num(0), Num(0)>>, Atom(id)))
     \/ /\ Has("arr2") /\ \E a \in VisArr : AddStmt(ExprS(id, MCall(Idx(Var(a), Num(0)), "push", <<Atom(id)>>)))
     \/ /\ Has("arr2") /\ \E a \in VisArr : \E r \in {Var(a), Idx(Var(a), Num(0))} : AddStmt(ExprS(id, MCall(r, "reverse", <<>>)))
     \/ /\ Has("arr2") /\ \E a \in VisArr : AddStmt(ExprS(id, MCall(Var(a), "pop", <<>>)))
     \/ /\ Has("arr2") /\ \E a \in ArrNames \cap P.names, b \in VisArr : AddDecl(Make(id, a, Idx(Var(b), Num(0))), a)
     \* an array passed to a function that mutates its parameter and returns it
     \/ /\ Has("arrfn") /\ \E a \in ArrNames \cap P.names, b \in VisArr, f \in VisibleFuns : AddDecl(Make(id, a, Call(f, <<Var(b)>>)), a)
     \/ /\ Has("arrfn") /\ \E b \in VisArr, f \in VisibleFuns : AddStmt(ExprS(id, Call(f, <<Var(b)>>)))
     \/ /\ Has("arrfn") /\ InFun /\ \E a \in VisArr : AddStmt(Ret(id, Var(a)))
     \/ /\ Has("brk") /\ InLoop /\ Len(Cur.stmts) >= 1 /\ AddStmt(Brk(id))
     \/ /\ Has("cont") /\ InLoop /\ Len(Cur.stmts) >= 1 /\ AddStmt(Cont(id))
  /\ n' = n + 1
  /\ UNCHANGED <<phase, prog, m, fuel, hist, inj>>

GenOpen ==
  /\ phase = "gen" /\ Room /\ Deep /\ Live
  /\ LET id == n + 1 IN
     \/ /\ Has("block") /\ \E D \in Promises : stk' = Append(stk, Open("block", id, D, {}, <<>>)) /\ n' = n + 1
     \/ /\ Has("if") /\ \E c \in Conds(id), D \in BodyPromises : stk' = Append(stk, Open("if", id, D, {}, [c |-> c])) /\ n' = n + 1
     \/ \* a loop comes with its counter: `make iK get 0` before it, `iK get iK add 1` first in its body
        \* (it counts as three statements, or as one in profiles with "cheaploop")
        /\ Has("loop") /\ n + (IF Has("cheaploop") THEN 1 ELSE 3) <= P.maxStmts
        /\ LET ctr == CounterName(Len(stk))
               cheap == Has("cheaploop")
               mk == Make(IF cheap THEN 6000 + id ELSE id, ctr, Num(0))
               inc == Set(IF cheap THEN 7000 + id ELSE id + 2, ctr, Bin("add", Var(ctr), Num(1)))
               cnd == Bin("lt", Var(ctr), Num(2))
           IN \E D \in BodyPromises :
              stk' = Append([stk EXCEPT ![Len(stk)].stmts = Append(@, mk), ![Len(stk)].decl = @ \cup {ctr}],
                            [Open("loop", IF cheap THEN id ELSE id + 1, D, {}, [c |-> cnd]) EXCEPT !.stmts = <<inc>>])
        /\ n' = n + (IF Has("cheaploop") THEN 1 ELSE 3)
     \/ \* definition of a function this block promised
        /\ Has("def") /\ \E f \in Cur.funs \ Cur.defd :
             LET ps == IF P.arity[f] = 0 THEN <<>> ELSE IF Has("arrfn") THEN <<"b">> ELSE IF P.ty = "str" THEN <<"s">> ELSE <<"k">>
                 guard == [k |-> "if", id |-> 2000 + id, c |-> Bin("lt", Var("k"), Num(1)), t |-> <<Ret(3000 + id, Atom(id))>>, f |-> <<>>]
             IN \E D \in BodyPromises :
                stk' = Append([stk EXCEPT ![Len(stk)].defd = @ \cup {f}],
                              [Open("def", id, D, {ps[j] : j \in 1..Len(ps)}, [f |-> f, ps |-> ps])
                                 EXCEPT !.stmts = IF ps = <<>> \/ P.ty = "str" \/ Has("arrfn") THEN <<>> ELSE <<guard>>])
        /\ n' = n + 1
  /\ UNCHANGED <<phase, prog, m, fuel, hist, inj>>

\* ---------- C09: one violation of one static rule, injected at any position and nesting ----------
\* (profiles with "inject"; `inj` remembers which rule was broken: the expected verdict)
Bad(id, rule) ==
  CASE rule = "undeclared-variable" -> {Shout(id, Var("zz")), Shout(id, Interp("zz")), Shout(id, Interp("zz9")), Shout(id, Interp("z_z")), Shout(id, Var("z9")),
                                        \* the initialiser of a `make` is resolved before its own name is declared
                                        Make(id, "zz", Var("zz")), Make(id, "zz", Bin("add", Var("zz"), Atom(id))), Make(id, "zz", Interp("zz"))}
                                       \cup {ExprS(id, Call(f, <<Var("zz")>>)) : f \in {g \in VisibleFuns : P.arity[g] = 1}}
    [] rule = "assign-undeclared" -> {Set(id, "zz", Atom(id))}
    [] rule = "undeclared-function" -> {ExprS(id, Call("gg", <<>>)), Shout(id, Call("gg", <<Atom(id)>>))}
    [] rule = "arity" -> {ExprS(id, Call(f, IF P.arity[f] = 0 THEN <<Atom(id)>> ELSE <<>>)) : f \in VisibleFuns}
    [] rule = "break-outside-loop" -> IF InLoop THEN {} ELSE {Brk(id)}
    [] rule = "continue-outside-loop" -> IF InLoop THEN {} ELSE {Cont(id)}
    [] rule = "return-outside-function" -> IF InFun THEN {} ELSE {Ret(id, Atom(id))}
    [] rule = "reserved-name" -> {Make(id, "shout", Atom(id)), Make(id, "typeof", Atom(id))}
    [] rule = "type" -> {Shout(id, Bin("minus", StrC(1), Num(1))), Shout(id, Bin("lt", StrC(1), Num(1))), Shout(id, Bin("and", Num(1), [k |-> "bool", v |-> TRUE])),
                         Shout(id, [k |-> "un", op |-> "not", e |-> Num(1)]), Shout(id, [k |-> "un", op |-> "neg", e |-> StrC(1)]),
                         [k |-> "if", id |-> id, c |-> Num(1), t |-> <<Shout(id + 500, Num(1))>>, f |-> <<>>],
                         Shout(id, Idx(Num(1), Num(0))), Shout(id, Idx(ArrE(<<Num(1)>>), StrC(1))),
                         \* a process command as a condition / operand
                         [k |-> "if", id |-> id, c |-> Call("command", <<StrC(1)>>), t |-> <<Shout(id + 500, Num(1))>>, f |-> <<>>],
                         [k |-> "loop", id |-> id, c |-> Call("command", <<StrC(1)>>), b |-> <<[k |-> "brk", id |-> id + 500]>>],
                         [k |-> "block", id |-> id, b |-> <<Make(id + 500, "j", Call("command", <<StrC(1)>>)), [k |-> "loop", id |-> id + 501, c |-> Var("j"), b |-> <<[k |-> "brk", id |-> id + 502]>>]>>],
                         \* a same-scope re-declaration changes the variable's static type
                         [k |-> "block", id |-> id, b |-> <<Make(id + 500, "t", Num(1)), Make(id + 501, "t", StrC(1)), Shout(id + 502, Bin("minus", Var("t"), Num(1)))>>],
                         [k |-> "block", id |-> id, b |-> <<Make(id + 500, "t", Num(1)), Make(id + 501, "t", StrC(1)), Shout(id + 502, [k |-> "un", op |-> "neg", e |-> Var("t")])>>]}
    [] rule = "method" -> {Shout(id, MCall(StrC(1), "push", <<Num(1)>>)), Shout(id, MCall(ArrE(<<Num(1)>>), "trim", <<>>)), Shout(id, MCall(Num(1), "split", <<StrC(1)>>)),
                           Shout(id, MCall(StrC(1), "abs", <<>>)), Shout(id, MCall(ArrE(<<Num(1)>>), "floor", <<>>)),
                           [k |-> "block", id |-> id, b |-> <<Make(id + 500, "t", StrC(1)), ExprS(id + 501, MCall(Var("t"), "push", <<Num(1)>>))>>],
                           [k |-> "block", id |-> id, b |-> <<Make(id + 500, "t", ArrE(<<Num(1)>>)), Shout(id + 501, MCall(Var("t"), "to_uppercase", <<>>))>>]}
    [] OTHER -> {}
Rules == {"method", "undeclared-variable", "assign-undeclared", "undeclared-function", "arity", "break-outside-loop", "continue-outside-loop",
          "return-outside-function", "reserved-name", "type", "duplicate-function", "duplicate-parameter"}
GenInject ==
  /\ phase = "gen" /\ Has("inject") /\ inj = "none" /\ Room /\ Live
  /\ LET id == n + 1 IN
     \/ \E rule \in Rules \ {"duplicate-function", "duplicate-parameter"} : \E s \in Bad(id, rule) : AddStmt(s) /\ inj' = rule
     \/ \* a second definition of a function this block has already defined
        /\ Cur.defd # {} /\ \E f \in Cur.defd :
             AddStmt([k |-> "def", id |-> id, d |-> 10 * id, n |-> f, site |-> 0, ps |-> <<>>, pd |-> <<>>, psites |-> <<>>, b |-> <<Ret(id + 500, Atom(id))>>])
        /\ inj' = "duplicate-function"
     \/ /\ AddStmt([k |-> "def", id |-> id, d |-> 10 * id, n |-> "dd", site |-> 0, ps |-> <<"k", "k">>, pd |-> <<10 * id + 1, 10 * id + 2>>, psites |-> <<0, 0>>,
                      b |-> <<Ret(id + 500, Atom(id))>>])
        /\ inj' = "duplicate-parameter"
  /\ n' = n + 1
  /\ UNCHANGED <<phase, prog, m, fuel, hist>>

Wrap(e) ==
  CASE e.kind = "block" -> [k |-> "block", id |-> e.id, b |-> e.stmts]
    [] e.kind = "if" -> [k |-> "if", id |-> e.id, c |-> e.hdr.c, t |-> e.stmts, f |-> <<>>]
    [] e.kind = "else" -> [k |-> "if", id |-> e.id, c |-> e.hdr.c, t |-> e.hdr.t, f |-> <<e.stmts>>]
    [] e.kind = "loop" -> [k |-> "loop", id |-> e.id, c |-> e.hdr.c, b |-> e.stmts]
    \* every function ends with a `return` of the profile's type, so that calls have that type
    [] e.kind = "def" -> [k |-> "def", id |-> e.id, d |-> 10 * e.id, n |-> e.hdr.f, site |-> 0, ps |-> e.hdr.ps,
                          pd |-> [j \in 1..Len(e.hdr.ps) |-> 10 * e.id + j], psites |-> [j \in 1..Len(e.hdr.ps) |-> 0],
                          b |-> Append(e.stmts, Ret(1000 + e.id, IF Has("arrfn") THEN Var("b") ELSE Atom(e.id)))]
Closable(e) == e.funs \subseteq e.defd /\ (e.stmts # <<>> \/ Has("empty"))

GenClose ==
  /\ phase = "gen" /\ Len(stk) > 1 /\ Closable(Cur)
  /\ LET e == Cur  below == SubSeq(stk, 1, Len(stk) - 1) IN
     \/ stk' = [below EXCEPT ![Len(below)].stmts = Append(@, Wrap(e))]
     \/ \* `if` continues with `if not so`
        /\ e.kind = "if" /\ Has("else")
        /\ stk' = Append(below, Open("else", e.id, {}, {}, [c |-> e.hdr.c, t |-> e.stmts]))
  /\ UNCHANGED <<phase, n, prog, m, fuel, hist, inj>>

Cfg == [skip |-> {}, skipf |-> {}, env |-> P.events >= 2]
GenFinish ==
  /\ phase = "gen" /\ Len(stk) = 1 /\ Closable(Cur) /\ n >= P.minStmts
  /\ phase' = "run"
  /\ prog' = S!Resolve(Cur.stmts)
  /\ m' = Init0(prog', Cfg)
  /\ fuel' = P.fuel
  /\ stk' = <<>>
  /\ UNCHANGED <<n, hist, inj>>

Run ==
  /\ phase = "run" /\ m.st = "run" /\ fuel > 0
  /\ m' = Step(m)
  /\ fuel' = fuel - 1
  /\ hist' = IF P.events >= 1 /\ m'.e # <<>> THEN Append(hist, m'.e) ELSE hist
  /\ UNCHANGED <<phase, stk, n, prog, inj>>

Init == /\ phase = "gen" /\ n = 0 /\ prog = <<>> /\ fuel = 0 /\ hist = <<>> /\ inj = "none"
        /\ m = [st |-> "none"]
        \* a profile may fix a prelude: statements (with the names they declare) every program starts with
        \* ... and may start inside an already open loop (`preLoop`): make i1 get 0 / jasi (i1 small pass 2) start i1 get i1 add 1 ...
        /\ \E D \in Promises :
             LET root == [Open("root", 0, D, P.preDecl, <<>>) EXCEPT !.stmts = P.prelude] IN
             IF "preLoop" \in P.kinds
             THEN stk = <<[root EXCEPT !.stmts = Append(@, Make(901, "i1", Num(0))), !.decl = @ \cup {"i1"}],
                          [Open("loop", 902, {}, {}, [c |-> Bin("lt", Var("i1"), Num(2))])
                             EXCEPT !.stmts = <<Set(903, "i1", Bin("add", Var("i1"), Num(1)))>>]>>
             ELSE stk = <<root>>
Next == GenSimple \/ GenOpen \/ GenClose \/ GenInject \/ GenFinish \/ Run
Spec == Init /\ [][Next]_vars

Finished == phase = "run" /\ (m.st # "run" \/ fuel = 0)
Emit == Finished => PrintT(ToJson([tag |-> "CASE", prog |-> prog, st |-> IF m.st = "run" THEN "Fuel" ELSE m.st,
                                   why |-> IF m.st \in {"Unspecified", "Unmodelled"} THEN m.e[2] ELSE "",
                                   out |-> m.out, used |-> m.used, ev |-> hist, inj |-> inj, static |-> S!Check(prog)]))
\* properties of the reference machine, checked on every state of every run
MachineOk == phase = "run" => DoneClean(m) /\ EnvWellFormed(m)
OutGrows == [][phase = "run" /\ phase' = "run" => Len(m.out) <= Len(m'.out) /\ SubSeq(m'.out, 1, Len(m.out)) = m.out]_vars
\* every generated program resolves completely: the generator is scope-aware
RECURSIVE ExprResolved(_), StmtsResolved(_)
ExprResolved(e) ==
  CASE e.k = "var" -> e.site > 0
    [] e.k = "str" -> \A j \in 1..Len(e.segs) : e.segs[j].k = "lit" \/ e.segs[j].site > 0
    [] e.k = "bin" -> ExprResolved(e.l) /\ ExprResolved(e.r)
    [] e.k = "call" -> e.site >= 0 /\ \A j \in 1..Len(e.as) : ExprResolved(e.as[j])
    [] OTHER -> TRUE
StmtsResolved(ss) == \A j \in 1..Len(ss) : LET s == ss[j] IN
  CASE s.k \in {"make", "set", "expr", "ret"} -> ExprResolved(s.e) /\ (s.k \in {"make", "set"} => s.site > 0)
    [] s.k = "if" -> ExprResolved(s.c) /\ StmtsResolved(s.t) /\ (s.f = <<>> \/ StmtsResolved(s.f[1]))
    [] s.k = "loop" -> ExprResolved(s.c) /\ StmtsResolved(s.b)
    [] s.k \in {"block", "def"} -> StmtsResolved(s.b)
    [] OTHER -> TRUE
\* the static semantics agrees with how the program was built: well-formed => accepted, one injected violation => exactly that category
StaticAgrees == phase = "run" /\ fuel = P.fuel => S!Check(prog) = (IF inj = "none" THEN {} ELSE {inj})
GeneratedAreResolved == phase = "run" /\ fuel = P.fuel /\ inj = "none" => StmtsResolved(prog)
=============================================================================
