---- MODULE MCGenDeadDef ----
(* `deaddef` profile (C04, C03): function definitions that sit AFTER a `return` in their block (dead
   code for the control flow, but still hoisted: visible throughout the block, also before), nested
   definitions that shadow outer ones, forward calls. *)
EXTENDS LangGen
MCP == [names |-> {}, funs |-> {"f", "g"}, arity |-> [f \in {"f", "g"} |-> 0], ty |-> "num",
        kinds |-> {"shout", "call", "def", "ret", "dead", "nestdef", "empty"},
        prelude |-> <<>>, preDecl |-> {}, ops |-> {},
        maxStmts |-> atoi(IOEnv.MAXSTMTS), minStmts |-> 3, maxDepth |-> 3, fuel |-> 150, events |-> atoi(IOEnv.EVENTS)]
====
