---------------------------- MODULE GenTemplate ----------------------------
(***************************************************************************)
(* `template` profile: string literals with {name} placeholders next to    *)
(* plain text, escapes (\t \n \" \\) and multi-byte characters, with       *)
(* variables of every scalar type.  docs/STRINGS.md: "interpolate with     *)
(* braces".  Each program declares the variables and prints one literal.   *)
(***************************************************************************)
EXTENDS LangDyn, Json, IOUtils
S == INSTANCE LangStatic
Lit(s) == [k |-> "lit", v |-> s]
V(x) == [k |-> "var", n |-> x, site |-> 0]
Lits == {<<97>>, <<9>>, <<34, 113, 34>>, <<97, 92, 98>>, <<233, 10>>, <<32>>}
\* identifier shapes: a digit inside, an underscore inside, a leading underscore, a digit between letters
Vars == {"x1", "s_t", "_b", "z9z"}
Shapes == {<<V(x)>> : x \in Vars}
     \cup {<<Lit(l), V(x)>> : l \in Lits, x \in Vars}
     \cup {<<V(x), Lit(l)>> : l \in Lits, x \in Vars}
     \cup {<<Lit(l), V(x), Lit(r)>> : l \in Lits, r \in {<<97>>, <<9>>}, x \in Vars}
     \cup {<<V(x), V(y)>> : x \in Vars, y \in Vars}
     \cup {<<V(x), Lit(l), V(y)>> : x \in {"x1", "s_t"}, y \in {"_b", "s_t"}, l \in Lits}
Make(id, x, e) == [k |-> "make", id |-> id, d |-> 10 * id, n |-> x, site |-> 0, e |-> e]
Prog(segs) == <<Make(1, "x1", [k |-> "num", v |-> 10]),
                Make(2, "s_t", [k |-> "str", segs |-> <<Lit(<<115, 116>>)>>]),
                Make(3, "_b", [k |-> "bool", v |-> TRUE]),
                Make(4, "z9z", [k |-> "null"]),
                [k |-> "expr", id |-> 5, e |-> [k |-> "call", f |-> "shout", site |-> 0, as |-> <<[k |-> "str", segs |-> segs]>>]]>>
VARIABLES prog, m, fuel
vars == <<prog, m, fuel>>
Init == \E sh \in Shapes : prog = S!Resolve(Prog(sh)) /\ m = Init0(prog, NoSkip) /\ fuel = 200
Next == m.st = "run" /\ fuel > 0 /\ m' = Step(m) /\ fuel' = fuel - 1 /\ prog' = prog
Spec == Init /\ [][Next]_vars
Finished == m.st # "run" \/ fuel = 0
Emit == Finished => PrintT(ToJson([tag |-> "CASE", prog |-> prog, st |-> IF m.st = "run" THEN "Fuel" ELSE m.st,
                                   why |-> IF m.st \in {"Unspecified", "Unmodelled"} THEN m.e[2] ELSE "",
                                   out |-> m.out, ev |-> <<>>]))
MachineOk == DoneClean(m) /\ EnvWellFormed(m)
=============================================================================
