---- MODULE MCGenArr ----
(* `array` profile (C05): two array names, values of depth <= 2; copy, store into another array, push,
   pop, reverse, nested indexed write and nested mutation, optionally inside a loop iteration. *)
EXTENDS LangGen
PreAtom(c) == IF IOEnv.ARRTY = "num" THEN Num(c) ELSE StrC(c)      \* (the profile record cannot refer to P itself)
MCP == [names |-> {"a", "b"}, funs |-> {}, arity |-> <<>>, ty |-> IOEnv.ARRTY,
        kinds |-> {"arr", "arr2"} \cup (IF IOEnv.ARRLOOP = "1" THEN {"preLoop"} ELSE {}),
        prelude |-> IF IOEnv.ARRLOOP = "1" THEN <<Make(900, "a", ArrE(<<ArrE(<<PreAtom(7)>>), PreAtom(8)>>))>> ELSE <<>>,
        preDecl |-> IF IOEnv.ARRLOOP = "1" THEN {"a"} ELSE {}, ops |-> {},
        maxStmts |-> atoi(IOEnv.MAXSTMTS), minStmts |-> 2, maxDepth |-> atoi(IOEnv.MAXDEPTH), fuel |-> 800, events |-> atoi(IOEnv.EVENTS)]
====
