---- MODULE MCGenMemRet ----
(* `memret` profile (C02): a one-parameter function that returns its parameter / a local / a
   concatenation, called with a COMPUTED temporary (`f(x add "..")`), a variable or a literal; the
   result is stored, printed, concatenated.  With IOEnv.LONGSTR = "1" all strings are longer than
   the largest pool class. *)
EXTENDS LangGen
MCP == [names |-> {"x"}, funs |-> {"f"}, arity |-> [f \in {"f"} |-> 1], ty |-> "str",
        kinds |-> {"set", "shout", "def", "ret", "argcat", "addcall"},
        prelude |-> <<Make(900, "x", [k |-> "str", segs |-> <<Lit(<<115, 48>> \o LongTail)>>])>>, preDecl |-> {"x"}, ops |-> {"add"},
        maxStmts |-> atoi(IOEnv.MAXSTMTS), minStmts |-> 3, maxDepth |-> 2, fuel |-> 200, events |-> atoi(IOEnv.EVENTS)]
====
