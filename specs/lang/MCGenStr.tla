---- MODULE MCGenStr ----
EXTENDS LangGen
MCP == [names |-> {"x", "y"}, funs |-> {"f"}, arity |-> [f \in {"f"} |-> 0], ty |-> "str",
        kinds |-> {"interp", "make", "set", "shout", "call", "def", "ret", "block", "loop"},
        prelude |-> <<>>, preDecl |-> {}, ops |-> {"add"}, maxStmts |-> atoi(IOEnv.MAXSTMTS), minStmts |-> 2, maxDepth |-> atoi(IOEnv.MAXDEPTH), fuel |-> 500, events |-> atoi(IOEnv.EVENTS)]
====
