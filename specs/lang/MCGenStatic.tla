---- MODULE MCGenStatic ----
(* `static` profile (C09): every well-formed program of a scope-like grammar (blocks, if, loops,
   functions, functions inside loops, loops inside functions) and every single violation of one
   static rule injected at every position of those programs. *)
EXTENDS LangGen
MCP == [names |-> {"x"}, funs |-> {"f"}, arity |-> [f \in {"f"} |-> IF IOEnv.ARITY = "1" THEN 1 ELSE 0], ty |-> "num",
        kinds |-> {"make", "shout", "block", "if", "loop", "def", "inject", "call", "cheaploop", "nestdef", "redecl", "rettype"},
        prelude |-> <<>>, preDecl |-> {}, ops |-> {},
        maxStmts |-> atoi(IOEnv.MAXSTMTS), minStmts |-> 1, maxDepth |-> atoi(IOEnv.MAXDEPTH), fuel |-> 300, events |-> 0]
====
