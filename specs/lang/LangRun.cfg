SPECIFICATION Spec
INVARIANT Emit
INVARIANT MachineOk
PROPERTY OutGrows
CHECK_DEADLOCK FALSE
