---- MODULE MCGenTrap ----
(* `trap` profile (C03): declarations and assignments that nobody reads but whose right-hand side can
   fail at run time (division by a variable that is 0, a method on a dynamically typed parameter):
   pruning them would remove the runtime error. *)
EXTENDS LangGen
MCP == [names |-> {"x", "y"}, funs |-> {"f"}, arity |-> [f \in {"f"} |-> 1], ty |-> "num",
        kinds |-> {"make", "set", "shout", "call", "def", "trap"} \cup (IF IOEnv.TRAPVAR = "1" THEN {"juggle", "dyncond", "if", "empty"} ELSE {}),
        prelude |-> <<Make(900, "x", Num(0))>>, preDecl |-> {"x"}, ops |-> IF IOEnv.TRAPVAR = "1" THEN {"minus"} ELSE {},
        maxStmts |-> atoi(IOEnv.MAXSTMTS), minStmts |-> 2, maxDepth |-> 2, fuel |-> 600, events |-> atoi(IOEnv.EVENTS)]
====
