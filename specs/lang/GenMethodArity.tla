--------------------------- MODULE GenMethodArity ---------------------------
(***************************************************************************)
(* `methodarity` family (C07, C06): the STATIC counterpart of GenDyn's     *)
(* table.  Every member built-in name of the language (string, number,     *)
(* array, process command and process result methods, plus a name that is  *)
(* no method) is called with 0..3 arguments (numbers or strings) on a      *)
(* receiver of every STATICALLY KNOWN type, written as a literal or held   *)
(* in a variable, and once without the call parentheses.  The checker has  *)
(* to answer - accept or reject - without panicking, and whatever it       *)
(* accepts must not crash the runtime.  (`run` is left out: nothing is     *)
(* spawned by this family.)                                                *)
(***************************************************************************)
EXTENDS Integers, Sequences, TLC, Json
Num(c) == [k |-> "num", v |-> 4 * c]
StrL(s) == [k |-> "str", segs |-> <<[k |-> "lit", v |-> s]>>]
Var(x) == [k |-> "var", n |-> x, site |-> 0]
G(f, as) == [k |-> "call", f |-> f, site |-> 0, as |-> as]
M(o, mm, as) == [k |-> "mcall", o |-> o, m |-> mm, as |-> as]
Make(id, x, e) == [k |-> "make", id |-> id, d |-> 10 * id, n |-> x, site |-> 0, e |-> e]
ExprS(id, e) == [k |-> "expr", id |-> id, e |-> e]
Shout(id, e) == ExprS(id, G("shout", <<e>>))
Types == {"num", "str", "bool", "null", "arr", "arrstr", "cmd"}
Val(t) == CASE t = "num" -> Num(2) [] t = "str" -> StrL(<<97, 44, 98>>) [] t = "bool" -> [k |-> "bool", v |-> TRUE] [] t = "null" -> [k |-> "null"]
            [] t = "arr" -> [k |-> "arr", es |-> <<Num(1), Num(2)>>] [] t = "arrstr" -> [k |-> "arr", es |-> <<StrL(<<97>>), StrL(<<98>>)>>]
            [] t = "cmd" -> G("command", <<StrL(<<101, 99, 104, 111>>)>>)
Methods == {"len", "slice", "to_uppercase", "to_lowercase", "find", "replace", "trim", "to_number", "split",
            "abs", "sqrt", "floor", "ceil", "round", "push", "pop", "reverse", "join",
            "arg", "cwd", "env", "stdin_text", "stdin_inherit", "stdin_null", "stdout_capture", "stdout_inherit", "stdout_null",
            "stderr_capture", "stderr_inherit", "stderr_null", "timeout_ms", "success", "exit_code", "stdout", "stderr", "nosuch"}
Args(n, a) == [j \in 1..n |-> IF a = "num" THEN Num(j) ELSE StrL(<<120>>)]
Programs ==
       {<<Shout(2, M(Val(t), mm, Args(n, a)))>> : t \in Types, mm \in Methods, n \in 0..3, a \in {"num", "str"}}
  \cup {<<Make(1, "r", Val(t)), Shout(2, M(Var("r"), mm, Args(n, a)))>> : t \in Types, mm \in Methods, n \in 0..3, a \in {"num", "str"}}
  \cup {<<Make(1, "r", Val(t)), Shout(2, [k |-> "member", o |-> Var("r"), m |-> mm])>> : t \in Types, mm \in Methods}
VARIABLE p
Init == p \in Programs
Next == UNCHANGED p
Spec == Init /\ [][Next]_p
Emit == PrintT(ToJson([tag |-> "CASE", prog |-> p]))
=============================================================================
