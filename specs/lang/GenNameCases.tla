---------------------------- MODULE GenNameCases ----------------------------
(***************************************************************************)
(* `namecases` family (C04): which DEFINITION a function name and a        *)
(* variable name reach, when a same-named function / variable of another   *)
(* block is live on the call chain.                                        *)
(* A top-level function `count` (self-recursive / mutually recursive with  *)
(* `step` / flat) reads the script variable `v`; `measure(n)` calls it.    *)
(* A CONTAINER (block, function body, loop body, if body, function nested  *)
(* in a function) defines ITS OWN `count` (flat or self-recursive) and its *)
(* own `v`, before or after the statements that use them (a function is    *)
(* visible throughout its block), calls `count` (must reach the inner one) *)
(* and `measure` (whose `count` must reach the top-level one, and whose    *)
(* recursive step must stay there).  Afterwards the script calls both      *)
(* again.  A runtime that finds functions or variables by NAME on the      *)
(* dynamic chain gets some of these wrong.                                 *)
(***************************************************************************)
EXTENDS LangDyn, Json, IOUtils
S == INSTANCE LangStatic
Num(c) == [k |-> "num", v |-> 4 * c]
Var(x) == [k |-> "var", n |-> x, site |-> 0]
Bin(op, l, r) == [k |-> "bin", op |-> op, l |-> l, r |-> r]
G(f, as) == [k |-> "call", f |-> f, site |-> 0, as |-> as]
Make(id, x, e) == [k |-> "make", id |-> id, d |-> 10 * id, n |-> x, site |-> 0, e |-> e]
Set(id, x, e) == [k |-> "set", id |-> id, n |-> x, site |-> 0, e |-> e]
ExprS(id, e) == [k |-> "expr", id |-> id, e |-> e]
Shout(id, e) == ExprS(id, G("shout", <<e>>))
Ret(id, e) == [k |-> "ret", id |-> id, e |-> e]
If(id, c, t) == [k |-> "if", id |-> id, c |-> c, t |-> t, f |-> <<>>]
Def(id, name, ps, body) == [k |-> "def", id |-> id, d |-> 10 * id, n |-> name, site |-> 0, ps |-> ps,
                            pd |-> [j \in 1..Len(ps) |-> 10 * id + j], psites |-> [j \in 1..Len(ps) |-> 0], b |-> body]
Less1 == Bin("minus", Var("n"), Num(1))
Base(id, e) == If(id, Bin("lt", Var("n"), Num(1)), <<Ret(id + 1, e)>>)
\* the top-level function(s)
Outer(rec) ==
  CASE rec = "self" -> <<Def(2, "count", <<"n">>, <<Base(3, Var("v")), Ret(5, Bin("add", Num(1), G("count", <<Less1>>)))>>)>>
    [] rec = "mutual" -> <<Def(2, "count", <<"n">>, <<Base(3, Var("v")), Ret(5, Bin("add", Num(1), G("step", <<Var("n")>>)))>>),
                           Def(6, "step", <<"n">>, <<Ret(7, G("count", <<Less1>>))>>)>>
    [] rec = "flat" -> <<Def(2, "count", <<"n">>, <<Ret(3, Bin("add", Var("v"), Var("n")))>>)>>
    \* the recursive step also writes the script variable (an assignment must land in the same declaration)
    [] rec = "self-write" -> <<Def(2, "count", <<"n">>, <<Base(3, Var("v")), Set(5, "v", Bin("add", Var("v"), Num(10))),
                                                          Ret(6, Bin("add", Num(1), G("count", <<Less1>>)))>>)>>
Inner(kind) ==
  CASE kind = "flat" -> Def(20, "count", <<"n">>, <<Ret(21, Bin("add", Num(100), Var("n")))>>)
    [] kind = "rec" -> Def(20, "count", <<"n">>, <<Base(21, Num(100)), Ret(23, G("count", <<Less1>>))>>)
    [] kind = "reads-v" -> Def(20, "count", <<"n">>, <<Ret(21, Bin("add", Var("v"), Bin("add", Num(100), Var("n"))))>>)
Body(kind, order, var) ==
  LET decl == IF var = "shadow" THEN <<Make(24, "v", Num(50))>> ELSE <<>>
      uses == <<Shout(25, G("count", <<Num(2)>>)), Shout(26, G("measure", <<Num(2)>>))>>
  IN IF order = "before" THEN <<Inner(kind)>> \o decl \o uses ELSE decl \o uses \o <<Inner(kind)>>
Container(c, body) ==
  CASE c = "block" -> <<[k |-> "block", id |-> 30, b |-> body]>>
    [] c = "function" -> <<Def(30, "report", <<>>, body \o <<Ret(31, Num(0))>>), ExprS(32, G("report", <<>>))>>
    [] c = "loop" -> <<Make(30, "i", Num(0)), [k |-> "loop", id |-> 31, c |-> Bin("lt", Var("i"), Num(1)), b |-> <<Set(32, "i", Bin("add", Var("i"), Num(1)))>> \o body]>>
    [] c = "if" -> <<If(30, Bin("lt", Num(0), Num(1)), body)>>
    [] c = "nestedfun" -> <<Def(30, "outer", <<>>, <<Def(33, "report", <<>>, body \o <<Ret(34, Num(0))>>), ExprS(35, G("report", <<>>)), Ret(36, Num(0))>>),
                            ExprS(37, G("outer", <<>>))>>
    \* the container is entered from INSIDE the top-level recursion's caller chain: report() is called by a function called by the script
    [] c = "called-deep" -> <<Def(30, "report", <<>>, body \o <<Ret(31, Num(0))>>), Def(33, "run", <<>>, <<Ret(34, G("report", <<>>))>>), ExprS(35, G("run", <<>>))>>
Prog(rec, c, kind, order, var) ==
  <<Make(1, "v", Num(0))>> \o Outer(rec) \o <<Def(8, "measure", <<"n">>, <<Ret(9, G("count", <<Var("n")>>))>>)>>
  \o Container(c, Body(kind, order, var)) \o <<Shout(40, G("measure", <<Num(1)>>)), Shout(41, G("count", <<Num(1)>>)), Shout(42, Var("v"))>>
\* SHADOWRET: a parameter / a variable of the body has the NAME of an outer variable of another type and is returned;
\* the call result is used at the type it really has.  (Whatever a checker infers about `return n` must be about the
\* inner n.)
StrL(cs) == [k |-> "str", segs |-> <<[k |-> "lit", v |-> cs]>>]
ShadowRet(outerTy, how, where) ==
  LET outerV == IF outerTy = "str" THEN StrL(<<116, 120>>) ELSE Num(7)
      innerV == IF outerTy = "str" THEN Num(5) ELSE StrL(<<97, 98>>)
      ret == IF how = "expr" THEN (IF outerTy = "str" THEN Bin("add", Var("n"), Num(1)) ELSE Bin("add", Var("n"), StrL(<<99>>))) ELSE Var("n")
      f == IF how = "local" THEN Def(2, "f", <<>>, <<Make(4, "n", innerV), Ret(3, ret)>>) ELSE Def(2, "f", <<"n">>, <<Ret(3, ret)>>)
      call == IF how = "local" THEN G("f", <<>>) ELSE G("f", <<innerV>>)
      use == IF outerTy = "str" THEN Shout(5, Bin("minus", call, Num(1))) ELSE Shout(5, [k |-> "mcall", o |-> call, m |-> "len", as |-> <<>>])
  IN IF where = "top" THEN <<Make(1, "n", outerV), f, use, Shout(6, Var("n"))>>
     ELSE <<Make(1, "n", outerV), [k |-> "block", id |-> 7, b |-> <<f, use>>], Shout(6, Var("n"))>>
\* RECTDZ: a nested function captures a local of its enclosing RECURSIVE function and is called by a deeper activation
\* before that activation's own `make` has run.  The variable it names is the deeper activation's (not made yet: the
\* run ends with the use-before-declaration error), never the slot of the older activation further down the stack.
RecTdz(kind) ==
  LET v0 == IF kind = "push" THEN [k |-> "arr", es |-> <<Var("n")>>] ELSE Var("n")
      gbody == CASE kind = "read" -> <<Ret(6, Var("v"))>>
                 [] kind = "assign" -> <<Set(6, "v", Bin("add", Var("v"), Num(100))), Ret(7, Var("v"))>>
                 [] kind = "push" -> <<ExprS(6, [k |-> "mcall", o |-> Var("v"), m |-> "push", as |-> <<Num(99)>>]), Ret(7, Var("v"))>>
  IN <<Def(1, "f", <<"n">>, <<If(2, Bin("na", Var("n"), Num(0)), <<Ret(3, G("g", <<>>))>>),
                              Make(4, "v", v0), Def(5, "g", <<>>, gbody),
                              Make(8, "r", G("f", <<Bin("minus", Var("n"), Num(1))>>)), Shout(9, Var("v")), Ret(10, Var("r"))>>),
       Shout(11, G("f", <<Num(1)>>))>>
Programs == {RecTdz(kd) : kd \in {"read", "assign", "push"}} \cup
            {ShadowRet(ty, how, wh) : ty \in {"str", "num"}, how \in {"param", "local", "expr"}, wh \in {"top", "block"}} \cup
            {Prog(rec, c, kind, order, var) : rec \in {"self", "mutual", "flat", "self-write"}, c \in {"block", "function", "loop", "if", "nestedfun", "called-deep"},
                                             kind \in {"flat", "rec", "reads-v"}, order \in {"before", "after"}, var \in {"none", "shadow"}}
VARIABLES prog, m, fuel, hist
vars == <<prog, m, fuel, hist>>
EvLevel == atoi(IOEnv.EVENTS)
Init == \E p \in Programs : prog = S!Resolve(p) /\ m = Init0(prog, [skip |-> {}, skipf |-> {}, env |-> EvLevel >= 2]) /\ fuel = 1500 /\ hist = <<>>
Next == /\ m.st = "run" /\ fuel > 0 /\ m' = Step(m) /\ fuel' = fuel - 1 /\ prog' = prog
        /\ hist' = IF EvLevel >= 1 /\ m'.e # <<>> THEN Append(hist, m'.e) ELSE hist
Spec == Init /\ [][Next]_vars
Finished == m.st # "run" \/ fuel = 0
Emit == Finished => PrintT(ToJson([tag |-> "CASE", prog |-> prog, st |-> IF m.st = "run" THEN "Fuel" ELSE m.st,
                                   why |-> IF m.st \in {"Unspecified", "Unmodelled"} THEN m.e[2] ELSE "",
                                   out |-> m.out, ev |-> hist]))
MachineOk == DoneClean(m) /\ EnvWellFormed(m)
=============================================================================
