---- MODULE MCGenArrFn ----
(* `arrayfn` profile (C05): an array passed to a function that mutates its parameter and returns it
   (or an element); the caller's array must not change. *)
EXTENDS LangGen
MCP == [names |-> {"a"}, funs |-> {"f"}, arity |-> [f \in {"f"} |-> 1], ty |-> "num",
        kinds |-> {"arr", "arrfn", "def"},
        prelude |-> <<Make(900, "a", ArrE(<<ArrE(<<Num(7)>>), Num(8)>>))>>, preDecl |-> {"a"}, ops |-> {},
        maxStmts |-> atoi(IOEnv.MAXSTMTS), minStmts |-> 3, maxDepth |-> 2, fuel |-> 800, events |-> atoi(IOEnv.EVENTS)]
====
