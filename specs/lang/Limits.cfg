SPECIFICATION Spec
INVARIANT StagedOrder
INVARIANT Emit
CHECK_DEADLOCK FALSE
