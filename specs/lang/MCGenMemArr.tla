---- MODULE MCGenMemArr ----
(* `memarr` profile: strings into and out of arrays (literal, push, indexed store, element read,
   pop, whole-array copy), inside and outside a loop iteration (frame reset between steps). *)
EXTENDS LangGen
MCP == [names |-> {"x", "a", "b"}, funs |-> {}, arity |-> <<>>, ty |-> "str",
        kinds |-> {"interp", "make", "set", "shout", "arr", "loop"},
        prelude |-> <<>>, preDecl |-> {}, ops |-> {"add"}, maxStmts |-> atoi(IOEnv.MAXSTMTS), minStmts |-> 3, maxDepth |-> atoi(IOEnv.MAXDEPTH), fuel |-> 600, events |-> atoi(IOEnv.EVENTS)]
====
