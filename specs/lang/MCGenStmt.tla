---- MODULE MCGenStmt ----
EXTENDS LangGen
MCP == [names |-> {"x"}, funs |-> {}, arity |-> <<>>, ty |-> "num",
        kinds |-> {"make", "set", "shout", "if", "else", "loop", "brk", "cont", "block"},
        prelude |-> <<>>, preDecl |-> {}, ops |-> {"add"}, maxStmts |-> atoi(IOEnv.MAXSTMTS), minStmts |-> 2, maxDepth |-> atoi(IOEnv.MAXDEPTH), fuel |-> 600, events |-> atoi(IOEnv.EVENTS)]
====
