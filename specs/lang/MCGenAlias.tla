---- MODULE MCGenAlias ----
(* `alias` profile: one string variable, one parameterless function that reassigns it; deeper than
   the other memory profiles (tiny vocabulary) so that `shout(x add f())` - the left operand read
   BEFORE the call recycles x's storage - and its relatives are all enumerated. *)
EXTENDS LangGen
MCP == [names |-> {"x"}, funs |-> {"f"}, arity |-> [f \in {"f"} |-> 0], ty |-> "str",
        kinds |-> {"set", "shout", "def", "ret", "addcall"},
        prelude |-> <<Make(900, "x", StrC(0))>>, preDecl |-> {"x"}, ops |-> {}, maxStmts |-> atoi(IOEnv.MAXSTMTS), minStmts |-> 3, maxDepth |-> 2, fuel |-> 400, events |-> atoi(IOEnv.EVENTS)]
====
