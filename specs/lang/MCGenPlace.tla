---- MODULE MCGenPlace ----
(* `placeholder` profile (C04): a literal with TWO placeholders inside a function that is called from
   a block (or another function) holding a same-named variable: every placeholder must resolve
   lexically on its own, never through the caller's stack. *)
EXTENDS LangGen
MCP == [names |-> {"x"}, funs |-> {"f"}, arity |-> [f \in {"f"} |-> 0], ty |-> "num",
        kinds |-> {"make", "call", "def", "block", "interp2"},
        prelude |-> <<Make(900, "x", Num(0))>>, preDecl |-> {"x"}, ops |-> {},
        maxStmts |-> atoi(IOEnv.MAXSTMTS), minStmts |-> 4, maxDepth |-> 3, fuel |-> 150, events |-> atoi(IOEnv.EVENTS)]
====
