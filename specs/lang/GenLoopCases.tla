---------------------------- MODULE GenLoopCases ----------------------------
(***************************************************************************)
(* `loopcases` family (C03): liveness across the jumps of a loop.          *)
(* A flag `f` is assigned immediately before a `next` or `comot` that sits *)
(* under a condition in the loop body.  Who reads that value differs: the  *)
(* loop CONDITION (reached by `next`, not by `comot`), the TOP of the body *)
(* in the next iteration, the code AFTER the loop, or several of them; the *)
(* flag may be recomputed at the top of every iteration (so the assignment *)
(* before the jump is the only one that reaches the reader).  The loop     *)
(* stands alone, inside another loop, or inside a function.  An analysis   *)
(* that sends `next` or `comot` to the wrong block calls the assignment    *)
(* dead and the optimised run loops on or prints an older value.           *)
(***************************************************************************)
EXTENDS LangDyn, Json, IOUtils
S == INSTANCE LangStatic
Num(c) == [k |-> "num", v |-> 4 * c]
Var(x) == [k |-> "var", n |-> x, site |-> 0]
Bin(op, l, r) == [k |-> "bin", op |-> op, l |-> l, r |-> r]
G(f, as) == [k |-> "call", f |-> f, site |-> 0, as |-> as]
Make(id, x, e) == [k |-> "make", id |-> id, d |-> 10 * id, n |-> x, site |-> 0, e |-> e]
Set(id, x, e) == [k |-> "set", id |-> id, n |-> x, site |-> 0, e |-> e]
ExprS(id, e) == [k |-> "expr", id |-> id, e |-> e]
Shout(id, e) == ExprS(id, G("shout", <<e>>))
Ret(id, e) == [k |-> "ret", id |-> id, e |-> e]
If(id, c, t) == [k |-> "if", id |-> id, c |-> c, t |-> t, f |-> <<>>]
Loop(id, c, b) == [k |-> "loop", id |-> id, c |-> c, b |-> b]
Def(id, name, ps, body) == [k |-> "def", id |-> id, d |-> 10 * id, n |-> name, site |-> 0, ps |-> ps,
                            pd |-> [j \in 1..Len(ps) |-> 10 * id + j], psites |-> [j \in 1..Len(ps) |-> 0], b |-> body]
Jump(id, j) == IF j = "next" THEN [k |-> "cont", id |-> id] ELSE [k |-> "brk", id |-> id]
Readers == {"cond", "top", "after", "cond-after", "top-after"}
\* the loop and what follows it; `init` says whether i and f are declared (Make) or re-set (Set) here
Core(j, reader, recompute, deep, init) ==
  LET decl(id, x) == IF init = "make" THEN Make(id, x, Num(0)) ELSE Set(id, x, Num(0))
      cond == IF reader \in {"cond", "cond-after"} THEN Bin("and", Bin("lt", Var("f"), Num(1)), Bin("lt", Var("i"), Num(6)))
              ELSE Bin("lt", Var("i"), Num(6))
      jump == <<Set(9, "f", Num(1)), Jump(10, j)>>
      guarded == If(8, Bin("na", Var("i"), Num(3)), IF deep THEN <<[k |-> "block", id |-> 12, b |-> jump]>> ELSE jump)
      body == <<Set(5, "i", Bin("add", Var("i"), Num(1)))>>
              \o (IF reader \in {"top", "top-after"} THEN <<Shout(6, Var("f"))>> ELSE <<>>)
              \o (IF recompute THEN <<Set(7, "f", Num(0))>> ELSE <<>>)
              \o <<guarded, Shout(11, Var("i"))>>
  IN <<decl(1, "i"), decl(2, "f"), Loop(4, cond, body), Shout(20, Var("i"))>>
     \o (IF reader \in {"after", "cond-after", "top-after"} THEN <<Shout(21, Var("f"))>> ELSE <<>>)
Prog(j, reader, recompute, deep, nest) ==
  CASE nest = "single" -> Core(j, reader, recompute, deep, "make")
    [] nest = "inner" -> <<Make(30, "o", Num(0)), Make(31, "i", Num(0)), Make(32, "f", Num(0)),
                           Loop(33, Bin("lt", Var("o"), Num(2)), <<Set(34, "o", Bin("add", Var("o"), Num(1)))>> \o Core(j, reader, recompute, deep, "set"))>>
    [] nest = "function" -> <<Def(30, "run", <<>>, Core(j, reader, recompute, deep, "make") \o <<Ret(31, Var("i"))>>), Shout(32, G("run", <<>>))>>
\* SCOPEDJOIN: a variable scoped to a block / loop body / if body / function body is declared, RE-ASSIGNED under an inner
\* branch, and read after the branches join - in the stretch where its scope ends (the scope's end kills it: a read before
\* the kill in the same block keeps it alive in the predecessors).
Scoped(cont, branch, val, tail) ==
  LET v == IF val = "const" THEN Num(9) ELSE Bin("add", Var("i"), Num(20))
      set == Set(53, "w", v)
      br == CASE branch = "if" -> <<If(52, Bin("na", Bin("mod", Var("i"), Num(2)), Num(0)), <<set>>)>>
              [] branch = "ifelse" -> <<[k |-> "if", id |-> 52, c |-> Bin("na", Bin("mod", Var("i"), Num(2)), Num(0)), t |-> <<set>>, f |-> <<<<Set(54, "w", Num(3))>>>>]>>
              [] branch = "loop" -> <<Make(55, "q", Num(0)), Loop(52, Bin("lt", Var("q"), Num(1)), <<Set(56, "q", Num(1)), set>>)>>
      rd == IF tail = "direct" THEN <<Shout(57, Var("w"))>> ELSE <<Shout(58, Var("i")), Shout(57, Var("w"))>>
      body == <<Make(51, "w", Num(1))>> \o br \o rd
  IN CASE cont = "block" -> <<Make(40, "i", Num(2)), [k |-> "block", id |-> 41, b |-> body], Shout(42, Var("i"))>>
       [] cont = "loop" -> <<Make(40, "i", Num(0)), Loop(41, Bin("lt", Var("i"), Num(4)), body \o <<Set(43, "i", Bin("add", Var("i"), Num(1)))>>), Shout(42, Var("i"))>>
       [] cont = "if" -> <<Make(40, "i", Num(2)), If(41, Bin("lt", Num(0), Num(1)), body), Shout(42, Var("i"))>>
       [] cont = "function" -> <<Def(41, "run", <<"i">>, body \o <<Ret(44, Var("i"))>>), Shout(42, G("run", <<Num(2)>>)), Shout(45, G("run", <<Num(3)>>))>>
       [] cont = "loop-next" -> <<Make(40, "i", Num(0)), Loop(41, Bin("lt", Var("i"), Num(4)),
                                   <<Set(43, "i", Bin("add", Var("i"), Num(1)))>> \o body \o <<If(46, Bin("na", Var("i"), Num(2)), <<[k |-> "cont", id |-> 47]>>), Shout(48, Var("i"))>>), Shout(42, Var("i"))>>
Programs == {Scoped(c, b, v, t) : c \in {"block", "loop", "if", "function", "loop-next"}, b \in {"if", "ifelse", "loop"}, v \in {"const", "computed"}, t \in {"direct", "later"}} \cup
            {Prog(j, r, rc, d, n) : j \in {"next", "comot"}, r \in Readers, rc \in BOOLEAN, d \in BOOLEAN, n \in {"single", "inner", "function"}}
VARIABLES prog, m, fuel
vars == <<prog, m, fuel>>
Init == \E p \in Programs : prog = S!Resolve(p) /\ m = Init0(prog, NoSkip) /\ fuel = 3000
Next == m.st = "run" /\ fuel > 0 /\ m' = Step(m) /\ fuel' = fuel - 1 /\ prog' = prog
Spec == Init /\ [][Next]_vars
Finished == m.st # "run" \/ fuel = 0
Emit == Finished => PrintT(ToJson([tag |-> "CASE", prog |-> prog, st |-> IF m.st = "run" THEN "Fuel" ELSE m.st,
                                   why |-> IF m.st \in {"Unspecified", "Unmodelled"} THEN m.e[2] ELSE "",
                                   out |-> m.out, used |-> m.used, ev |-> <<>>]))
MachineOk == DoneClean(m) /\ EnvWellFormed(m)
=============================================================================
