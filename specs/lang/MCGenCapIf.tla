---- MODULE MCGenCapIf ----
(* `captureif` profile (C03): like `capture`, with conditionals, so that a store and the call that
   reads it through a captured variable sit in DIFFERENT basic blocks (block-level use/def sets of
   the liveness analysis), and a parameterless function that reads the captured variable. *)
EXTENDS LangGen
MCP == [names |-> {"x"}, funs |-> {"f"}, arity |-> [f \in {"f"} |-> 0], ty |-> "num",
        kinds |-> {"set", "shout", "def", "if"},
        prelude |-> <<Make(900, "x", Num(0))>>, preDecl |-> {"x"}, ops |-> {},
        maxStmts |-> atoi(IOEnv.MAXSTMTS), minStmts |-> 4, maxDepth |-> 3, fuel |-> 120, events |-> atoi(IOEnv.EVENTS)]
====
