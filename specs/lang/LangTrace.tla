----------------------------- MODULE LangTrace -----------------------------
(***************************************************************************)
(* Trace validation (V direction): event traces RECORDED FROM THE REAL     *)
(* RUNTIME (hooks in src/runtime.rs, --cfg naijascript_verif) are checked  *)
(* against the reference machine.  The trace specification reuses the      *)
(* machine's Step; a step that emits an event is only allowed if the next  *)
(* recorded event is that event.  Unlogged steps (everything that emits    *)
(* nothing) are inferred.                                                  *)
(*   IOEnv.CASES  ndjson: {"body": program, "events": [...], "env": 0|1}   *)
(* One initial state per trace.  For each trace a verdict record:          *)
(*   accept | reject (position, what the reference expected there)         *)
(*   skip   (the reference run is Unspecified / Unmodelled at that point)  *)
(*   fuel                                                                  *)
(***************************************************************************)
EXTENDS LangDyn, Json, IOUtils
S == INSTANCE LangStatic
Cases == ndJsonDeserialize(IOEnv.CASES)
Fuel == atoi(IOEnv.FUEL)
VARIABLES i, m, l, fuel, verdict, expected
vars == <<i, m, l, fuel, verdict, expected>>

SameBag(a, b) == /\ Len(a) = Len(b)
                 /\ \A j \in 1..Len(a) : Cardinality({q \in 1..Len(a) : a[q] = a[j]}) = Cardinality({q \in 1..Len(b) : b[q] = a[j]})
\* does recorded event `re` (a record read from JSON) equal machine event `se` (a tuple)?
Matches(se, re) ==
  CASE se[1] = "shout" -> re.ev = "shout" /\ re.v = se[2]
    [] se[1] = "assign" -> re.ev = "assign" /\ re.site = se[2] /\ re.v = se[3]
    [] se[1] = "call" -> re.ev = "call" /\ re.f = se[2] /\ re.site = se[3]
    [] se[1] = "ret" -> re.ev = "ret" /\ re.f = se[2] /\ re.v = se[3]
    [] se[1] = "err" -> re.ev = "err" /\ re.kind = se[2]
    [] se[1] = "end" -> re.ev = "end"
    [] se[1] = "env" -> re.ev = "env" /\ SameBag(se[2], re.vars)
    [] OTHER -> FALSE

Init == /\ i \in 1..Len(Cases)
        /\ m = Init0(S!Resolve(Cases[i].body), [skip |-> {}, skipf |-> {}, env |-> Cases[i].env = 1])
        /\ l = 1 /\ fuel = Fuel /\ verdict = "running" /\ expected = <<>>
Next == /\ verdict = "running"
        /\ i' = i
        /\ IF fuel = 0 THEN verdict' = "fuel" /\ UNCHANGED <<m, l, fuel, expected>>
           ELSE LET m2 == Step(m)  evs == Cases[i].events IN
             /\ fuel' = fuel - 1
             /\ m' = m2
             /\ IF m2.st \in {"Unmodelled", "Unspecified"} THEN l' = l /\ verdict' = "skip" /\ expected' = m2.e
                ELSE IF m2.e = <<>> THEN l' = l /\ verdict' = "running" /\ expected' = <<>>
                ELSE IF l <= Len(evs) /\ Matches(m2.e, evs[l])
                     THEN /\ l' = l + 1 /\ expected' = <<>>
                          /\ verdict' = IF m2.st = "run" THEN "running" ELSE IF l = Len(evs) THEN "accept" ELSE "reject"
                     ELSE l' = l /\ verdict' = "reject" /\ expected' = m2.e
Spec == Init /\ [][Next]_vars
Emit == verdict # "running" => PrintT(ToJson([tag |-> "VERDICT", i |-> i, verdict |-> verdict, l |-> l, expected |-> expected]))
MachineOk == DoneClean(m) /\ EnvWellFormed(m)
=============================================================================
