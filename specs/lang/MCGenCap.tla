---- MODULE MCGenCap ----
(* `capture` profile (C03): one variable, one one-parameter function whose body runs only when its
   argument is positive (the guard returns early otherwise) and may read or write the captured
   variable; overwrites that are dead unless the callee reads them, calls that may or may not
   write, statements after `return`. *)
EXTENDS LangGen
MCP == [names |-> {"x"}, funs |-> {"f"}, arity |-> [f \in {"f"} |-> 1], ty |-> "num",
        kinds |-> {"set", "shout", "call", "def", "dead", "ret"},
        prelude |-> <<Make(900, "x", Num(0))>>, preDecl |-> {"x"}, ops |-> {},
        maxStmts |-> atoi(IOEnv.MAXSTMTS), minStmts |-> 3, maxDepth |-> 2, fuel |-> 600, events |-> atoi(IOEnv.EVENTS)]
====
