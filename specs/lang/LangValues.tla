---------------------------- MODULE LangValues ----------------------------
(***************************************************************************)
(* Values of the reference semantics of NaijaScript.                       *)
(*                                                                         *)
(* Numbers are fixed-point QUARTERS: the integer q denotes q/4.  Every     *)
(* documented integer/decimal example, floor/ceil/abs, whole-index tests   *)
(* and `mod` are exact on quarters.  An operation whose exact result is    *)
(* not a quarter, leaves the range, or that IEEE-754 would make -0, NaN or *)
(* +-inf is reported as "Unmodelled" by the machine and is never used as   *)
(* an oracle.                                                              *)
(* Strings are sequences of Unicode code points.                           *)
(* Arrays are TLA+ sequences, i.e. VALUES: copying is the identity and     *)
(* aliasing is inexpressible (this is the oracle for C05).                 *)
(***************************************************************************)
EXTENDS Integers, Sequences, FiniteSets

VNum(q)  == [t |-> "num", v |-> q]
VStr(s)  == [t |-> "str", v |-> s]
VBool(b) == [t |-> "bool", v |-> b]
VNull    == [t |-> "null", v |-> 0]
VArr(a)  == [t |-> "arr", v |-> a]

Truthy(v) == v.t = "bool" /\ v.v
Abs(x) == IF x < 0 THEN -x ELSE x
Big == 67108864          \* |q| < 2^26 keeps every product inside TLC's 32-bit integers

\* ---------- rendering of scalars as text (code points) ----------
Digit(d) == 48 + d
RECURSIVE NatCps(_)
NatCps(n) == IF n < 10 THEN <<Digit(n)>> ELSE NatCps(n \div 10) \o <<Digit(n % 10)>>
FracCps(r) == CASE r = 0 -> <<>> [] r = 1 -> <<46, 50, 53>> [] r = 2 -> <<46, 53>> [] r = 3 -> <<46, 55, 53>>
NumCps(q) == LET a == Abs(q) IN
             (IF q < 0 THEN <<45>> ELSE <<>>) \o NatCps(a \div 4) \o FracCps(a % 4)
TrueCps  == <<116, 114, 117, 101>>
FalseCps == <<102, 97, 108, 115, 101>>
NullCps  == <<110, 117, 108, 108>>
\* text of a scalar as used by `add` with a string, interpolation, to_string, join
ScalarCps(v) == CASE v.t = "num"  -> NumCps(v.v)
                  [] v.t = "str"  -> v.v
                  [] v.t = "bool" -> (IF v.v THEN TrueCps ELSE FalseCps)
                  [] v.t = "null" -> NullCps
IsScalar(v) == v.t \in {"num", "str", "bool", "null"}

TypeName(v) == CASE v.t = "num"  -> <<110,117,109,98,101,114>>
                 [] v.t = "str"  -> <<115,116,114,105,110,103>>
                 [] v.t = "bool" -> <<98,111,111,108,101,97,110>>
                 [] v.t = "arr"  -> <<97,114,114,97,121>>
                 [] v.t = "null" -> NullCps

\* ---------- ordering of strings: lexicographic by code point (= by UTF-8 bytes) ----------
RECURSIVE CpsLess(_, _)
CpsLess(a, b) == IF b = <<>> THEN FALSE
                 ELSE IF a = <<>> THEN TRUE
                 ELSE IF Head(a) # Head(b) THEN Head(a) < Head(b)
                 ELSE CpsLess(Tail(a), Tail(b))

\* ---------- UTF-8 width of a code point ----------
Width(c) == IF c < 128 THEN 1 ELSE IF c < 2048 THEN 2 ELSE IF c < 65536 THEN 3 ELSE 4
RECURSIVE ByteLen(_)
ByteLen(s) == IF s = <<>> THEN 0 ELSE Width(Head(s)) + ByteLen(Tail(s))
=============================================================================
