SPECIFICATION Spec
INVARIANT Emit
INVARIANT MachineOk
CHECK_DEADLOCK FALSE
