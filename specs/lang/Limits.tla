------------------------------- MODULE Limits -------------------------------
(***************************************************************************)
(* C18: analysis budgets.  A program has a vector of analysis counts, in   *)
(* the STAGED ORDER in which the limits are examined:                      *)
(*   1 functions  2 locals  3 scopes  4 statements  5 cfg ops              *)
(*   6 ops in one function  7 cfg blocks  8 blocks in one function         *)
(*   9 direct user calls  10 summary bound = f * (f + 2l + 2)              *)
(*   11 liveness bound = sum over functions of (2 * blocks + ops) * locals *)
(* A limit is exceeded when count > cap.  FirstExceeded is the first       *)
(* exceeded metric in staged order (0 = none).  Consequences (judged by    *)
(* the harness on the real resolver and runtime):                          *)
(*   exceeded  => the program is still accepted and runs with exactly the  *)
(*                same results; exactly one resource-limit warning naming  *)
(*                that metric with observed and limit; no analysis         *)
(*                warnings; no optimisation plan                           *)
(*   otherwise => diagnostics and plan are what they are without limits    *)
(* TLC enumerates, for every program of a corpus, the family of cap        *)
(* vectors that puts each metric just below, at and just above its count   *)
(* (others generous), every PAIR of metrics exceeded together (staged      *)
(* order), all at the cap and all exceeded.                                *)
(***************************************************************************)
EXTENDS Integers, Sequences, FiniteSets, TLC, Json, IOUtils
Progs == ndJsonDeserialize(IOEnv.COUNTS)
Big == 100000000
M == 11
RECURSIVE SumLive(_, _)
SumLive(pf, i) == IF i > Len(pf) THEN 0 ELSE (2 * pf[i][1] + pf[i][2]) * pf[i][3] + SumLive(pf, i + 1)
Counts(p) == LET c == p.counts  f == c[1]  l == c[2] IN
             [k \in 1..M |-> IF k <= 9 THEN c[k] ELSE IF k = 10 THEN f * (f + 2 * l + 2) ELSE SumLive(p.per_function, 1)]
FirstExceeded(counts, caps) == LET X == {k \in 1..M : counts[k] > caps[k]} IN IF X = {} THEN 0 ELSE CHOOSE k \in X : \A j \in X : k <= j
Generous == [k \in 1..M |-> Big]
Family(c) ==
       {[Generous EXCEPT ![k] = c[k] + d] : k \in {j \in 1..M : c[j] > 0}, d \in {-1, 0, 1}}
  \cup {[Generous EXCEPT ![a] = c[a] - 1, ![b] = c[b] - 1] : a \in {j \in 1..M : c[j] > 0}, b \in {j \in 1..M : c[j] > 0}}
  \cup {[k \in 1..M |-> c[k]], [k \in 1..M |-> IF c[k] > 0 THEN c[k] - 1 ELSE 0], Generous}
VARIABLES i, caps
vars == <<i, caps>>
Init == i \in 1..Len(Progs) /\ caps \in Family(Counts(Progs[i]))
Next == UNCHANGED vars
Spec == Init /\ [][Next]_vars
\* properties of the rule itself
StagedOrder == LET c == Counts(Progs[i])  k == FirstExceeded(c, caps) IN
               /\ (k = 0 <=> \A j \in 1..M : c[j] <= caps[j])
               /\ (k > 0 => c[k] > caps[k] /\ \A j \in 1..(k - 1) : c[j] <= caps[j])
Emit == PrintT(ToJson([tag |-> "CAPS", i |-> i, caps |-> caps, counts |-> Counts(Progs[i]), first |-> FirstExceeded(Counts(Progs[i]), caps)]))
=============================================================================
