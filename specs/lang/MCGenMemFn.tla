---- MODULE MCGenMemFn ----
(* `memfn` profile: strings through a one-parameter function (returning its parameter, a local, a
   fresh concatenation), `x add f(..)` where f reassigns x, overwrites, shadowing blocks. *)
EXTENDS LangGen
MCP == [names |-> {"x"}, funs |-> {"f"}, arity |-> [f \in {"f"} |-> 1], ty |-> "str",
        kinds |-> {"interp", "make", "set", "shout", "def", "ret", "addcall", "block"},
        prelude |-> <<>>, preDecl |-> {}, ops |-> {"add"}, maxStmts |-> atoi(IOEnv.MAXSTMTS), minStmts |-> 3, maxDepth |-> atoi(IOEnv.MAXDEPTH), fuel |-> 600, events |-> atoi(IOEnv.EVENTS)]
====
