------------------------------ MODULE LangDyn ------------------------------
(***************************************************************************)
(* Reference dynamic semantics of NaijaScript: a CEK-style abstract        *)
(* machine.  `Step(m)` is a pure function on machine records; drivers run  *)
(* it as TLC states (m' = Step(m)).                                        *)
(*                                                                         *)
(* Sources of every semantic choice:                                       *)
(*   docs/VARIABLES.md   make / get, same-scope re-make rebinds, shadowing *)
(*   docs/NUMBERS.md     arithmetic operators, abs/sqrt/floor/ceil/round   *)
(*   docs/STRINGS.md     add = concatenation, {name} interpolation,        *)
(*                       methods (see specs/text/StrOps.tla)               *)
(*   docs/BOOLEANS.md    and / or / not                                    *)
(*   docs/NULL.md        null is falsy, `na` with null                     *)
(*   docs/CONDITIONALS.md, LOOPS.md   if / if not so, jasi, comot, next    *)
(*   docs/FUNCTIONS.md   block-wide visibility, return, implicit null      *)
(*   docs/ARRAYS.md      literals, indexing, index assignment, methods     *)
(*   properties C01 (left-to-right eager evaluation, short circuit, error  *)
(*   kinds), C04 (lexical resolution), C05 (arrays are values)             *)
(*                                                                         *)
(* Lexical scoping BY CONSTRUCTION: programs arrive statically resolved    *)
(* (LangStatic!Resolve): every variable use carries the SITE of its        *)
(* declaration and every call the site of its definition.  Activation      *)
(* records carry static links; a cell is found for a site along static     *)
(* links only.  The machine never looks a name up at run time.             *)
(*                                                                         *)
(* What is not documented is explicit: status "Unspecified" (any reported  *)
(* outcome of the implementation is acceptable, a crash is not) and        *)
(* "Unmodelled" (the number model cannot represent the result).            *)
(***************************************************************************)
EXTENDS Integers, Sequences, FiniteSets, TLC, LangValues, StrOps

Push(s, x) == <<x>> \o s
Top(s) == Head(s)
Pop(s) == Tail(s)

\* ---------- environment: dynamic stack of frames with static links ----------
\* frame = [parent, vars : Seq([site, v]), funs : Seq([site, def, home])]
RECURSIVE FindVar(_, _, _)
FindVar(env, fi, site) ==
  IF fi = 0 THEN [ok |-> FALSE]
  ELSE LET vs == env[fi].vars
           I == {j \in 1..Len(vs) : vs[j].site = site}
       IN IF I # {} THEN [ok |-> TRUE, fi |-> fi, vi |-> CHOOSE j \in I : TRUE]
          ELSE FindVar(env, env[fi].parent, site)
RECURSIVE FindFun(_, _, _)
FindFun(env, fi, site) ==
  IF fi = 0 THEN [ok |-> FALSE]
  ELSE LET fs == env[fi].funs
           I == {j \in 1..Len(fs) : fs[j].site = site}
       IN IF I # {} THEN [ok |-> TRUE, f |-> fs[CHOOSE j \in I : TRUE]]
          ELSE FindFun(env, env[fi].parent, site)
\* functions are hoisted: every definition of a block is visible from the block's start
\* (a definition that the optimisation plan prunes is not registered)
Hoist(stmts, home, skipf) ==
  LET ds == SelectSeq(stmts, LAMBDA s : s.k = "def" /\ s.site \notin skipf)
  IN [i \in 1..Len(ds) |-> [site |-> ds[i].site, def |-> ds[i], home |-> home]]

\* environment projection: every live variable, bottom of the stack first
RECURSIVE EnvProjFrom(_, _)
EnvProjFrom(env, i) ==
  IF i > Len(env) THEN <<>>
  ELSE [j \in 1..Len(env[i].vars) |-> <<env[i].vars[j].site, env[i].vars[j].v>>] \o EnvProjFrom(env, i + 1)
EnvProj(m) == EnvProjFrom(m.env, 1)

\* ---------- machine ----------
\* m = [k    continuation (stack of frames, top first)
\*      vs   value stack
\*      env  dynamic stack of environment frames;  cur = index of the current frame
\*      out  printed values
\*      st   "run" | "done" | error kind | "Unspecified" | "Unmodelled"
\*      e    the event emitted by the last step (<<>> if none)
\*      cfg  [skip : set of statement ids, skipf : set of def sites, env : BOOLEAN] ]
Quiet(m) == [m EXCEPT !.e = <<>>]
Fail(m, kind) == [m EXCEPT !.st = kind, !.k = <<>>, !.e = <<"err", kind>>]
Unspec(m, why) == [m EXCEPT !.st = "Unspecified", !.k = <<>>, !.e = <<"unspecified", why>>]
Unmod(m, why) == [m EXCEPT !.st = "Unmodelled", !.k = <<>>, !.e = <<"unmodelled", why>>]

NewFrame(parent, stmts, idx, skipf) == [parent |-> parent, vars |-> <<>>, funs |-> Hoist(stmts, idx, skipf)]
EnterBlock(m, rest, stmts, parent) ==
  LET idx == Len(m.env) + 1 IN
  [m EXCEPT !.env = Append(m.env, NewFrame(parent, stmts, idx, m.cfg.skipf)), !.cur = idx,
            !.k = Push(rest, [t |-> "blk", stmts |-> stmts, i |-> 1, envlen |-> Len(m.env), cur |-> m.cur])]

\* index of the first continuation frame whose kind is in S (0 if none)
FirstOf(k, S) == LET I == {i \in 1..Len(k) : k[i].t \in S} IN
                 IF I = {} THEN 0 ELSE CHOOSE i \in I : \A j \in I : i <= j

\* ---------- arithmetic on quarters ----------
BinNum(op, a, b) ==
  CASE op = "add" -> [ok |-> TRUE, v |-> VNum(a + b)]
    [] op = "minus" -> [ok |-> TRUE, v |-> VNum(a - b)]
    [] op = "times" -> LET p == Abs(a) * Abs(b)  neg == (a < 0) # (b < 0) IN
                       IF p % 4 # 0 \/ (p = 0 /\ (a < 0 \/ b < 0)) THEN [ok |-> FALSE, why |-> "Unmodelled"]
                       ELSE [ok |-> TRUE, v |-> VNum(IF neg THEN -(p \div 4) ELSE p \div 4)]
    [] op = "divide" -> IF b = 0 THEN [ok |-> FALSE, why |-> "Division by zero"]
                        ELSE LET n == Abs(a) * 4  d == Abs(b)  neg == (a < 0) # (b < 0) IN
                             IF n % d # 0 \/ (a = 0 /\ b < 0) THEN [ok |-> FALSE, why |-> "Unmodelled"]
                             ELSE [ok |-> TRUE, v |-> VNum(IF neg THEN -(n \div d) ELSE n \div d)]
    \* remainder takes the sign of the dividend (IEEE fmod / Rust `%`)
    [] op = "mod" -> IF b = 0 THEN [ok |-> FALSE, why |-> "Division by zero"]
                     ELSE LET r == Abs(a) % Abs(b) IN
                          IF a < 0 /\ r = 0 THEN [ok |-> FALSE, why |-> "Unmodelled"]   \* -0
                          ELSE [ok |-> TRUE, v |-> VNum(IF a < 0 THEN -r ELSE r)]
    [] op = "na" -> [ok |-> TRUE, v |-> VBool(a = b)]
    [] op = "pass" -> [ok |-> TRUE, v |-> VBool(a > b)]
    [] op = "lt" -> [ok |-> TRUE, v |-> VBool(a < b)]

BinOp(op, l, r) ==
  IF l.t = "num" /\ r.t = "num" THEN
     (IF op = "times" /\ (Abs(l.v) > 16384 \/ Abs(r.v) > 16384) THEN [ok |-> FALSE, why |-> "Unmodelled"]
      ELSE IF op = "divide" /\ Abs(l.v) > 16384 * 4096 THEN [ok |-> FALSE, why |-> "Unmodelled"]
      ELSE LET res == BinNum(op, l.v, r.v) IN
           IF res.ok /\ res.v.t = "num" /\ Abs(res.v.v) > Big THEN [ok |-> FALSE, why |-> "Unmodelled"] ELSE res)
  ELSE IF op = "add" /\ l.t \in {"str", "num"} /\ r.t \in {"str", "num"}
       THEN [ok |-> TRUE, v |-> VStr(ScalarCps(l) \o ScalarCps(r))]
  ELSE IF l.t = "str" /\ r.t = "str" /\ op \in {"na", "pass", "lt"}
       THEN [ok |-> TRUE, v |-> VBool(CASE op = "na" -> l.v = r.v [] op = "pass" -> CpsLess(r.v, l.v) [] op = "lt" -> CpsLess(l.v, r.v))]
  ELSE IF op = "na" /\ l.t = r.t /\ l.t \in {"bool", "null"} THEN [ok |-> TRUE, v |-> VBool(l.v = r.v)]
  \* docs/NULL.md: null equals only null
  ELSE IF op = "na" /\ (l.t = "null" \/ r.t = "null") /\ l.t # "arr" /\ r.t # "arr" THEN [ok |-> TRUE, v |-> VBool(FALSE)]
  ELSE [ok |-> FALSE, why |-> "Unspecified"]

\* ---------- number methods ----------
NumMethod(name, q) ==
  CASE name = "abs" -> [ok |-> TRUE, v |-> VNum(Abs(q))]
    [] name = "floor" -> [ok |-> TRUE, v |-> VNum((q \div 4) * 4)]
    [] name = "ceil" -> LET c == -(((-q) \div 4) * 4) IN
                        IF c = 0 /\ q < 0 THEN [ok |-> FALSE, why |-> "Unmodelled"] ELSE [ok |-> TRUE, v |-> VNum(c)]
    [] name = "round" -> IF q % 4 = 2 THEN [ok |-> FALSE, why |-> "Unspecified"]      \* ties: docs do not say
                         ELSE LET r == ((q + 2) \div 4) * 4 IN
                              IF r = 0 /\ q < 0 THEN [ok |-> FALSE, why |-> "Unmodelled"] ELSE [ok |-> TRUE, v |-> VNum(r)]
    [] name = "sqrt" -> IF q < 0 \/ q > 4000000 THEN [ok |-> FALSE, why |-> "Unmodelled"]
                        ELSE LET R == {r \in 0..4001 : r * r = 4 * q} IN
                             IF R = {} THEN [ok |-> FALSE, why |-> "Unmodelled"] ELSE [ok |-> TRUE, v |-> VNum(CHOOSE r \in R : TRUE)]
    [] OTHER -> [ok |-> FALSE, why |-> "Unspecified"]

\* ---------- string methods (receiver s : code points, args : values) ----------
AllStr(args) == \A i \in 1..Len(args) : args[i].t = "str"
AllNum(args) == \A i \in 1..Len(args) : args[i].t = "num"
StrMethod(name, s, args) ==
  CASE name = "len" /\ Len(args) = 0 -> [ok |-> TRUE, v |-> VNum(4 * Len(s))]
    [] name = "slice" /\ Len(args) = 2 /\ AllNum(args) -> [ok |-> TRUE, v |-> VStr(Slice(s, args[1].v, args[2].v))]
    [] name = "to_uppercase" /\ Len(args) = 0 ->
         IF AllCaseKnown(s) THEN [ok |-> TRUE, v |-> VStr(Upper(s))] ELSE [ok |-> FALSE, why |-> "Unmodelled"]
    [] name = "to_lowercase" /\ Len(args) = 0 ->
         IF AllCaseKnown(s) THEN [ok |-> TRUE, v |-> VStr(Lower(s))] ELSE [ok |-> FALSE, why |-> "Unmodelled"]
    [] name = "trim" /\ Len(args) = 0 -> [ok |-> TRUE, v |-> VStr(Trim(s))]
    [] name = "find" /\ Len(args) = 1 /\ AllStr(args) ->
         IF FindUnambiguous(s, args[1].v) THEN [ok |-> TRUE, v |-> VNum(4 * Find(s, args[1].v))]
         ELSE [ok |-> FALSE, why |-> "Unspecified"]
    [] name = "replace" /\ Len(args) = 2 /\ AllStr(args) ->
         IF args[1].v = <<>> THEN [ok |-> FALSE, why |-> "Unspecified"]
         ELSE [ok |-> TRUE, v |-> VStr(Replace(s, args[1].v, args[2].v))]
    [] name = "split" /\ Len(args) = 1 /\ AllStr(args) ->
         IF args[1].v = <<>> THEN [ok |-> FALSE, why |-> "Unspecified"]
         ELSE LET ps == Split(s, args[1].v) IN [ok |-> TRUE, v |-> VArr([i \in 1..Len(ps) |-> VStr(ps[i])])]
    [] name = "to_number" /\ Len(args) = 0 ->
         LET r == ToNumber(s) IN IF r.ok THEN [ok |-> TRUE, v |-> VNum(r.q)] ELSE [ok |-> FALSE, why |-> "Unmodelled"]
    [] OTHER -> [ok |-> FALSE, why |-> "Unspecified"]

ArrMethod(name, a, args) ==
  CASE name = "len" /\ Len(args) = 0 -> [ok |-> TRUE, v |-> VNum(4 * Len(a))]
    [] name = "join" /\ Len(args) = 1 /\ AllStr(args) ->
         IF \A i \in 1..Len(a) : IsScalar(a[i])
         THEN [ok |-> TRUE, v |-> VStr(Join([i \in 1..Len(a) |-> ScalarCps(a[i])], args[1].v))]
         ELSE [ok |-> FALSE, why |-> "Unspecified"]
    [] OTHER -> [ok |-> FALSE, why |-> "Unspecified"]

\* ---------- nested array access ----------
\* index value -> [ok, i] or an error kind
IndexOf(iv) == IF iv.t # "num" THEN [ok |-> FALSE, why |-> "Unspecified"]
               ELSE IF iv.v % 4 # 0 THEN [ok |-> FALSE, why |-> "Invalid index"]
               ELSE IF iv.v < 0 THEN [ok |-> FALSE, why |-> "Index out of bounds"]
               ELSE [ok |-> TRUE, i |-> iv.v \div 4]
RECURSIVE GetPath(_, _)
GetPath(a, path) ==      \* path : Seq of 0-based Nat
  IF path = <<>> THEN [ok |-> TRUE, v |-> a]
  ELSE IF a.t # "arr" THEN [ok |-> FALSE, why |-> "Unspecified"]
  ELSE IF path[1] >= Len(a.v) THEN [ok |-> FALSE, why |-> "Index out of bounds"]
  ELSE GetPath(a.v[path[1] + 1], Tail(path))
RECURSIVE SetPath(_, _, _)
SetPath(a, path, v) ==
  IF path = <<>> THEN v
  ELSE VArr([a.v EXCEPT ![path[1] + 1] = SetPath(a.v[path[1] + 1], Tail(path), v)])

\* an lvalue path: a variable followed by index expressions
RECURSIVE LvRoot(_), LvIdx(_), HasCall(_)
IsLv(e) == LvRoot(e).ok
LvRoot(e) == IF e.k = "var" THEN [ok |-> TRUE, site |-> e.site]
             ELSE IF e.k = "idx" THEN LvRoot(e.a) ELSE [ok |-> FALSE]
LvIdx(e) == IF e.k = "idx" THEN Append(LvIdx(e.a), e.i) ELSE <<>>
HasCall(e) ==
  CASE e.k \in {"call", "mcall"} -> TRUE
    [] e.k = "un" -> HasCall(e.e)
    [] e.k = "bin" -> HasCall(e.l) \/ HasCall(e.r)
    [] e.k = "arr" -> \E i \in 1..Len(e.es) : HasCall(e.es[i])
    [] e.k = "idx" -> HasCall(e.a) \/ HasCall(e.i)
    [] OTHER -> FALSE
MutMethods == {"push", "pop", "reverse"}

\* top `n` values of the value stack in evaluation order
TopN(vs, n) == [j \in 1..n |-> vs[n - j + 1]]
DropN(vs, n) == SubSeq(vs, n + 1, Len(vs))

\* continuation frames that evaluate a list of expressions left to right
EvalList(rest, es) == IF es = <<>> THEN rest ELSE Push(Push(rest, [t |-> "list", es |-> es, i |-> 1]), [t |-> "ev", e |-> es[1]])

Step(m0) ==
  LET m == Quiet(m0) IN
  IF m.k = <<>> THEN [m EXCEPT !.st = "done", !.e = <<"end">>]
  ELSE
  LET f == Head(m.k)  rest == Tail(m.k) IN
  CASE f.t = "blk" ->
        LET me == IF m.cfg.env /\ f.i > 1 THEN [m EXCEPT !.e = <<"env", EnvProj(m)>>] ELSE m IN
        IF f.i > Len(f.stmts)
        THEN [me EXCEPT !.k = rest, !.env = SubSeq(m.env, 1, f.envlen), !.cur = f.cur]
        ELSE LET s == f.stmts[f.i]  k1 == Push(rest, [f EXCEPT !.i = f.i + 1]) IN
          IF s.id \in m.cfg.skip THEN [me EXCEPT !.k = k1] ELSE
          LET mc == [me EXCEPT !.cs = s.id] IN
          (CASE s.k = "make" -> [mc EXCEPT !.k = Push(Push(k1, [t |-> "bind", site |-> s.site, id |-> s.id]), [t |-> "ev", e |-> s.e])]
             [] s.k = "make0" -> [mc EXCEPT !.k = Push(k1, [t |-> "bind", site |-> s.site, id |-> s.id]), !.vs = Push(m.vs, VNull)]
             [] s.k = "set" -> [mc EXCEPT !.k = Push(Push(k1, [t |-> "store", site |-> s.site, id |-> s.id]), [t |-> "ev", e |-> s.e])]
             [] s.k = "seti" ->
                  IF \E j \in 1..Len(s.is) : HasCall(s.is[j]) THEN Unspec(m, "call in index of assignment target")
                  ELSE [mc EXCEPT !.k = Push(EvalList(Push(k1, [t |-> "storei", site |-> s.site, n |-> Len(s.is)]), s.is), [t |-> "ev", e |-> s.e])]
             [] s.k = "expr" -> [mc EXCEPT !.k = Push(Push(k1, [t |-> "drop"]), [t |-> "ev", e |-> s.e])]
             \* assignment whose target is not rooted at a variable (`f()[0] get 2`): nothing documents it
             [] s.k = "setx" -> Unspec(m, "assignment target is not a variable")
             [] s.k = "if" -> [mc EXCEPT !.k = Push(Push(k1, [t |-> "ifc", s |-> s]), [t |-> "ev", e |-> s.c])]
             [] s.k = "loop" -> [mc EXCEPT !.k = Push(Push(Push(k1, [t |-> "loopend", envlen |-> Len(m.env), cur |-> m.cur]), [t |-> "loopc", s |-> s]), [t |-> "ev", e |-> s.c])]
             [] s.k = "block" -> EnterBlock(mc, k1, s.b, m.cur)
             [] s.k = "def" -> [mc EXCEPT !.k = k1]
             [] s.k = "ret" -> [mc EXCEPT !.k = Push(Push(k1, [t |-> "retv"]), [t |-> "ev", e |-> s.e])]
             [] s.k = "ret0" -> [mc EXCEPT !.k = Push(k1, [t |-> "retv"]), !.vs = Push(m.vs, VNull)]
             [] s.k = "brk" -> LET i == FirstOf(k1, {"loopend", "callret"}) IN
                               IF i = 0 \/ k1[i].t # "loopend" THEN Unspec(m, "comot outside loop")
                               ELSE [mc EXCEPT !.k = SubSeq(k1, i + 1, Len(k1)), !.env = SubSeq(m.env, 1, k1[i].envlen), !.cur = k1[i].cur]
             [] s.k = "cont" -> LET i == FirstOf(k1, {"loopc", "callret"})  j == FirstOf(k1, {"loopend"}) IN
                                IF i = 0 \/ k1[i].t # "loopc" THEN Unspec(m, "next outside loop")
                                ELSE [mc EXCEPT !.k = Push(SubSeq(k1, i, Len(k1)), [t |-> "ev", e |-> k1[i].s.c]),
                                                !.env = SubSeq(m.env, 1, k1[j].envlen), !.cur = k1[j].cur])
    [] f.t = "drop" -> [m EXCEPT !.k = rest, !.vs = Pop(m.vs)]
    [] f.t = "bind" ->      \* make: (re)binds the variable of this site in the CURRENT frame
        LET fr == m.env[m.cur]  v == Top(m.vs)
            I == {j \in 1..Len(fr.vars) : fr.vars[j].site = f.site}
        IN IF I = {} THEN [m EXCEPT !.k = rest, !.vs = Pop(m.vs), !.env[m.cur].vars = Append(fr.vars, [site |-> f.site, v |-> v, w |-> f.id]),
                                    !.e = <<"assign", f.site, v>>]
           ELSE LET j == CHOOSE j \in I : TRUE IN
                [m EXCEPT !.k = rest, !.vs = Pop(m.vs), !.env[m.cur].vars[j].v = v, !.env[m.cur].vars[j].w = f.id, !.e = <<"assign", f.site, v>>]
    [] f.t = "store" ->
        LET r == FindVar(m.env, m.cur, f.site)  v == Top(m.vs) IN
        IF ~r.ok THEN Unspec(m, "tdz") ELSE
        [m EXCEPT !.k = rest, !.vs = Pop(m.vs), !.env[r.fi].vars[r.vi].v = v, !.env[r.fi].vars[r.vi].w = f.id, !.e = <<"assign", f.site, v>>]
    [] f.t = "storei" ->    \* a[i1]..[in] get v : value stack holds in .. i1, v (v evaluated first)
        LET ivs == TopN(m.vs, f.n)  v == m.vs[f.n + 1]  vs1 == DropN(m.vs, f.n + 1)
            r == FindVar(m.env, m.cur, f.site)
            idx == [j \in 1..f.n |-> IndexOf(ivs[j])]
            bad == {j \in 1..f.n : ~idx[j].ok}
        IN IF ~r.ok THEN Unspec(m, "tdz")
           ELSE LET a == m.env[r.fi].vars[r.vi].v
                    errsI == {idx[j].why : j \in bad}
                    path == [j \in 1..f.n |-> IF idx[j].ok THEN idx[j].i ELSE 0]
                    walk == IF bad = {} THEN GetPath(a, path) ELSE [ok |-> TRUE]
                    errs == errsI \cup (IF walk.ok THEN {} ELSE {walk.why})
                IN IF "Unspecified" \in errs \/ Cardinality(errs) > 1 THEN Unspec(m, "index assignment with several faults or a non-array")
                   ELSE IF errs # {} THEN Fail(m, CHOOSE x \in errs : TRUE)
                   ELSE [m EXCEPT !.k = rest, !.vs = vs1, !.env[r.fi].vars[r.vi].v = SetPath(a, path, v), !.used = @ \cup {<<m.env[r.fi].vars[r.vi].w, m.cs>>}]
    [] f.t = "ifc" ->
        LET c == Top(m.vs)  m1 == [m EXCEPT !.vs = Pop(m.vs)] IN
        IF c.t \notin {"bool", "null"} THEN Unspec(m, "non-boolean condition")
        ELSE IF Truthy(c) THEN EnterBlock(m1, rest, f.s.t, m.cur)
        ELSE IF f.s.f # <<>> THEN EnterBlock(m1, rest, f.s.f[1], m.cur)
        ELSE [m1 EXCEPT !.k = rest]
    [] f.t = "loopc" ->
        LET c == Top(m.vs)  m1 == [m EXCEPT !.vs = Pop(m.vs)] IN
        IF c.t \notin {"bool", "null"} THEN Unspec(m, "non-boolean condition")
        ELSE IF Truthy(c) THEN EnterBlock(m1, Push(Push(rest, f), [t |-> "ev", e |-> f.s.c]), f.s.b, m.cur)
        ELSE [m1 EXCEPT !.k = rest]
    [] f.t = "loopend" -> [m EXCEPT !.k = rest]
    [] f.t = "retv" ->
        LET i == FirstOf(rest, {"callret"}) IN
        IF i = 0 THEN Unspec(m, "return outside function")
        ELSE [m EXCEPT !.k = SubSeq(rest, i + 1, Len(rest)), !.env = SubSeq(m.env, 1, rest[i].envlen), !.cur = rest[i].cur, !.cs = rest[i].cs,
                       !.e = <<"ret", rest[i].fn, Top(m.vs)>>]
    [] f.t = "callret" ->   \* fell off the end of the body: implicit null
        [m EXCEPT !.k = rest, !.vs = Push(m.vs, VNull), !.env = SubSeq(m.env, 1, f.envlen), !.cur = f.cur, !.cs = f.cs, !.e = <<"ret", f.fn, VNull>>]
    [] f.t = "list" ->      \* left-to-right evaluation of a list of expressions
        IF f.i = Len(f.es) THEN [m EXCEPT !.k = rest]
        ELSE [m EXCEPT !.k = Push(Push(rest, [f EXCEPT !.i = f.i + 1]), [t |-> "ev", e |-> f.es[f.i + 1]])]
    [] f.t = "ev" ->
        LET e == f.e IN
        (CASE e.k = "num" -> [m EXCEPT !.k = rest, !.vs = Push(m.vs, VNum(e.v))]
           [] e.k = "bool" -> [m EXCEPT !.k = rest, !.vs = Push(m.vs, VBool(e.v))]
           [] e.k = "null" -> [m EXCEPT !.k = rest, !.vs = Push(m.vs, VNull)]
           [] e.k = "str" -> [m EXCEPT !.k = Push(rest, [t |-> "interp", segs |-> e.segs, i |-> 1, acc |-> <<>>])]
           [] e.k = "var" -> LET r == FindVar(m.env, m.cur, e.site) IN
                             IF ~r.ok THEN Unspec(m, "tdz") ELSE [m EXCEPT !.k = rest, !.vs = Push(m.vs, m.env[r.fi].vars[r.vi].v), !.used = @ \cup {<<m.env[r.fi].vars[r.vi].w, m.cs>>}]
           [] e.k = "un" -> [m EXCEPT !.k = Push(Push(rest, [t |-> "un", op |-> e.op]), [t |-> "ev", e |-> e.e])]
           [] e.k = "bin" -> [m EXCEPT !.k = Push(Push(rest, [t |-> "bin2", op |-> e.op, r |-> e.r]), [t |-> "ev", e |-> e.l])]
           [] e.k = "arr" -> [m EXCEPT !.k = EvalList(Push(rest, [t |-> "mkarr", n |-> Len(e.es)]), e.es)]
           [] e.k = "idx" -> [m EXCEPT !.k = Push(Push(Push(rest, [t |-> "idx"]), [t |-> "ev", e |-> e.i]), [t |-> "ev", e |-> e.a])]
           [] e.k = "call" -> [m EXCEPT !.k = EvalList(Push(rest, [t |-> "apply", f |-> e.f, fs |-> e.site, n |-> Len(e.as)]), e.as)]
           [] e.k = "member" -> Unspec(m, "member access without a call")
           \* a number literal given as text because it does not fit the model's exact quarters (2^32, 1e300)
           [] e.k = "rawnum" -> Unmod(m, "number outside the model")
           \* `f()(1)`, `a[0](2)`: functions are not values, so whatever the callee evaluates to cannot be called
           [] e.k = "callx" -> Unspec(m, "call of a value")
           [] e.k = "mcall" ->
                IF e.m \in MutMethods /\ IsLv(e.o)
                THEN \* mutation through an lvalue path: argument first, then the path's indexes
                     LET is == LvIdx(e.o) IN
                     IF \E j \in 1..Len(is) : HasCall(is[j]) THEN Unspec(m, "call in index of mutated receiver")
                     ELSE [m EXCEPT !.k = EvalList(EvalList(Push(rest, [t |-> "mutate", m |-> e.m, site |-> LvRoot(e.o).site, ni |-> Len(is), na |-> Len(e.as)]), is), e.as)]
                ELSE IF e.m \in MutMethods THEN Unspec(m, "mutating method on a temporary")
                ELSE [m EXCEPT !.k = Push(EvalList(Push(rest, [t |-> "method", m |-> e.m, n |-> Len(e.as)]), e.as), [t |-> "ev", e |-> e.o])])
    [] f.t = "interp" ->
        IF f.i > Len(f.segs) THEN [m EXCEPT !.k = rest, !.vs = Push(m.vs, VStr(f.acc))]
        ELSE LET sg == f.segs[f.i] IN
             IF sg.k = "lit" THEN [m EXCEPT !.k = Push(rest, [f EXCEPT !.i = f.i + 1, !.acc = f.acc \o sg.v])]
             ELSE LET r == FindVar(m.env, m.cur, sg.site) IN
                  IF ~r.ok THEN Unspec(m, "tdz") ELSE LET v == m.env[r.fi].vars[r.vi].v IN
                  IF ~IsScalar(v) THEN Unspec(m, "array in interpolation")
                  ELSE [m EXCEPT !.k = Push(rest, [f EXCEPT !.i = f.i + 1, !.acc = f.acc \o ScalarCps(v)]), !.used = @ \cup {<<m.env[r.fi].vars[r.vi].w, m.cs>>}]
    [] f.t = "un" ->
        LET v == Top(m.vs) IN
        IF f.op = "not" /\ v.t \in {"bool", "null"} THEN [m EXCEPT !.k = rest, !.vs = Push(Pop(m.vs), VBool(~Truthy(v)))]
        ELSE IF f.op = "neg" /\ v.t = "num" THEN (IF v.v = 0 THEN Unmod(m, "-0") ELSE [m EXCEPT !.k = rest, !.vs = Push(Pop(m.vs), VNum(-v.v))])
        ELSE Unspec(m, "unary operator on a value of another type")
    [] f.t = "bin2" ->
        LET l == Top(m.vs) IN
        IF f.op \in {"and", "or"} THEN
             (IF l.t \notin {"bool", "null"} THEN Unspec(m, "non-boolean operand of and/or")
              ELSE IF f.op = "and" /\ ~Truthy(l) THEN [m EXCEPT !.k = rest, !.vs = Push(Pop(m.vs), VBool(FALSE))]
              ELSE IF f.op = "or" /\ Truthy(l) THEN [m EXCEPT !.k = rest, !.vs = Push(Pop(m.vs), VBool(TRUE))]
              ELSE [m EXCEPT !.k = Push(Push(rest, [t |-> "tobool"]), [t |-> "ev", e |-> f.r]), !.vs = Pop(m.vs)])
        ELSE [m EXCEPT !.k = Push(Push(rest, [t |-> "bin3", op |-> f.op]), [t |-> "ev", e |-> f.r])]
    [] f.t = "tobool" ->
        LET v == Top(m.vs) IN IF v.t \notin {"bool", "null"} THEN Unspec(m, "non-boolean operand of and/or")
                              ELSE [m EXCEPT !.k = rest, !.vs = Push(Pop(m.vs), VBool(Truthy(v)))]
    [] f.t = "bin3" ->
        LET r == m.vs[1]  l == m.vs[2]  res == BinOp(f.op, l, r) IN
        IF res.ok THEN [m EXCEPT !.k = rest, !.vs = Push(Pop(Pop(m.vs)), res.v)]
        ELSE IF res.why = "Unspecified" THEN Unspec(m, "operator on operands of these types")
        ELSE IF res.why = "Unmodelled" THEN Unmod(m, "number")
        ELSE Fail(m, res.why)
    [] f.t = "mkarr" -> [m EXCEPT !.k = rest, !.vs = Push(DropN(m.vs, f.n), VArr(TopN(m.vs, f.n)))]
    [] f.t = "idx" ->
        LET iv == m.vs[1]  a == m.vs[2]  ix == IndexOf(iv) IN
        IF a.t # "arr" THEN Unspec(m, "index into a non-array")
        ELSE IF iv.t # "num" THEN Unspec(m, "non-number index")
        ELSE IF iv.v % 4 # 0 THEN Fail(m, "Invalid index")
        ELSE IF iv.v < 0 \/ iv.v \div 4 >= Len(a.v) THEN Fail(m, "Index out of bounds")
        ELSE [m EXCEPT !.k = rest, !.vs = Push(Pop(Pop(m.vs)), a.v[iv.v \div 4 + 1])]
    [] f.t = "method" ->    \* value stack: args (last on top) then receiver
        LET args == TopN(m.vs, f.n)  recv == m.vs[f.n + 1]  vs1 == DropN(m.vs, f.n + 1)
            res == CASE recv.t = "str" -> StrMethod(f.m, recv.v, args)
                     [] recv.t = "num" -> (IF f.n = 0 THEN NumMethod(f.m, recv.v) ELSE [ok |-> FALSE, why |-> "Unspecified"])
                     [] recv.t = "arr" -> ArrMethod(f.m, recv.v, args)
                     [] OTHER -> [ok |-> FALSE, why |-> "Unspecified"]
        IN IF res.ok THEN [m EXCEPT !.k = rest, !.vs = Push(vs1, res.v)]
           ELSE IF res.why = "Unmodelled" THEN Unmod(m, "method result") ELSE Unspec(m, "method not defined for this receiver/arguments")
    [] f.t = "mutate" ->    \* value stack: indexes (last on top), then arguments
        LET ivs == TopN(m.vs, f.ni)  args == TopN(DropN(m.vs, f.ni), f.na)  vs1 == DropN(m.vs, f.ni + f.na)
            r == FindVar(m.env, m.cur, f.site)
            idx == [j \in 1..f.ni |-> IndexOf(ivs[j])]
            bad == {j \in 1..f.ni : ~idx[j].ok}
        IN IF ~r.ok THEN Unspec(m, "tdz")
           ELSE LET a == m.env[r.fi].vars[r.vi].v
                    path == [j \in 1..f.ni |-> IF idx[j].ok THEN idx[j].i ELSE 0]
                    tgt == IF bad = {} THEN GetPath(a, path) ELSE [ok |-> FALSE, why |-> "Unspecified"]
                    errs == {idx[j].why : j \in bad}
                IN IF bad # {} THEN (IF Cardinality(errs) = 1 /\ "Unspecified" \notin errs THEN Fail(m, CHOOSE x \in errs : TRUE)
                                     ELSE Unspec(m, "mutation path with several faults"))
                   ELSE IF ~tgt.ok THEN (IF tgt.why = "Unspecified" THEN Unspec(m, "mutation path through a non-array") ELSE Fail(m, tgt.why))
                   ELSE IF tgt.v.t # "arr" THEN Unspec(m, "mutating method on a non-array")
                   ELSE LET old == tgt.v.v IN
                        (CASE f.m = "push" /\ f.na = 1 ->
                               [m EXCEPT !.k = rest, !.vs = Push(vs1, VNull), !.env[r.fi].vars[r.vi].v = SetPath(a, path, VArr(Append(old, args[1]))), !.used = @ \cup {<<m.env[r.fi].vars[r.vi].w, m.cs>>}]
                          [] f.m = "pop" /\ f.na = 0 ->
                               IF old = <<>> THEN [m EXCEPT !.k = rest, !.vs = Push(vs1, VNull)]
                               ELSE [m EXCEPT !.k = rest, !.vs = Push(vs1, old[Len(old)]),
                                              !.env[r.fi].vars[r.vi].v = SetPath(a, path, VArr(SubSeq(old, 1, Len(old) - 1))), !.used = @ \cup {<<m.env[r.fi].vars[r.vi].w, m.cs>>}]
                          [] f.m = "reverse" /\ f.na = 0 ->
                               [m EXCEPT !.k = rest, !.vs = Push(vs1, VNull),
                                         !.env[r.fi].vars[r.vi].v = SetPath(a, path, VArr([j \in 1..Len(old) |-> old[Len(old) - j + 1]])), !.used = @ \cup {<<m.env[r.fi].vars[r.vi].w, m.cs>>}]
                          [] OTHER -> Unspec(m, "wrong argument count"))
    [] f.t = "apply" ->
        LET n == f.n  args == TopN(m.vs, n)  vs1 == DropN(m.vs, n) IN
        IF f.f = "shout" /\ n = 1 THEN [m EXCEPT !.k = rest, !.vs = Push(vs1, VNull), !.out = Append(m.out, args[1]), !.e = <<"shout", args[1]>>]
        ELSE IF f.f = "typeof" /\ n = 1 THEN [m EXCEPT !.k = rest, !.vs = Push(vs1, VStr(TypeName(args[1])))]
        ELSE IF f.f = "to_string" /\ n = 1 THEN
             (IF ~IsScalar(args[1]) THEN Unspec(m, "to_string of an array") ELSE [m EXCEPT !.k = rest, !.vs = Push(vs1, VStr(ScalarCps(args[1])))])
        ELSE IF f.fs = 0 THEN Unspec(m, "builtin outside the model")
        ELSE LET r == FindFun(m.env, m.cur, f.fs) IN
             IF ~r.ok THEN Unspec(m, "function not in scope")
             ELSE IF Len(r.f.def.ps) # n THEN Unspec(m, "arity")
             ELSE LET d == r.f.def
                      pidx == Len(m.env) + 1
                      pframe == [parent |-> r.f.home, funs |-> <<>>,
                                 vars |-> [j \in 1..n |-> [site |-> d.psites[j], v |-> args[j], w |-> 0]]]
                      m1 == [m EXCEPT !.vs = vs1, !.env = Append(m.env, pframe), !.cur = pidx, !.e = <<"call", d.n, d.site>>]
                  IN EnterBlock(m1, Push(rest, [t |-> "callret", fn |-> d.n, envlen |-> Len(m.env), cur |-> m.cur, cs |-> m.cs]), d.b, pidx)

NoSkip == [skip |-> {}, skipf |-> {}, env |-> FALSE]
Init0(body, cfg) ==
  LET fr == NewFrame(0, body, 1, cfg.skipf) IN
  [k |-> <<[t |-> "blk", stmts |-> body, i |-> 1, envlen |-> 0, cur |-> 0]>>, vs |-> <<>>, env |-> <<fr>>, cur |-> 1,
   out |-> <<>>, st |-> "run", e |-> <<>>, cfg |-> cfg,
   \* def-use: every variable slot remembers the statement that wrote its current value (w; 0 = parameter);
   \* `used` collects the statements whose written value was read afterwards (by a read, a placeholder,
   \* an indexed store or an in-place mutation - wherever the reader sits, also in another function)
   \* (pairs <<writer, reader>>: the statement being executed when the read happened; `cs` is that statement,
   \* saved and restored around calls; after a nested block it is the last statement of that block)
   used |-> {}, cs |-> 0]

\* ---------- properties of the machine itself (checked by TLC in the drivers) ----------
\* the continuation and the value stack are consistent: a finished run leaves no value behind
DoneClean(m) == m.st = "done" => m.vs = <<>>
\* the current frame exists and static links point down the stack
EnvWellFormed(m) == /\ (m.st = "run" /\ m.k # <<>> => m.cur \in 1..Len(m.env))
                    /\ \A i \in 1..Len(m.env) : m.env[i].parent < i
=============================================================================
