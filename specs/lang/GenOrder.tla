------------------------------ MODULE GenOrder ------------------------------
(***************************************************************************)
(* `evalorder` profile (C01): left-to-right eager evaluation, observed.    *)
(* Every construct that has more than one operand is instantiated with     *)
(* operands that are calls of functions which PRINT their tag before       *)
(* returning a value of the right type:                                    *)
(*   n(k) -> number k   s(k) -> "ab"   a(k) -> [10, 20, 30]   b(k) -> true *)
(* so the order of evaluation is the order of the printed tags.            *)
(* Constructs: every binary operator, index read (array then index,        *)
(* chained), method receiver then arguments, user call arguments, array    *)
(* literal elements, nested operators of different precedence.             *)
(***************************************************************************)
EXTENDS LangDyn, Json, IOUtils
S == INSTANCE LangStatic
Num(c) == [k |-> "num", v |-> c]
Var(x) == [k |-> "var", n |-> x, site |-> 0]
StrL(s) == [k |-> "str", segs |-> <<[k |-> "lit", v |-> s]>>]
Bin(op, l, r) == [k |-> "bin", op |-> op, l |-> l, r |-> r]
Idx(a, i) == [k |-> "idx", a |-> a, i |-> i]
G(f, as) == [k |-> "call", f |-> f, site |-> 0, as |-> as]
M(o, mm, as) == [k |-> "mcall", o |-> o, m |-> mm, as |-> as]
ExprS(id, e) == [k |-> "expr", id |-> id, e |-> e]
Shout(id, e) == ExprS(id, G("shout", <<e>>))
Ret(id, e) == [k |-> "ret", id |-> id, e |-> e]
Def(id, name, ps, body) == [k |-> "def", id |-> id, d |-> 10 * id, n |-> name, site |-> 0, ps |-> ps,
                            pd |-> [j \in 1..Len(ps) |-> 10 * id + j], psites |-> [j \in 1..Len(ps) |-> 0], b |-> body]
Prelude == <<Def(1, "n", <<"k">>, <<Shout(2, Var("k")), Ret(3, Var("k"))>>),
             Def(4, "s", <<"k">>, <<Shout(5, Var("k")), Ret(6, StrL(<<97, 98>>))>>),
             Def(7, "a", <<"k">>, <<Shout(8, Var("k")), Ret(9, [k |-> "arr", es |-> <<Num(40), Num(80), Num(120)>>])>>),
             Def(10, "b", <<"k">>, <<Shout(11, Var("k")), Ret(12, [k |-> "bool", v |-> TRUE])>>),
             Def(13, "two", <<"p", "q">>, <<Ret(14, Bin("minus", Var("p"), Var("q")))>>),
             Def(15, "three", <<"p", "q", "r">>, <<Ret(16, Var("q"))>>)>>
N(k) == G("n", <<Num(4 * k)>>)      SS(k) == G("s", <<Num(4 * k)>>)
A(k) == G("a", <<Num(4 * k)>>)      B(k) == G("b", <<Num(4 * k)>>)
Arith == {"add", "minus", "times", "divide", "mod", "na", "pass", "lt"}
Exprs ==
       {Bin(op, N(1), N(2)) : op \in Arith}
  \cup {Bin(op, B(1), B(2)) : op \in {"and", "or", "na"}}
  \cup {Bin("add", SS(1), x) : x \in {SS(2), N(2)}} \cup {Bin("add", N(1), SS(2))}
  \cup {Bin(o1, N(1), Bin(o2, N(2), N(3))) : o1 \in {"add", "times", "minus"}, o2 \in {"add", "times"}}
  \cup {Bin(o1, Bin(o2, N(1), N(2)), N(3)) : o1 \in {"add", "times", "minus"}, o2 \in {"add", "times"}}
  \cup {Idx(A(1), N(2)), Idx(A(2), N(1)), Idx(A(1), N(0)), Idx(A(1), N(5))}
  \cup {Idx([k |-> "arr", es |-> <<A(1), A(2)>>], N(1)), Idx(Idx([k |-> "arr", es |-> <<A(3)>>], N(0)), N(2))}
  \cup {M(SS(1), "slice", <<N(0), N(1)>>), M(SS(1), "slice", <<N(2), N(1)>>), M(SS(1), "replace", <<SS(2), SS(3)>>),
        M(SS(1), "find", <<SS(2)>>), M(SS(1), "split", <<SS(2)>>), M(A(1), "join", <<SS(2)>>), M(N(1), "abs", <<>>), M(A(2), "len", <<>>)}
  \cup {G("two", <<N(1), N(2)>>), G("two", <<N(2), N(1)>>), G("three", <<N(1), N(2), N(3)>>), G("two", <<G("two", <<N(1), N(2)>>), N(3)>>)}
  \cup {[k |-> "arr", es |-> <<N(1), N(2), N(3)>>], [k |-> "arr", es |-> <<N(2), [k |-> "arr", es |-> <<N(3), N(1)>>]>>]}
  \cup {G("typeof", <<N(1)>>), G("to_string", <<N(2)>>)}
\* operands that CHANGE the array another operand of the same expression reads (`w[w.pop()]`): the array operand is
\* evaluated first and is a copy, so the expression sees the array as it was
Make(id, x, e) == [k |-> "make", id |-> id, d |-> 10 * id, n |-> x, site |-> 0, e |-> e]
W == Var("w")
Prelude2 == <<Make(30, "w", [k |-> "arr", es |-> <<Num(40), Num(80), Num(8)>>]),
              Def(31, "shrink", <<>>, <<ExprS(32, M(W, "pop", <<>>)), Ret(33, Num(8))>>),
              Def(34, "grow", <<>>, <<ExprS(35, M(W, "push", <<Num(160)>>)), Ret(36, Num(12))>>),
              Def(37, "swap", <<>>, <<[k |-> "set", id |-> 38, n |-> "w", site |-> 0, e |-> [k |-> "arr", es |-> <<Num(4)>>]], Ret(39, Num(0))>>)>>
SelfExprs ==
  {Idx(W, M(W, "pop", <<>>)), Idx(W, G("shrink", <<>>)), Idx(W, G("grow", <<>>)), Idx(W, G("swap", <<>>)),
   Bin("add", M(W, "len", <<>>), M(W, "pop", <<>>)), Bin("add", M(W, "pop", <<>>), M(W, "len", <<>>)),
   Bin("add", Idx(W, Num(8)), G("shrink", <<>>)), Bin("add", G("shrink", <<>>), Idx(W, Num(4))),
   G("two", <<Idx(W, Num(8)), G("shrink", <<>>)>>), G("two", <<G("grow", <<>>), Idx(W, Num(12))>>),
   [k |-> "arr", es |-> <<W, G("shrink", <<>>), W>>], M(W, "join", <<G("to_string", <<G("shrink", <<>>)>>)>>),
   Idx(Idx([k |-> "arr", es |-> <<W>>], G("swap", <<>>)), Num(8))}
Prog(e) == IF e \in SelfExprs THEN Prelude \o Prelude2 \o <<Shout(20, e), Shout(21, W)>> ELSE Prelude \o <<Shout(20, e)>>
VARIABLES prog, m, fuel, hist
vars == <<prog, m, fuel, hist>>
Init == \E e \in Exprs \cup SelfExprs : prog = S!Resolve(Prog(e)) /\ m = Init0(prog, NoSkip) /\ fuel = 600 /\ hist = <<>>
Next == /\ m.st = "run" /\ fuel > 0 /\ m' = Step(m) /\ fuel' = fuel - 1 /\ prog' = prog
        /\ hist' = IF m'.e # <<>> THEN Append(hist, m'.e) ELSE hist
Spec == Init /\ [][Next]_vars
Finished == m.st # "run" \/ fuel = 0
Emit == Finished => PrintT(ToJson([tag |-> "CASE", prog |-> prog, st |-> IF m.st = "run" THEN "Fuel" ELSE m.st,
                                   why |-> IF m.st \in {"Unspecified", "Unmodelled"} THEN m.e[2] ELSE "",
                                   out |-> m.out, ev |-> hist]))
MachineOk == DoneClean(m) /\ EnvWellFormed(m)
=============================================================================
