//! Program worker: runs NaijaScript sources through the real pipeline in several configurations.
//!
//! request : {"id":N,"src":"..","modes":["fp","fn","np","nn","cli"],"ev":<hook level>,"plan":bool,"render":bool}
//! response: one line per mode, in order:
//!   {"id","mode","st","out":[..],"diags":[..],"events":[..],"plan":{"stmts":[..],"funs":[..]}}
//! `st` is "parse_error", "static_error", "done", the runtime error message, or "PANIC".
//! Before each mode a {"begin":id,"mode":m} line is written so that a dead worker can be blamed.

use std::io::BufRead;

use naijascript::analysis::cfg;
use naijascript::analysis::facts::ProgramFacts;
use naijascript::analysis::limits::{self, AnalysisCaps};
use naijascript::analysis::opt::OptimizationPlan;
use naijascript::arena::{self, Arena, scratch_arena};
use naijascript::diagnostics::Severity;
use naijascript::resolver::Resolver;
use naijascript::runtime::Runtime;
use naijascript::syntax::parser::{Parser, Stmt, StmtRef};
use naijascript::syntax::scanner::Lexer;
use serde_json::{Value as J, json};

use crate::util::{diags_json, guarded, quiet_panics, response_channel, send, value_json};

const MAIN_ARENA: usize = 512 << 20;
const FRAME_ARENA: usize = 512 << 20;
const SCRATCH_ARENA: usize = 256 << 20;

pub fn stmt_start(stmt: StmtRef) -> usize {
    match stmt {
        Stmt::FunctionDef { span, .. }
        | Stmt::Assign { span, .. }
        | Stmt::AssignExisting { span, .. }
        | Stmt::AssignIndex { span, .. }
        | Stmt::If { span, .. }
        | Stmt::Loop { span, .. }
        | Stmt::Block { span, .. }
        | Stmt::Return { span, .. }
        | Stmt::Break { span }
        | Stmt::Continue { span }
        | Stmt::Expression { span, .. } => span.start,
    }
}

const HUGE: AnalysisCaps = AnalysisCaps {
    max_functions: u32::MAX,
    max_locals: u32::MAX,
    max_scopes: u32::MAX,
    max_statements: u32::MAX,
    max_total_ops: u32::MAX,
    max_ops_per_function: u32::MAX,
    max_total_blocks: u32::MAX,
    max_blocks_per_function: u32::MAX,
    max_direct_user_calls: u32::MAX,
    max_summary_events: u64::MAX,
    max_liveness_events: u64::MAX,
};

fn caps_from(j: &J) -> Option<AnalysisCaps> {
    let a = j.as_array()?;
    if a.len() != 11 {
        return None;
    }
    let g = |i: usize| a[i].as_u64().unwrap_or(u64::MAX);
    let g32 = |i: usize| u32::try_from(g(i)).unwrap_or(u32::MAX);
    Some(AnalysisCaps {
        max_functions: g32(0),
        max_locals: g32(1),
        max_scopes: g32(2),
        max_statements: g32(3),
        max_total_ops: g32(4),
        max_ops_per_function: g32(5),
        max_total_blocks: g32(6),
        max_blocks_per_function: g32(7),
        max_direct_user_calls: g32(8),
        max_summary_events: g(9),
        max_liveness_events: g(10),
    })
}

/// The analysis count vector of a program, in the staged order of the limits, with the per-function
/// data the derived bounds are computed from, and the implementation's own metric names.
fn counts_json(src: &str) -> J {
    let arena = Arena::new(MAIN_ARENA).unwrap();
    let lexer = Lexer::new(src, &arena);
    let mut parser = Parser::new(lexer, &arena);
    let (root, perr) = parser.parse_program();
    if !perr.diagnostics.is_empty() {
        return json!({"st": "parse_error"});
    }
    naijascript::verif::set_analysis_caps(Some(HUGE));
    let mut resolver = Resolver::new(&arena);
    resolver.resolve(root);
    naijascript::verif::set_analysis_caps(None);
    if resolver.errors.has_errors() {
        return json!({"st": "static_error"});
    }
    let facts = &resolver.facts;
    let counts = cfg::count_program(facts, &arena);
    let per_fn: Vec<J> = (0..facts.functions.len())
        .map(|i| {
            let r = facts.local_range(naijascript::analysis::ids::FunctionId(i as u32));
            json!([counts.function_blocks[i], counts.function_ops[i], r.end - r.start])
        })
        .collect();
    // learn the metric names: with every other cap huge and one cap at 0, the first exceeded limit is that metric
    let mut names = Vec::new();
    for k in 0..11 {
        let mut v: Vec<J> = (0..11).map(|_| json!(u64::MAX)).collect();
        v[k] = json!(0);
        let caps = caps_from(&J::Array(v)).unwrap();
        naijascript::verif::set_analysis_caps(None);
        let name = limits::first_exceeded_limit(facts, &counts, caps).map(|l| l.metric);
        names.push(json!(name));
    }
    json!({"st": "ok",
           "counts": [facts.functions.len(), facts.locals.len(), facts.scopes.len(), facts.stmt_effects.len(), counts.total_ops,
                      counts.function_ops.iter().copied().max().unwrap_or(0), counts.total_blocks,
                      counts.function_blocks.iter().copied().max().unwrap_or(0), facts.user_calls.len()],
           "per_function": per_fn, "names": names})
}

fn plan_json(facts: &ProgramFacts, plan: Option<&OptimizationPlan>) -> J {
    let Some(plan) = plan else { return J::Null };
    let mut stmts = Vec::new();
    for b in &facts.stmt_ids {
        if plan.contains_removable_stmt(b.id) {
            stmts.push(stmt_start(b.stmt));
        }
    }
    stmts.sort_unstable();
    let mut funs: Vec<usize> = plan
        .removable_function_defs
        .iter()
        .map(|f| facts.functions[f.0 as usize].def_span.start)
        .collect();
    funs.sort_unstable();
    json!({"stmts": stmts, "funs": funs})
}

struct Req<'a> {
    caps: Option<AnalysisCaps>,
    src: &'a str,
    filename: &'a str,
    ev: u32,
    want_plan: bool,
    render: bool,
}

fn events_json(evs: Vec<String>) -> Vec<J> {
    evs.iter().map(|e| serde_json::from_str(e).unwrap_or_else(|_| json!({"ev": "BAD", "raw": e}))).collect()
}

/// Library pipeline with separate arenas. `frame_on`/`plan_on` select the configuration.
fn run_lib(req: &Req, frame_on: bool, plan_on: bool) -> J {
    let arena = Arena::new(MAIN_ARENA).unwrap();
    let frame = Arena::new(FRAME_ARENA).unwrap();
    let src = req.src;
    let lexer = Lexer::new(src, &arena);
    let mut parser = Parser::new(lexer, &arena);
    let (root, perr) = parser.parse_program();
    if !perr.diagnostics.is_empty() {
        let mut r = json!({"st": "parse_error", "diags": diags_json(perr, src)});
        if req.render {
            r["stdout"] = json!(perr.render_ansi(src, req.filename).to_string());
        }
        return r;
    }
    naijascript::verif::set_analysis_caps(req.caps);
    let mut resolver = Resolver::new(&arena);
    resolver.resolve(root);
    naijascript::verif::set_analysis_caps(None);
    let mut diags = diags_json(&resolver.errors, src);
    if resolver.errors.has_errors() {
        let mut r = json!({"st": "static_error", "diags": diags});
        if req.render {
            r["stdout"] = json!(resolver.errors.render_ansi(src, req.filename).to_string());
        }
        return r;
    }
    let plan = resolver.optimization_plan.as_ref();
    let pj = if req.want_plan { plan_json(&resolver.facts, plan) } else { J::Null };
    let mut rt = Runtime::new(&arena, if frame_on { Some(&frame) } else { None });
    if req.ev != 0 {
        naijascript::verif::start(req.ev);
    }
    rt.run_with_analysis(root, &resolver.facts, if plan_on { plan } else { None });
    let evs = if req.ev != 0 { naijascript::verif::take() } else { Vec::new() };
    let out: Vec<J> = rt.output.iter().map(value_json).collect();
    let st = rt
        .errors
        .diagnostics
        .iter()
        .find(|d| d.severity == Severity::Error)
        .map_or("done", |d| d.message);
    diags.extend(diags_json(&rt.errors, src));
    let printed: Vec<String> = rt.output.iter().map(|v| v.to_string()).collect();
    let mut r = json!({"st": st, "out": out, "diags": diags, "events": events_json(evs), "plan": pj, "printed": printed,
                       "plan_present": plan.is_some()});
    if req.render {
        let mut stdout = resolver.errors.render_ansi(src, req.filename).to_string();
        for p in r["printed"].as_array().unwrap() {
            stdout.push_str(p.as_str().unwrap());
            stdout.push('\n');
        }
        stdout.push_str(&rt.errors.render_ansi(src, req.filename));
        r["stdout"] = json!(stdout);
        r["rendered"] = json!(format!(
            "{}{}",
            resolver.errors.render_ansi(src, "t.ns"),
            rt.errors.render_ansi(src, "t.ns")
        ));
    }
    r
}

/// Replica of the shipped pipeline (`src/bin/naija/cmd.rs::run_source`, `wasm/src/lib.rs`):
/// two global scratch arenas shared between parser, resolver and runtime.
fn run_cli(req: &Req) -> J {
    if req.ev != 0 {
        naijascript::verif::start(req.ev);
    }
    let r = run_cli_inner(req);
    let evs = if req.ev != 0 { naijascript::verif::take() } else { Vec::new() };
    let mut r = r;
    r["events"] = json!(events_json(evs));
    r
}

fn run_cli_inner(req: &Req) -> J {
    arena::init(SCRATCH_ARENA).unwrap();
    let arena = scratch_arena(None);
    let src = req.src;
    let lexer = Lexer::new(src, &arena);
    let mut parser = Parser::new(lexer, &arena);
    let (root, perr) = parser.parse_program();
    if !perr.diagnostics.is_empty() {
        return json!({"st": "parse_error", "diags": diags_json(perr, src), "stdout": perr.render_ansi(src, req.filename).to_string()});
    }
    let res_arena = scratch_arena(Some(&arena));
    let mut resolver = Resolver::with_facts_arena(&res_arena, &arena);
    resolver.resolve(root);
    let mut diags = diags_json(&resolver.errors, src);
    let static_text = resolver.errors.render_ansi(src, req.filename).to_string();
    if resolver.errors.has_errors() {
        return json!({"st": "static_error", "diags": diags, "stdout": static_text});
    }
    let (facts, plan) = resolver.into_artifacts();
    let frame = scratch_arena(Some(&arena));
    let mut rt = Runtime::new(&arena, Some(&frame));
    rt.run_with_analysis(root, &facts, plan.as_ref());
    let out: Vec<J> = rt.output.iter().map(value_json).collect();
    let printed: Vec<String> = rt.output.iter().map(|v| v.to_string()).collect();
    let st = rt
        .errors
        .diagnostics
        .iter()
        .find(|d| d.severity == Severity::Error)
        .map_or("done", |d| d.message);
    diags.extend(diags_json(&rt.errors, src));
    // what the shipped binary prints: static warnings, the shouted values, runtime diagnostics
    let mut stdout = static_text;
    for p in &printed {
        stdout.push_str(p);
        stdout.push('\n');
    }
    stdout.push_str(&rt.errors.render_ansi(src, req.filename));
    json!({"st": st, "out": out, "diags": diags, "printed": printed, "stdout": stdout})
}

pub fn worker() {
    let mut out = response_channel();
    quiet_panics();
    // "reuse": true runs the script from ONE buffer that keeps its address from request to request,
    // as the playground's entry point sees it (same-length scripts at the same address)
    let mut reused = String::with_capacity(4 << 20);
    for line in std::io::stdin().lock().lines() {
        let Ok(line) = line else { break };
        if line.trim().is_empty() {
            continue;
        }
        let j: J = serde_json::from_str(&line).expect("bad request");
        let id = j["id"].clone();
        let src = j["src"].as_str().unwrap_or("");
        let src = if j["reuse"].as_bool().unwrap_or(false) && src.len() <= reused.capacity() {
            reused.clear();
            reused.push_str(src);
            reused.as_str()
        } else {
            src
        };
        let req = Req {
            caps: caps_from(&j["caps"]),
            src,
            filename: j["filename"].as_str().unwrap_or("t.ns"),
            ev: j["ev"].as_u64().unwrap_or(0) as u32,
            want_plan: j["plan"].as_bool().unwrap_or(false),
            render: j["render"].as_bool().unwrap_or(false),
        };
        let modes: Vec<String> = j["modes"]
            .as_array()
            .map(|a| a.iter().filter_map(|m| m.as_str().map(String::from)).collect())
            .unwrap_or_else(|| vec!["fp".into()]);
        for mode in modes {
            send(&mut out, &json!({"begin": id, "mode": mode}));
            let res = guarded(|| match mode.as_str() {
                "cli" => run_cli(&req),
                "counts" => counts_json(req.src),
                m => {
                    let b = m.as_bytes();
                    run_lib(&req, b[0] == b'f', b.get(1) == Some(&b'p'))
                }
            });
            let mut r = match res {
                Ok(r) => r,
                Err(msg) => {
                    // a panic may have left hook recording on
                    let _ = naijascript::verif::take();
                    json!({"st": "PANIC", "panic": msg})
                }
            };
            r["id"] = id.clone();
            r["mode"] = json!(mode);
            send(&mut out, &r);
        }
    }
}
