//! `vh strs`: worker for C13 (string built-ins agree with their specification).
//!
//! Strings travel as arrays of code points in both directions. Every result string is checked
//! for UTF-8 validity on its raw bytes first; an invalid one comes back as {"bad":[bytes]}.
//!
//! request  {"id":N,"modes":[..],"s":[cps],"calls":[[op,arg..],..]}           modes "direct" | "script"
//!   ops: ["find",n] ["replace",old,new] ["split",p] ["slice",a,b] ["len"] ["trim"] ["upper"]
//!        ["lower"] ["num"];  a, b: a JSON number, or "nan" | "inf" | "-inf"
//!   "direct": the public Rust functions (`naijascript::builtins::find`, `replace`,
//!             `StringBuiltin::*`, `ArrayBuiltin::join`), one panic guard per call
//!   "script": one program `shout(<s>.find(<n>))` ... through Lexer -> Parser -> Resolver ->
//!             Runtime; results are read from `Runtime.output`
//!   response {"id","mode","st":"done"|<runtime error>|"PANIC"|..,"r":[result..]}, one result per call:
//!     {"n":x} (x a number or "NaN"/"inf"/"-inf") | {"s":[cps]} | {"bad":[bytes]} |
//!     {"parts":[..],"joined":..} for split (joined = the pieces joined with the same pattern) |
//!     {"panic":msg};  direct find / replace also carry "raw": the result of `builtins::find` / `builtins::replace`
//! request  {"id":N,"modes":["trace"],"h":[cps],"n":[cps],"new":[cps]}
//!   runs `builtins::find(h, n)` with the matcher's iteration hook on, then `replace(h, n, new)`
//!   response {"res":k|-1,"events":[..],"hb":[bytes of h],"nb":[bytes of n],"newb":[..],"rep":[bytes]|null}
//! Before each mode a {"begin":id,"mode":m} line is written so that a dead worker can be blamed.

use std::io::BufRead;

use naijascript::arena::{Arena, ArenaCow, ArenaString};
use naijascript::builtins::{self, ArrayBuiltin, StringBuiltin};
use naijascript::diagnostics::Severity;
use naijascript::resolver::Resolver;
use naijascript::runtime::{Runtime, Value};
use naijascript::syntax::parser::Parser;
use naijascript::syntax::scanner::Lexer;
use serde_json::{Value as J, json};

use crate::util::{guarded, quiet_panics, response_channel, send};

const MAIN_ARENA: usize = 512 << 20;
const FRAME_ARENA: usize = 512 << 20;
const CALL_ARENA: usize = 64 << 20;

fn cps_to_string(j: &J) -> String {
    j.as_array()
        .map(|a| a.iter().filter_map(|c| c.as_u64().and_then(|c| char::from_u32(c as u32))).collect())
        .unwrap_or_default()
}

/// A result string: code points if its bytes are valid UTF-8, the raw bytes otherwise.
fn str_json(bytes: &[u8]) -> J {
    match std::str::from_utf8(bytes) {
        Ok(s) => json!({"s": s.chars().map(|c| c as u32).collect::<Vec<_>>()}),
        Err(_) => json!({"bad": bytes}),
    }
}

fn num_json(x: f64) -> J {
    if x.is_finite() { json!({"n": x}) } else { json!({"n": format!("{x:?}")}) }
}

fn bound(j: &J) -> f64 {
    match j {
        J::String(s) => match s.as_str() {
            "nan" => f64::NAN,
            "inf" => f64::INFINITY,
            "-inf" => f64::NEG_INFINITY,
            _ => panic!("bad bound token {s}"),
        },
        _ => j.as_f64().expect("bad bound"),
    }
}

// ---------------------------------------------------------------- direct route

fn direct_call(s: &str, call: &J) -> J {
    let arena = Arena::new(CALL_ARENA).unwrap();
    let op = call[0].as_str().unwrap_or("");
    match op {
        "find" => {
            let n = cps_to_string(&call[1]);
            let raw = builtins::find(s, &n).map_or(-1.0, |v| v as f64);
            let mut r = num_json(StringBuiltin::find(s, &n));
            r["raw"] = num_json(raw);
            r
        }
        "replace" => {
            let (old, new) = (cps_to_string(&call[1]), cps_to_string(&call[2]));
            let raw = builtins::replace(&arena, s, &old, &new);
            let mut r = str_json(StringBuiltin::replace(s, &old, &new, &arena).as_bytes());
            r["raw"] = str_json(raw.as_bytes());
            r
        }
        "split" => {
            let p = cps_to_string(&call[1]);
            let mut items: Vec<Value, &Arena> = Vec::new_in(&arena);
            let mut parts = Vec::new();
            for piece in StringBuiltin::split(s, &p, &arena) {
                parts.push(str_json(piece.as_bytes()));
                items.push(Value::Str(ArenaCow::owned(piece)));
            }
            let joined = ArrayBuiltin::join(&items, &p, &arena);
            json!({"parts": parts, "joined": str_json(joined.as_bytes())})
        }
        "slice" => str_json(StringBuiltin::slice(s, bound(&call[1]), bound(&call[2]), &arena).as_bytes()),
        "len" => num_json(StringBuiltin::len(s)),
        "trim" => str_json(StringBuiltin::trim(s, &arena).as_bytes()),
        "upper" => str_json(StringBuiltin::to_uppercase(s, &arena).as_bytes()),
        "lower" => str_json(StringBuiltin::to_lowercase(s, &arena).as_bytes()),
        "num" => num_json(StringBuiltin::to_number(s)),
        _ => json!({"panic": format!("unknown op {op}")}),
    }
}

fn run_direct(s: &str, calls: &[J]) -> J {
    let r: Vec<J> = calls
        .iter()
        .map(|c| guarded(|| direct_call(s, c)).unwrap_or_else(|msg| json!({"panic": msg})))
        .collect();
    json!({"st": "done", "r": r})
}

// ---------------------------------------------------------------- script route

fn lit(s: &str) -> String {
    assert!(!s.contains(['"', '\\', '{', '}', '\n', '\r']), "string not expressible as a plain literal");
    format!("\"{s}\"")
}

fn num_lit(j: &J) -> String {
    match j {
        J::String(s) => match s.as_str() {
            "nan" => "\"x\".to_number()".into(),
            "inf" => "\"inf\".to_number()".into(),
            "-inf" => "\"-inf\".to_number()".into(),
            _ => panic!("bad bound token {s}"),
        },
        _ => {
            let x = j.as_f64().expect("bad bound");
            if x < 0.0 { format!("(minus {})", -x) } else { format!("{x}") }
        }
    }
}

/// The program for a request and, per call, how many `shout`s it makes.
fn script_for(s: &str, calls: &[J]) -> (String, Vec<usize>) {
    let mut src = String::new();
    let mut widths = Vec::new();
    let recv = lit(s);
    for c in calls {
        let op = c[0].as_str().unwrap_or("");
        let mut w = 1;
        match op {
            "find" => src.push_str(&format!("shout({recv}.find({}))\n", lit(&cps_to_string(&c[1])))),
            "replace" => src.push_str(&format!(
                "shout({recv}.replace({}, {}))\n",
                lit(&cps_to_string(&c[1])),
                lit(&cps_to_string(&c[2]))
            )),
            "split" => {
                let p = lit(&cps_to_string(&c[1]));
                src.push_str(&format!("shout({recv}.split({p}))\nshout({recv}.split({p}).join({p}))\n"));
                w = 2;
            }
            "slice" => src.push_str(&format!("shout({recv}.slice({}, {}))\n", num_lit(&c[1]), num_lit(&c[2]))),
            "len" => src.push_str(&format!("shout({recv}.len())\n")),
            "trim" => src.push_str(&format!("shout({recv}.trim())\n")),
            "upper" => src.push_str(&format!("shout({recv}.to_uppercase())\n")),
            "lower" => src.push_str(&format!("shout({recv}.to_lowercase())\n")),
            "num" => src.push_str(&format!("shout({recv}.to_number())\n")),
            _ => panic!("unknown op {op}"),
        }
        widths.push(w);
    }
    (src, widths)
}

fn out_json(v: &Value) -> J {
    match v {
        Value::Number(n) => num_json(*n),
        Value::Str(s) => str_json(s.as_bytes()),
        Value::Array(a) => json!({"arr": a.iter().map(out_json).collect::<Vec<_>>()}),
        other => json!({"other": other.to_string()}),
    }
}

fn run_script(s: &str, calls: &[J]) -> J {
    let (src, widths) = script_for(s, calls);
    let arena = Arena::new(MAIN_ARENA).unwrap();
    let frame = Arena::new(FRAME_ARENA).unwrap();
    let lexer = Lexer::new(&src, &arena);
    let mut parser = Parser::new(lexer, &arena);
    let (root, perr) = parser.parse_program();
    if !perr.diagnostics.is_empty() {
        return json!({"st": "parse_error", "r": [], "src": src, "diag": perr.diagnostics[0].message});
    }
    let mut resolver = Resolver::new(&arena);
    resolver.resolve(root);
    if resolver.errors.has_errors() {
        let d = resolver.errors.diagnostics.iter().find(|d| d.severity == Severity::Error).map(|d| d.message);
        return json!({"st": "static_error", "r": [], "src": src, "diag": d});
    }
    let mut rt = Runtime::new(&arena, Some(&frame));
    rt.run_with_analysis(root, &resolver.facts, resolver.optimization_plan.as_ref());
    let st = rt.errors.diagnostics.iter().find(|d| d.severity == Severity::Error).map_or("done", |d| d.message);
    let outs: Vec<J> = rt.output.iter().map(out_json).collect();
    let mut r = Vec::new();
    let mut at = 0;
    for w in widths {
        if at + w > outs.len() {
            break;
        }
        if w == 1 {
            r.push(outs[at].clone());
        } else {
            r.push(json!({"parts": outs[at]["arr"], "joined": outs[at + 1]}));
        }
        at += w;
    }
    let mut res = json!({"st": st, "r": r});
    if st != "done" || at != outs.len() {
        res["src"] = json!(src);
        res["nout"] = json!(outs.len());
    }
    res
}

// ---------------------------------------------------------------- matcher traces

fn run_trace(j: &J) -> J {
    let (h, n, new) = (cps_to_string(&j["h"]), cps_to_string(&j["n"]), cps_to_string(&j["new"]));
    naijascript::verif::start(builtins::VERIF_TW);
    let found = guarded(|| builtins::find(&h, &n));
    let events: Vec<J> = naijascript::verif::take()
        .iter()
        .map(|e| serde_json::from_str(e).unwrap_or_else(|_| json!({"ev": "BAD", "raw": e})))
        .collect();
    let mut r = json!({"hb": h.as_bytes(), "nb": n.as_bytes(), "newb": new.as_bytes(), "events": events});
    match found {
        Ok(v) => r["res"] = json!(v.map_or(-1, |v| v as i64)),
        Err(msg) => {
            r["st"] = json!("PANIC");
            r["panic"] = json!(msg);
            return r;
        }
    }
    let arena = Arena::new(CALL_ARENA).unwrap();
    match guarded(|| {
        let out: ArenaString = builtins::replace(&arena, &h, &n, &new);
        (out.as_bytes().to_vec(), std::str::from_utf8(out.as_bytes()).is_ok())
    }) {
        Ok((bytes, valid)) => {
            r["rep"] = json!(bytes);
            r["rep_utf8"] = json!(valid);
            r["st"] = json!("done");
        }
        Err(msg) => {
            r["st"] = json!("PANIC");
            r["panic"] = json!(format!("replace: {msg}"));
        }
    }
    r
}

pub fn worker() {
    let mut out = response_channel();
    quiet_panics();
    for line in std::io::stdin().lock().lines() {
        let Ok(line) = line else { break };
        if line.trim().is_empty() {
            continue;
        }
        let j: J = serde_json::from_str(&line).expect("bad request");
        let id = j["id"].clone();
        let s = cps_to_string(&j["s"]);
        let empty = Vec::new();
        let calls = j["calls"].as_array().unwrap_or(&empty);
        let modes: Vec<String> = j["modes"]
            .as_array()
            .map(|a| a.iter().filter_map(|m| m.as_str().map(String::from)).collect())
            .unwrap_or_else(|| vec!["direct".into()]);
        for mode in modes {
            send(&mut out, &json!({"begin": id, "mode": mode}));
            let res = guarded(|| match mode.as_str() {
                "direct" => run_direct(&s, calls),
                "script" => run_script(&s, calls),
                "trace" => run_trace(&j),
                m => json!({"st": format!("unknown mode {m}")}),
            });
            let mut r = match res {
                Ok(r) => r,
                Err(msg) => {
                    let _ = naijascript::verif::take();
                    json!({"st": "PANIC", "panic": msg, "r": []})
                }
            };
            r["id"] = id.clone();
            r["mode"] = json!(mode);
            send(&mut out, &r);
        }
    }
}
