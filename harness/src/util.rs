//! Shared plumbing: response channel, stdout silencing, panic capture.

use std::cell::RefCell;
use std::fs::File;
use std::io::Write;
use std::os::fd::FromRawFd;
use std::panic;

use naijascript::diagnostics::{Diagnostics, Severity};
use naijascript::runtime::Value;
use serde_json::{Value as J, json};

/// Duplicates the original stdout for responses and points fd 1 at /dev/null.
pub fn response_channel() -> File {
    unsafe {
        let out = libc::dup(1);
        let dn = libc::open(c"/dev/null".as_ptr(), libc::O_WRONLY);
        libc::dup2(dn, 1);
        libc::close(dn);
        File::from_raw_fd(out)
    }
}

pub fn send(out: &mut File, v: &J) {
    let mut s = v.to_string();
    s.push('\n');
    out.write_all(s.as_bytes()).unwrap();
    out.flush().unwrap();
}

thread_local! {
    static LAST_PANIC: RefCell<Option<String>> = const { RefCell::new(None) };
}

/// Installs a panic hook that records `file:line: message` instead of printing.
pub fn quiet_panics() {
    panic::set_hook(Box::new(|info| {
        let loc = info.location().map(|l| format!("{}:{}", l.file(), l.line())).unwrap_or_default();
        let msg = if let Some(s) = info.payload().downcast_ref::<&str>() {
            (*s).to_string()
        } else if let Some(s) = info.payload().downcast_ref::<String>() {
            s.clone()
        } else {
            "<non-string panic>".to_string()
        };
        LAST_PANIC.with(|p| *p.borrow_mut() = Some(format!("{loc}: {msg}")));
    }));
}

/// Runs `f`, turning a panic into `Err(description)`.
pub fn guarded<T>(f: impl FnOnce() -> T) -> Result<T, String> {
    LAST_PANIC.with(|p| *p.borrow_mut() = None);
    match panic::catch_unwind(panic::AssertUnwindSafe(f)) {
        Ok(v) => Ok(v),
        Err(_) => Err(LAST_PANIC.with(|p| p.borrow_mut().take()).unwrap_or_else(|| "panic".into())),
    }
}

pub fn value_json(v: &Value) -> J {
    match v {
        Value::Number(n) => {
            if n.is_finite() {
                json!({"t": "num", "v": n})
            } else {
                json!({"t": "num", "v": format!("{n:?}")})
            }
        }
        Value::Str(s) => json!({"t": "str", "v": s.to_string()}),
        Value::Bool(b) => json!({"t": "bool", "v": b}),
        Value::Null => json!({"t": "null"}),
        Value::Array(a) => json!({"t": "arr", "v": a.iter().map(value_json).collect::<Vec<_>>()}),
        Value::Host(..) => json!({"t": "host", "v": v.to_string()}),
    }
}

pub fn sev(s: Severity) -> &'static str {
    match s {
        Severity::Error => "error",
        Severity::Warning => "warning",
        Severity::Note => "note",
    }
}

/// Diagnostics as JSON, with span sanity (`bad`) computed against the source text.
pub fn diags_json(d: &Diagnostics, src: &str) -> Vec<J> {
    d.diagnostics
        .iter()
        .map(|x| {
            let labels: Vec<J> = x
                .labels
                .iter()
                .map(|l| json!({"span": [l.span.start, l.span.end], "msg": l.message.to_string(), "bad": span_bad(l.span.start, l.span.end, src)}))
                .collect();
            json!({"sev": sev(x.severity), "code": x.code, "msg": x.message,
                   "span": [x.span.start, x.span.end], "bad": span_bad(x.span.start, x.span.end, src), "labels": labels})
        })
        .collect()
}

/// Empty string if the span is ordered, inside the text and on character boundaries.
pub fn span_bad(start: usize, end: usize, src: &str) -> &'static str {
    if start > end {
        "unordered"
    } else if end > src.len() {
        "outside"
    } else if !src.is_char_boundary(start) || !src.is_char_boundary(end) {
        "boundary"
    } else {
        ""
    }
}
