//! Front-end worker (C07, C10): lexes, parses, resolves and renders a source text.
//!
//! request : {"id":N,"src":".."}
//! response: {"id","mode":"front","tokens":[[kind,start,end,text]..],"lex_errors":n,"perr":bool,"serr":bool,
//!            "errors":[message..],"bad":[span problems..],"rendered":bool}  or {"st":"PANIC","panic":..}

use std::io::BufRead;

use naijascript::arena::Arena;
use naijascript::diagnostics::{Diagnostics, Severity};
use naijascript::resolver::Resolver;
use naijascript::syntax::parser::Parser;
use naijascript::syntax::scanner::Lexer;
use naijascript::syntax::token::Token;
use serde_json::{Value as J, json};

use crate::util::{guarded, quiet_panics, response_channel, send, span_bad};

fn kind(t: &Token) -> (&'static str, String) {
    match t {
        Token::Identifier(s) => ("id", (*s).to_string()),
        Token::Number(s) => ("num", (*s).to_string()),
        Token::String(s) => ("str", s.to_string()),
        Token::IfToSay => ("ifsay", String::new()),
        Token::IfNotSo => ("ifnot", String::new()),
        Token::SmallPass => ("smallpass", String::new()),
        Token::LParen | Token::RParen | Token::LBracket | Token::RBracket | Token::Comma | Token::Dot => {
            ("p", t.to_string())
        }
        Token::EOF => ("eof", String::new()),
        other => ("kw", other.to_string()),
    }
}

fn check_spans(d: &Diagnostics, src: &str, bad: &mut Vec<String>, errors: &mut Vec<String>) {
    for diag in &d.diagnostics {
        if diag.severity == Severity::Error {
            errors.push(diag.message.to_string());
        }
        let b = span_bad(diag.span.start, diag.span.end, src);
        if !b.is_empty() {
            bad.push(format!("diag:{b}:{}..{}:{}", diag.span.start, diag.span.end, diag.message));
        }
        for l in &diag.labels {
            let b = span_bad(l.span.start, l.span.end, src);
            if !b.is_empty() {
                bad.push(format!("label:{b}:{}..{}:{}", l.span.start, l.span.end, diag.message));
            }
        }
    }
}

fn run(src: &str) -> J {
    let arena = Arena::new(256 << 20).unwrap();
    let mut bad = Vec::new();
    let mut errors = Vec::new();
    // token stream through the public iterator
    let mut tokens = Vec::new();
    let mut lex = Lexer::new(src, &arena);
    let mut last_end = 0usize;
    for st in lex.by_ref() {
        let (k, text) = kind(&st.token);
        let b = span_bad(st.span.start, st.span.end, src);
        if !b.is_empty() {
            bad.push(format!("token:{b}:{}..{}", st.span.start, st.span.end));
        }
        if st.span.start < last_end {
            bad.push(format!("token:overlap:{}..{}", st.span.start, st.span.end));
        }
        last_end = st.span.end.max(last_end);
        tokens.push(json!([k, st.span.start, st.span.end, text]));
        if tokens.len() > 100_000 {
            break;
        }
    }
    let lex_errors = lex.errors.diagnostics.len();
    // full front end
    let lexer = Lexer::new(src, &arena);
    let mut parser = Parser::new(lexer, &arena);
    let (root, perr) = parser.parse_program();
    check_spans(perr, src, &mut bad, &mut errors);
    let perr_flag = !perr.diagnostics.is_empty();
    let mut rendered = true;
    if bad.is_empty() {
        let _ = perr.render_ansi(src, "t.ns");
    } else {
        rendered = false;
    }
    let mut resolver = Resolver::new(&arena);
    resolver.resolve(root);
    let before = bad.len();
    check_spans(&resolver.errors, src, &mut bad, &mut errors);
    let serr = resolver.errors.has_errors();
    if bad.len() == before {
        let _ = resolver.errors.render_ansi(src, "t.ns");
    } else {
        rendered = false;
    }
    json!({"tokens": tokens, "lex_errors": lex_errors, "perr": perr_flag, "serr": serr, "errors": errors, "bad": bad, "rendered": rendered})
}

/// Renders even when spans look bad (to observe the crash the property forbids).
fn run_render_anyway(src: &str) -> J {
    let arena = Arena::new(256 << 20).unwrap();
    let lexer = Lexer::new(src, &arena);
    let mut parser = Parser::new(lexer, &arena);
    let (root, perr) = parser.parse_program();
    let _ = perr.render_ansi(src, "t.ns");
    let mut resolver = Resolver::new(&arena);
    resolver.resolve(root);
    let _ = resolver.errors.render_ansi(src, "t.ns");
    json!({"rendered": true})
}

/// Parser diagnostics as data plus the text the renderer produces for them (for specs/text/Render.tla).
fn run_render_text(src: &str) -> J {
    let arena = Arena::new(256 << 20).unwrap();
    let lexer = Lexer::new(src, &arena);
    let mut parser = Parser::new(lexer, &arena);
    let (_, perr) = parser.parse_program();
    let diags: Vec<J> = perr
        .diagnostics
        .iter()
        .map(|d| {
            json!({"sev": if d.severity == Severity::Error { "error" } else { "warning" }, "code": d.code, "msg": d.message,
                   "span": [d.span.start, d.span.end],
                   "labels": d.labels.iter().map(|l| json!({"span": [l.span.start, l.span.end], "msg": l.message.to_string()})).collect::<Vec<_>>()})
        })
        .collect();
    let text = perr.render_ansi(src, "t.ns");
    json!({"diags": diags, "text": text.as_str()})
}

/// Tokens only (no parser, no rendering): long inputs whose diagnostics would take for ever to render.
fn run_lex_only(src: &str) -> J {
    let arena = Arena::new(1 << 30).unwrap();
    let mut lex = Lexer::new(src, &arena);
    let mut n = 0usize;
    let mut last_end = 0usize;
    let mut bad = 0usize;
    for st in lex.by_ref() {
        n += 1;
        if st.span.start > st.span.end || st.span.end > src.len() || st.span.start < last_end {
            bad += 1;
        }
        last_end = st.span.end.max(last_end);
    }
    json!({"tokens": n, "lex_errors": lex.errors.diagnostics.len(), "bad_spans": bad})
}

/// Lexer + parser only (no checker, no rendering): long runs of tokens the parser has to recover from.
fn run_parse_only(src: &str) -> J {
    let arena = Arena::new(1 << 30).unwrap();
    let lexer = Lexer::new(src, &arena);
    let mut parser = Parser::new(lexer, &arena);
    let (root, perr) = parser.parse_program();
    json!({"stmts": root.stmts.len(), "errors": perr.diagnostics.len()})
}

pub fn worker() {
    let mut out = response_channel();
    quiet_panics();
    for line in std::io::stdin().lock().lines() {
        let Ok(line) = line else { break };
        if line.trim().is_empty() {
            continue;
        }
        let j: J = serde_json::from_str(&line).expect("bad request");
        let id = j["id"].clone();
        let src = j["src"].as_str().unwrap_or("").to_string();
        let modes: Vec<String> = j["modes"]
            .as_array()
            .map(|a| a.iter().filter_map(|m| m.as_str().map(String::from)).collect())
            .unwrap_or_else(|| vec!["front".into(), "render".into()]);
        for mode in modes {
            send(&mut out, &json!({"begin": id, "mode": mode}));
            let res = guarded(|| match mode.as_str() {
                "front" => run(&src),
                "rendertext" => run_render_text(&src),
                "lex" => run_lex_only(&src),
                "parse" => run_parse_only(&src),
                _ => run_render_anyway(&src),
            });
            let mut r = match res {
                Ok(r) => r,
                Err(msg) => json!({"st": "PANIC", "panic": msg}),
            };
            r["id"] = id.clone();
            r["mode"] = json!(mode);
            send(&mut out, &r);
        }
    }
}
