#![feature(allocator_api)]
//! `vh` — conformance harness for the TLA+ specifications in /verif/specs.
//!
//! Worker protocol (all modes): ndjson requests on stdin, ndjson responses on the fd that was
//! stdout at start-up (fd 1 itself is redirected to /dev/null because the interpreter prints
//! `shout` output there). A worker that dies is restarted by the driver; the request in flight
//! is attributed the crash.

mod arena;
mod front;
mod info;
mod pool;
mod procs;
mod prog;
mod strs;
mod util;

fn main() {
    let args: Vec<String> = std::env::args().collect();
    let mode = args.get(1).map(String::as_str).unwrap_or("");
    match mode {
        "prog" => prog::worker(),
        "arena" => arena::worker(),
        "pool" => pool::worker(),
        "info" => info::info(),
        "procs" => procs::worker(),
        "strs" => strs::worker(),
        "front" => front::worker(),
        _ => {
            eprintln!("usage: vh <prog> ...");
            std::process::exit(2);
        }
    }
}
