//! `vh info`: the crate's own names for error kinds, so that rewording a message is not an alarm.
use naijascript::diagnostics::AsStr;
use naijascript::resolver::SemanticError;
use naijascript::runtime::RuntimeErrorKind;
use naijascript::syntax::parser::SyntaxError;
use naijascript::syntax::scanner::LexError;
use serde_json::json;

pub fn info() {
    let v = json!({
        "runtime": {
            "Division by zero": RuntimeErrorKind::DivisionByZero.as_str(),
            "Stack overflow": RuntimeErrorKind::StackOverflow.as_str(),
            "Index out of bounds": RuntimeErrorKind::IndexOutOfBounds.as_str(),
            "Type mismatch": RuntimeErrorKind::TypeMismatch.as_str(),
            "Invalid index": RuntimeErrorKind::InvalidIndex.as_str(),
            "Uninitialized variable": RuntimeErrorKind::UninitializedVariable.as_str(),
            "Array too deep": RuntimeErrorKind::ArrayTooDeep.as_str(),
            "Process denied": RuntimeErrorKind::ProcessDenied.as_str(),
            "Process unsupported": RuntimeErrorKind::ProcessUnsupported.as_str(),
            "Process spawn failed": RuntimeErrorKind::ProcessSpawnFailed("").as_str(),
            "Process timeout": RuntimeErrorKind::ProcessTimeout.as_str(),
            "Process output limit": RuntimeErrorKind::ProcessOutputLimitExceeded("").as_str(),
            "Process invalid utf8": RuntimeErrorKind::ProcessInvalidUtf8("").as_str(),
            "Process spec invalid": RuntimeErrorKind::ProcessSpecInvalid("").as_str(),
            "IO": RuntimeErrorKind::Io("").as_str(),
        },
        "semantic": {
            "duplicate": SemanticError::DuplicateIdentifier.as_str(),
            "assign-undeclared": SemanticError::AssignmentToUndeclared.as_str(),
            "type": SemanticError::TypeMismatch.as_str(),
            "undeclared": SemanticError::UndeclaredIdentifier.as_str(),
            "arity": SemanticError::FunctionCallArity.as_str(),
            "unreachable": SemanticError::UnreachableCode.as_str(),
            "unused-assignment": SemanticError::UnusedAssignment.as_str(),
            "unused-variable": SemanticError::UnusedVariable.as_str(),
            "unused-function": SemanticError::UnusedFunction.as_str(),
            "reserved": SemanticError::ReservedKeyword.as_str(),
        },
        "syntax": {
            "reserved": SyntaxError::ReservedKeyword.as_str(),
            "expected-statement": SyntaxError::ExpectedStatement.as_str(),
            "invalid-target": SyntaxError::InvalidAssignmentTarget.as_str(),
            "nesting-too-deep": SyntaxError::NestingTooDeep.as_str(),
        },
        "lex": {
            "unexpected-char": LexError::UnexpectedChar.as_str(),
            "invalid-number": LexError::InvalidNumber.as_str(),
            "invalid-identifier": LexError::InvalidIdentifier.as_str(),
            "invalid-escape": LexError::InvalidStringEscape.as_str(),
            "unterminated-string": LexError::UnterminatedString.as_str(),
        },
    });
    println!("{v}");
}
