//! Process worker (C15, C16): runs NaijaScript scripts that build and run commands under a
//! given host policy, with the scriptable child `vchild`.
//!
//! request  {"id":N,"modes":["run"],"kind":"builder"|"capture","src":"..","policy":{..}, ...}
//!   builder: "out": side-file path for `vchild` report mode
//!   capture: "schedule": [["gate",name(, "timeout")] | ["child",cmd] ...] or null (free run),
//!            "sock": path of the control socket (scheduled runs), "rest": child commands to
//!            send after the schedule ended or was abandoned
//! response {"id","mode","st","ekind","estream","out":[..],"diags":[..], ...}
//!   builder: "marker":bool, "report":{..}|null, "parent_env":[[hexk,hexv]..], "parent_cwd":hex
//!   capture: "events":[..], "pid":N|null, "alive_after":bool, "log":[..], "unrealised":null|{..},
//!            "child_done":[cmds the child acknowledged]

use std::io::{BufRead, BufReader, Write};
use std::os::unix::ffi::OsStrExt;
use std::os::unix::net::{UnixListener, UnixStream};
use std::sync::Arc;
use std::sync::atomic::{AtomicBool, Ordering};
use std::time::{Duration, Instant};

use naijascript::arena::Arena;
use naijascript::diagnostics::{AsStr, Severity};
use naijascript::process::{HostPolicy, ProcessCaps, ProcessStream};
use naijascript::resolver::Resolver;
use naijascript::runtime::{Runtime, RuntimeErrorKind};
use naijascript::syntax::parser::Parser;
use naijascript::syntax::scanner::Lexer;
use naijascript::verif;
use serde_json::{Value as J, json};

use crate::util::{diags_json, guarded, quiet_panics, response_channel, send, value_json};

const MAIN_ARENA: usize = 512 << 20;
const FRAME_ARENA: usize = 256 << 20;
/// Generous bound for a schedule step (arrival at a gate, completion, child acknowledgement).
const STEP_TIMEOUT: Duration = Duration::from_secs(10);

fn hex(b: &[u8]) -> String {
    let mut s = String::with_capacity(b.len() * 2);
    for x in b {
        s.push_str(&format!("{x:02x}"));
    }
    s
}

fn policy_from(j: &J) -> HostPolicy {
    let mut caps = ProcessCaps::defaults();
    let get = |k: &str, d: u32| j[k].as_u64().map_or(d, |v| v.min(u64::from(u32::MAX)) as u32);
    caps.max_program_bytes = get("max_program_bytes", caps.max_program_bytes);
    caps.max_cwd_bytes = get("max_cwd_bytes", caps.max_cwd_bytes);
    caps.max_args = get("max_args", caps.max_args);
    caps.max_arg_bytes = get("max_arg_bytes", caps.max_arg_bytes);
    caps.max_total_arg_bytes = get("max_total_arg_bytes", caps.max_total_arg_bytes);
    caps.max_env_pairs = get("max_env_pairs", caps.max_env_pairs);
    caps.max_env_key_bytes = get("max_env_key_bytes", caps.max_env_key_bytes);
    caps.max_env_value_bytes = get("max_env_value_bytes", caps.max_env_value_bytes);
    caps.max_total_env_bytes = get("max_total_env_bytes", caps.max_total_env_bytes);
    caps.max_stdin_bytes = get("max_stdin_bytes", caps.max_stdin_bytes);
    caps.max_capture_bytes_per_stream = get("max_capture_bytes_per_stream", caps.max_capture_bytes_per_stream);
    caps.default_timeout_ms = get("default_timeout_ms", caps.default_timeout_ms);
    caps.max_timeout_ms = get("max_timeout_ms", caps.max_timeout_ms);
    caps.wait_poll_ms = get("wait_poll_ms", caps.wait_poll_ms);
    HostPolicy { allow_process: j["allow_process"].as_bool().unwrap_or(true), process: caps }
}

/// Error class of a runtime diagnostic, from the crate's own names (rewording is not an alarm).
fn error_kind(msg: &str) -> &'static str {
    let table: [(&'static str, RuntimeErrorKind); 13] = [
        ("spec_invalid", RuntimeErrorKind::ProcessSpecInvalid("")),
        ("denied", RuntimeErrorKind::ProcessDenied),
        ("unsupported", RuntimeErrorKind::ProcessUnsupported),
        ("spawn_failed", RuntimeErrorKind::ProcessSpawnFailed("")),
        ("timeout", RuntimeErrorKind::ProcessTimeout),
        ("output_limit", RuntimeErrorKind::ProcessOutputLimitExceeded("")),
        ("invalid_utf8", RuntimeErrorKind::ProcessInvalidUtf8("")),
        ("io", RuntimeErrorKind::Io("")),
        ("type_mismatch", RuntimeErrorKind::TypeMismatch),
        ("division_by_zero", RuntimeErrorKind::DivisionByZero),
        ("stack_overflow", RuntimeErrorKind::StackOverflow),
        ("index_out_of_bounds", RuntimeErrorKind::IndexOutOfBounds),
        ("invalid_index", RuntimeErrorKind::InvalidIndex),
    ];
    for (name, kind) in table {
        if kind.as_str() == msg {
            return name;
        }
    }
    "other"
}

struct Ran {
    st: String,
    ekind: &'static str,
    estream: &'static str,
    out: Vec<J>,
    diags: Vec<J>,
}

fn run_script(src: &str, policy: HostPolicy) -> Ran {
    let arena = Arena::new(MAIN_ARENA).unwrap();
    let frame = Arena::new(FRAME_ARENA).unwrap();
    let lexer = Lexer::new(src, &arena);
    let mut parser = Parser::new(lexer, &arena);
    let (root, perr) = parser.parse_program();
    if !perr.diagnostics.is_empty() {
        return Ran { st: "parse_error".into(), ekind: "parse_error", estream: "", out: vec![], diags: diags_json(perr, src) };
    }
    let mut resolver = Resolver::new(&arena);
    resolver.resolve(root);
    if resolver.errors.has_errors() {
        return Ran { st: "static_error".into(), ekind: "static_error", estream: "", out: vec![], diags: diags_json(&resolver.errors, src) };
    }
    let mut rt = Runtime::new_with_host_policy(&arena, Some(&frame), policy);
    rt.run_with_analysis(root, &resolver.facts, resolver.optimization_plan.as_ref());
    let out: Vec<J> = rt.output.iter().map(value_json).collect();
    let first = rt.errors.diagnostics.iter().find(|d| d.severity == Severity::Error);
    let st = first.map_or("done", |d| d.message).to_string();
    let ekind = first.map_or("", |d| error_kind(d.message));
    let mut estream = "";
    if let Some(d) = first {
        for l in &d.labels {
            let m = l.message.to_string();
            for s in [ProcessStream::Stdout, ProcessStream::Stderr] {
                if m.contains(s.as_str()) {
                    estream = s.as_str();
                }
            }
        }
    }
    Ran { st, ekind, estream, out, diags: diags_json(&rt.errors, src) }
}

fn own_stdin_id() -> String {
    unsafe {
        let mut st: libc::stat = std::mem::zeroed();
        if libc::fstat(0, &mut st) == 0 { format!("{}:{}", st.st_dev, st.st_ino) } else { String::new() }
    }
}

// ------------------------------------------------------------------------------------------
// C15: builder -> what the child reports
// ------------------------------------------------------------------------------------------
fn run_builder(j: &J) -> J {
    let src = j["src"].as_str().unwrap_or("");
    let out = j["out"].as_str().unwrap_or("/nonexistent/side");
    let marker = format!("{out}.spawned");
    let _ = std::fs::remove_file(out);
    let _ = std::fs::remove_file(&marker);
    unsafe {
        std::env::set_var("VCHILD_OUT", out);
        std::env::set_var("VCHILD_PARENT_STDIN", own_stdin_id());
    }
    let parent_env: Vec<J> = std::env::vars_os().map(|(k, v)| json!([hex(k.as_bytes()), hex(v.as_bytes())])).collect();
    let parent_cwd = std::env::current_dir().map(|p| hex(p.as_os_str().as_bytes())).unwrap_or_default();
    let ran = run_script(src, policy_from(&j["policy"]));
    let spawned = std::path::Path::new(&marker).exists();
    let report: J = std::fs::read_to_string(out).ok().and_then(|s| serde_json::from_str(&s).ok()).unwrap_or(J::Null);
    let _ = std::fs::remove_file(out);
    let _ = std::fs::remove_file(&marker);
    unsafe {
        std::env::remove_var("VCHILD_OUT");
    }
    json!({"st": ran.st, "ekind": ran.ekind, "out": ran.out, "diags": ran.diags, "marker": spawned, "report": report,
           "parent_env": parent_env, "parent_cwd": parent_cwd})
}

// ------------------------------------------------------------------------------------------
// C16: capture protocol under a forced schedule (or free), with recorded events
// ------------------------------------------------------------------------------------------
fn thread_class(gate: &str) -> &str {
    if gate.starts_with("reader.out") {
        "reader.out"
    } else if gate.starts_with("reader.err") {
        "reader.err"
    } else {
        "main"
    }
}

fn waitable(pid: i32) -> bool {
    unsafe {
        let mut info: libc::siginfo_t = std::mem::zeroed();
        let r = libc::waitid(libc::P_PID, pid as libc::id_t, &mut info, libc::WEXITED | libc::WNOHANG | libc::WNOWAIT);
        if r != 0 {
            return true; // ECHILD: already reaped by the runtime
        }
        info.si_pid() != 0
    }
}

struct Controller {
    log: Vec<J>,
    unrealised: Option<J>,
    child_done: Vec<J>,
    pid: Option<i32>,
}

struct ChildLink {
    w: UnixStream,
    r: BufReader<UnixStream>,
    dead: bool,
}

impl ChildLink {
    /// Sends one command and waits for the acknowledgement (or the child's death).
    /// "ok": done and acknowledged; "died": the child took it and is gone (exit, SIGPIPE, killed
    /// meanwhile); "gone": the child was already dead, the command never reached it.
    fn command(&mut self, cmd: &str, pid: i32) -> Result<&'static str, String> {
        if self.dead {
            return Ok("gone");
        }
        let sent = self.w.write_all(format!("{cmd}\n").as_bytes()).is_ok();
        let mut line = String::new();
        let acked = sent
            && match self.r.read_line(&mut line) {
                Ok(0) => false,
                Ok(_) => line.trim() == "ok",
                Err(e) if e.kind() == std::io::ErrorKind::WouldBlock || e.kind() == std::io::ErrorKind::TimedOut => {
                    return Err(format!("child did not acknowledge `{cmd}`"));
                }
                Err(_) => false,
            };
        if acked {
            return Ok("ok");
        }
        // exit command, death by SIGPIPE, or killed by the runtime: wait until the parent can see it
        self.dead = true;
        let t0 = Instant::now();
        while !waitable(pid) {
            if t0.elapsed() > STEP_TIMEOUT {
                return Err("child closed its control socket but is not waitable".into());
            }
            std::thread::sleep(Duration::from_micros(200));
        }
        Ok(if sent { "died" } else { "gone" })
    }
}

fn accept_child(listener: &UnixListener, finished: &AtomicBool) -> Result<(ChildLink, i32), String> {
    listener.set_nonblocking(true).map_err(|e| e.to_string())?;
    let t0 = Instant::now();
    let stream = loop {
        match listener.accept() {
            Ok((s, _)) => break s,
            Err(e) if e.kind() == std::io::ErrorKind::WouldBlock => {
                if finished.load(Ordering::SeqCst) {
                    return Err("the run ended before the child connected".into());
                }
                if t0.elapsed() > STEP_TIMEOUT {
                    return Err("child never connected".into());
                }
                std::thread::sleep(Duration::from_micros(200));
            }
            Err(e) => return Err(e.to_string()),
        }
    };
    stream.set_nonblocking(false).map_err(|e| e.to_string())?;
    stream.set_read_timeout(Some(STEP_TIMEOUT)).map_err(|e| e.to_string())?;
    let w = stream.try_clone().map_err(|e| e.to_string())?;
    let mut r = BufReader::new(stream);
    let mut hello = String::new();
    r.read_line(&mut hello).map_err(|e| e.to_string())?;
    let pid: i32 = hello.trim().strip_prefix("hello ").and_then(|p| p.parse().ok()).ok_or("bad hello")?;
    Ok((ChildLink { w, r, dead: false }, pid))
}

fn control(schedule: Vec<J>, rest: Vec<String>, listener: UnixListener, finished: Arc<AtomicBool>) -> Controller {
    let mut c = Controller { log: Vec::new(), unrealised: None, child_done: Vec::new(), pid: None };
    let (mut link, pid) = match accept_child(&listener, &finished) {
        Ok(x) => x,
        Err(e) => {
            c.unrealised = Some(json!({"at": 0, "why": e}));
            verif::cap_release();
            return c;
        }
    };
    c.pid = Some(pid);
    let mut pending_child: Vec<String> = Vec::new();
    let mut failed_at: Option<(usize, String)> = None;
    for (i, entry) in schedule.iter().enumerate() {
        let kind = entry[0].as_str().unwrap_or("");
        let name = entry[1].as_str().unwrap_or("");
        if failed_at.is_some() {
            // schedule abandoned: the child still carries out its plan, threads run freely
            if kind == "child" && !name.starts_with('p') {
                pending_child.push(name.to_string());
            }
            continue;
        }
        if kind == "child" {
            match link.command(name, pid) {
                Ok(how) => {
                    c.child_done.push(json!([name, how]));
                    c.log.push(json!([i, name, how]));
                }
                Err(e) => failed_at = Some((i, e)),
            }
            continue;
        }
        // a gate entry is a TURN of the thread that owns the gate: the thread takes one step from
        // wherever it is parked (normally exactly the gate the model names; if the code orders its
        // steps differently the interleaving of the THREADS is still the schedule's).
        let force = entry[2].as_str() == Some("timeout");
        let class = thread_class(name);
        let t0 = Instant::now();
        let mut view = verif::cap_view();
        let arrived = loop {
            if let Some(at) = view.parked.iter().find(|p| thread_class(p) == class) {
                break Ok(at.clone());
            }
            if finished.load(Ordering::SeqCst) {
                break Err(format!("the run ended before thread {class} reached `{name}`"));
            }
            if t0.elapsed() > STEP_TIMEOUT {
                break Err(format!("thread {class} did not reach a gate (`{name}` expected)"));
            }
            view = verif::cap_wait_change(view.version, Duration::from_millis(20));
        };
        let at = match arrived {
            Ok(at) => at,
            Err(e) => {
                failed_at = Some((i, e));
                continue;
            }
        };
        let before = view.events;
        // the kill step logs its linearisation point first and `killed` once the child is reaped
        let need = if at == "waiter.kill" { 2 } else { 1 };
        verif::gate_grant(&at, force);
        // completion of the step = the thread's next event
        let t0 = Instant::now();
        let done = loop {
            if view.events >= before + need {
                break Ok(());
            }
            if finished.load(Ordering::SeqCst) {
                break Ok(());
            }
            if t0.elapsed() > STEP_TIMEOUT {
                break Err(format!("the step after `{at}` did not complete"));
            }
            view = verif::cap_wait_change(view.version, Duration::from_millis(20));
        };
        match done {
            Ok(()) => c.log.push(json!([i, name, if force { "granted+timeout" } else { "granted" }, at])),
            Err(e) => failed_at = Some((i, e)),
        }
    }
    if let Some((i, why)) = failed_at {
        c.unrealised = Some(json!({"at": i, "why": why}));
    }
    verif::cap_release();
    // whatever the child has not done yet (abandoned schedule, or the plan's tail)
    pending_child.extend(rest);
    for cmd in pending_child {
        if link.dead {
            break;
        }
        match link.command(&cmd, pid) {
            Ok(how) => c.child_done.push(json!([cmd, how])),
            Err(_) => break,
        }
    }
    c
}

/// Threads of this process besides the caller (the worker is single-threaded between requests):
/// capture readers - also ones that have been spawned but have not run yet - and stdin writers.
fn other_threads() -> usize {
    std::fs::read_dir("/proc/self/task").map_or(0, |d| d.count().saturating_sub(1))
}

fn run_capture(j: &J) -> J {
    let src = j["src"].as_str().unwrap_or("");
    let policy = policy_from(&j["policy"]);
    let scheduled = j["schedule"].is_array();
    let finished = Arc::new(AtomicBool::new(false));
    let mut ctl = None;
    if scheduled {
        let sock = j["sock"].as_str().unwrap_or("");
        let _ = std::fs::remove_file(sock);
        let listener = match UnixListener::bind(sock) {
            Ok(l) => l,
            Err(e) => return json!({"st": "TOOL", "tool_error": format!("cannot bind {sock}: {e}")}),
        };
        let schedule = j["schedule"].as_array().cloned().unwrap_or_default();
        let rest: Vec<String> = j["rest"].as_array().map(|a| a.iter().filter_map(|x| x.as_str().map(String::from)).collect()).unwrap_or_default();
        let fin = Arc::clone(&finished);
        verif::cap_start(true, true);
        ctl = Some(std::thread::spawn(move || control(schedule, rest, listener, fin)));
    } else {
        verif::cap_start(true, false);
    }
    // an inherited stderr must not be the driver's pipe (nobody drains it while the child runs)
    let saved_err = unsafe {
        let saved = libc::dup(2);
        let dn = libc::open(c"/dev/null".as_ptr(), libc::O_WRONLY);
        libc::dup2(dn, 2);
        libc::close(dn);
        saved
    };
    let ran = guarded(|| run_script(src, policy));
    unsafe {
        libc::dup2(saved_err, 2);
        libc::close(saved_err);
    }
    finished.store(true, Ordering::SeqCst);
    verif::cap_release();
    let controller = ctl.map(|h| h.join().expect("controller thread"));
    // the child must be gone AND reaped as soon as run() has returned: kill(pid, 0) has to fail
    let pid = verif::cap_events_snapshot()
        .iter()
        .filter_map(|e| serde_json::from_str::<J>(e).ok())
        .find(|e| e["ev"] == "spawn")
        .and_then(|e| e["pid"].as_i64());
    let alive_after = pid.is_some_and(|p| unsafe { libc::kill(p as i32, 0) } == 0);
    if alive_after {
        if let Some(p) = pid {
            unsafe {
                libc::kill(p as i32, libc::SIGKILL);
                libc::waitpid(p as i32, std::ptr::null_mut(), 0);
            }
        }
    }
    // a reader the run did not wait for (early error on the other stream) finishes on its own:
    // its events belong to THIS run, and it must not meet the next run's gates
    let t0 = Instant::now();
    while other_threads() > 0 && t0.elapsed() < STEP_TIMEOUT {
        std::thread::sleep(Duration::from_micros(200));
    }
    let lingering = other_threads();
    let events_raw = verif::cap_stop();
    if scheduled {
        let _ = std::fs::remove_file(j["sock"].as_str().unwrap_or(""));
    }
    let events: Vec<J> = events_raw.iter().map(|e| serde_json::from_str(e).unwrap_or_else(|_| json!({"ev": "BAD", "raw": e}))).collect();
    let mut r = match ran {
        Ok(ran) => json!({"st": ran.st, "ekind": ran.ekind, "estream": ran.estream, "out": ran.out, "diags": ran.diags}),
        Err(msg) => json!({"st": "PANIC", "panic": msg}),
    };
    r["events"] = json!(events);
    r["pid"] = json!(pid);
    r["alive_after"] = json!(alive_after);
    r["lingering_readers"] = json!(lingering);
    if let Some(c) = controller {
        r["log"] = json!(c.log);
        r["unrealised"] = c.unrealised.unwrap_or(J::Null);
        r["child_done"] = json!(c.child_done);
        r["ctl_pid"] = json!(c.pid);
    }
    r
}

pub fn worker() {
    let mut out = response_channel();
    quiet_panics();
    unsafe {
        // a controller writing to a dead child's socket must get an error, not a signal
        libc::signal(libc::SIGPIPE, libc::SIG_IGN);
    }
    for line in std::io::stdin().lock().lines() {
        let Ok(line) = line else { break };
        if line.trim().is_empty() {
            continue;
        }
        let j: J = serde_json::from_str(&line).expect("bad request");
        let id = j["id"].clone();
        send(&mut out, &json!({"begin": id, "mode": "run"}));
        let mut r = match j["kind"].as_str() {
            Some("builder") => guarded(|| run_builder(&j)).unwrap_or_else(|msg| json!({"st": "PANIC", "panic": msg})),
            Some("capture") => run_capture(&j),
            _ => json!({"st": "TOOL", "tool_error": "unknown kind"}),
        };
        r["id"] = id;
        r["mode"] = json!("run");
        send(&mut out, &r);
    }
}
