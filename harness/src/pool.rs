//! `vh pool`: replays allocate / release histories on the real string pool (through the gated public
//! wrappers `naijascript::arena::pool_verif`) and records what the pool ANSWERED.  Nothing is judged
//! here: the record is validated by the abstract layer specs/mem/PoolAbs.tla through PoolTrace.tla.
//!
//! request  {"id":N,"modes":["x"],"info":true}
//!            -> the class table and the size -> class function as the implementation has them
//!          {"id":N,"modes":["x"],"setup":{"kind":"real"} | {"kind":"set","counts":[..]} |
//!             {"kind":"single","size":S,"count":C}, "probe":"blocks"|"bufs",
//!           "ops":[{"o":"alloc","i":ID,"s":BYTES,"api":"alloc"|"str"} | {"o":"palloc","i":ID,"s":S} |
//!                  {"o":"dealloc","i":ID}, ..]}
//!          {"id":N,"modes":["x"],"batch":[<history request>, ..]}  -> {"results":[..]}
//! response {"st":"ok","hdr":{"table":[[slot size, slot count, block beg, block end],..],"build"},
//!           "steps":[{"o","i","s","api","none","beg","len","aoff0","aoff1",
//!                     "ctr":[[live,free,virgin],..],"probes":[[offset,contains],..],"nseen","bad":[ids]},..]}
//!   beg / block beg / probe offsets are relative to the backing arena's base address;
//!   aoff0 / aoff1 = Arena::offset() before / after the call (fallback memory must be fresh).

use std::collections::BTreeMap;
use std::io::BufRead;
use std::mem;
use std::ptr::NonNull;

use naijascript::arena::Arena;
use naijascript::arena::pool_verif::{VPool, VPoolSet, class_table, size_class};
use serde_json::{Value as J, json};

use crate::util::{guarded, quiet_panics, response_channel, send};

enum Pools<'a> {
    Set(VPoolSet<'a>),
    Single(VPool),
}

struct Buf {
    ptr: *mut u8,
    len: usize,
    size: u32,
    seed: u8,
}

fn pat(seed: u8, k: usize) -> u8 {
    // never the poison byte run of the pool (a varying pattern; single bytes avoid 0xDD)
    let b = seed.wrapping_add((k as u8).wrapping_mul(29));
    if b == 0xDD { 0x5A } else { b }
}

impl Pools<'_> {
    fn classes(&self) -> usize {
        match self {
            Pools::Set(s) => s.class_count(),
            Pools::Single(_) => 1,
        }
    }
    fn counters(&self, c: usize) -> (u32, u32, u32) {
        match self {
            Pools::Set(s) => s.counters(c),
            Pools::Single(p) => p.counters(),
        }
    }
    fn block(&self, c: usize) -> (usize, u32, u32) {
        match self {
            Pools::Set(s) => s.block(c),
            Pools::Single(p) => p.block(),
        }
    }
    fn contains(&self, p: *const u8) -> bool {
        match self {
            Pools::Set(s) => s.contains(p),
            Pools::Single(q) => q.contains(p),
        }
    }
}

fn run_history(req: &J) -> J {
    let build = if cfg!(debug_assertions) { "debug" } else { "fast" };
    let arena_bytes = req["arena"].as_u64().unwrap_or(8 << 20) as usize;
    let arena = Arena::new(arena_bytes).unwrap();
    let base = arena.verif_base();
    let setup = &req["setup"];
    let pools = match setup["kind"].as_str().unwrap_or("real") {
        "set" => {
            let counts: Vec<u32> = setup["counts"].as_array().map(|a| a.iter().map(|x| x.as_u64().unwrap_or(1).max(1) as u32).collect()).unwrap_or_default();
            Pools::Set(VPoolSet::with_counts(&arena, &counts))
        }
        "single" => Pools::Single(VPool::new(&arena, setup["size"].as_u64().unwrap_or(8) as u32, setup["count"].as_u64().unwrap_or(1) as u32)),
        _ => Pools::Set(VPoolSet::new(&arena)),
    };
    let rel = |addr: usize| addr as i64 - base as i64;
    let table: Vec<J> = (0..pools.classes())
        .map(|c| {
            let (b, size, count) = pools.block(c);
            json!([size, count, rel(b), rel(b) + size as i64 * count as i64])
        })
        .collect();
    let probe_blocks = req["probe"].as_str() != Some("bufs");
    let mut bufs: BTreeMap<i64, Buf> = BTreeMap::new();
    let mut steps = Vec::new();
    let nops = req["ops"].as_array().map_or(0, Vec::len);
    for (n, op) in req["ops"].as_array().map(Vec::as_slice).unwrap_or(&[]).iter().enumerate() {
        let o = op["o"].as_str().unwrap_or("");
        let id = op["i"].as_i64().unwrap_or(0);
        let mut rec = json!({"o": o, "i": id, "s": op["s"].as_u64().unwrap_or(0), "api": op["api"].as_str().unwrap_or("alloc"),
                             "none": false, "beg": 0, "len": 0});
        let aoff0 = arena.offset();
        let mut touched: Vec<usize> = Vec::new();
        let outcome = guarded(|| match (o, &pools) {
            ("alloc", Pools::Set(set)) => {
                let size = op["s"].as_u64().unwrap_or(0) as u32;
                let (ptr, len) = if op["api"].as_str() == Some("str") {
                    let text = "s".repeat(size as usize);
                    let st = set.alloc_str(&text);
                    let ok = st.as_str() == text;
                    let r = (st.as_ptr() as *mut u8, st.capacity());
                    mem::forget(st);
                    if !ok {
                        rec["panic"] = json!("alloc_str did not copy the text");
                    }
                    r
                } else {
                    let p = set.alloc(size);
                    (p.cast::<u8>().as_ptr(), p.len())
                };
                rec["beg"] = json!(rel(ptr as usize));
                rec["len"] = json!(len);
                let b = Buf { ptr, len, size, seed: (n % 199) as u8 + 1 };
                // only write where the arena says the memory exists
                if ptr as usize >= base && ptr as usize - base + len <= arena.verif_commit() {
                    for k in 0..len {
                        unsafe { ptr.add(k).write(pat(b.seed, k)) };
                    }
                    touched.push(ptr as usize);
                    bufs.insert(id, b);
                }
            }
            ("palloc", Pools::Single(p)) => match p.alloc() {
                Some(sl) => {
                    let (ptr, len) = (sl.cast::<u8>().as_ptr(), sl.len());
                    rec["beg"] = json!(rel(ptr as usize));
                    rec["len"] = json!(len);
                    let b = Buf { ptr, len, size: len as u32, seed: (n % 199) as u8 + 1 };
                    if ptr as usize >= base && ptr as usize - base + len <= arena.verif_commit() {
                        for k in 0..len {
                            unsafe { ptr.add(k).write(pat(b.seed, k)) };
                        }
                        touched.push(ptr as usize);
                        bufs.insert(id, b);
                    }
                }
                None => rec["none"] = json!(true),
            },
            ("dealloc", _) => {
                if let Some(b) = bufs.remove(&id) {
                    touched.push(b.ptr as usize);
                    rec["s"] = json!(b.size);
                    let ptr = unsafe { NonNull::new_unchecked(b.ptr) };
                    match &pools {
                        Pools::Set(set) => unsafe { set.dealloc(ptr, b.size) },
                        Pools::Single(p) => unsafe { p.dealloc(ptr) },
                    }
                } else {
                    rec["o"] = json!("skip");
                }
            }
            _ => rec["o"] = json!("skip"),
        });
        if let Err(p) = outcome {
            rec["panic"] = json!(p);
        }
        rec["aoff0"] = json!(aoff0);
        rec["aoff1"] = json!(arena.offset());
        let ctr: Vec<J> = (0..pools.classes())
            .map(|c| {
                let (l, f, v) = pools.counters(c);
                json!([l, f, v])
            })
            .collect();
        rec["ctr"] = json!(ctr);
        // ownership test: both ends of every class block (first and last step of a history that asks
        // for it), the buffer this step touched, the newest live buffers
        let mut probes: Vec<i64> = Vec::new();
        if probe_blocks && (n == 0 || n + 1 == nops) {
            for c in 0..pools.classes() {
                let (b, size, count) = pools.block(c);
                let (beg, end) = (rel(b), rel(b) + size as i64 * count as i64);
                probes.extend([beg - 1, beg, end - 1, end]);
            }
        }
        for t in &touched {
            probes.push(rel(*t));
        }
        for b in bufs.values().rev().take(8) {
            probes.push(rel(b.ptr as usize));
            if b.len > 0 {
                probes.push(rel(b.ptr as usize) + b.len as i64 - 1);
            }
        }
        rec["probes"] = json!(probes.iter().map(|&off| json!([off, pools.contains((base as i64 + off) as usize as *const u8)])).collect::<Vec<_>>());
        let mut bad = Vec::new();
        for (bid, b) in &bufs {
            if !(0..b.len).all(|k| unsafe { b.ptr.add(k).read() } == pat(b.seed, k)) {
                bad.push(*bid);
            }
        }
        rec["nseen"] = json!(bufs.len());
        rec["bad"] = json!(bad);
        steps.push(rec);
    }
    json!({"st": "ok", "hdr": {"table": table, "build": build, "arena_capacity": arena.verif_capacity()}, "steps": steps})
}

fn handle(req: &J) -> J {
    if req.get("info").is_some() {
        let table = class_table();
        let max = table.iter().map(|t| t.0).max().unwrap_or(0);
        // information only (the verdict is the size sweep through the pool itself): never fatal
        let map: Vec<J> = (0..=max + 2)
            .map(|n| match guarded(|| size_class(n)) {
                Ok(c) => c.map_or(J::Null, |c| json!(c)),
                Err(p) => json!(p),
            })
            .collect();
        return json!({"st": "ok", "table": table.iter().map(|t| json!([t.0, t.1])).collect::<Vec<_>>(), "size_class": map,
                      "build": if cfg!(debug_assertions) { "debug" } else { "fast" }});
    }
    if let Some(items) = req.get("batch").and_then(J::as_array) {
        let results: Vec<J> = items
            .iter()
            .map(|it| match guarded(|| run_history(it)) {
                Ok(r) => r,
                Err(p) => json!({"st": "PANIC", "panic": p}),
            })
            .collect();
        return json!({"st": "ok", "results": results});
    }
    run_history(req)
}

pub fn worker() {
    let mut out = response_channel();
    quiet_panics();
    let stdin = std::io::stdin();
    for line in stdin.lock().lines() {
        let Ok(line) = line else { break };
        if line.trim().is_empty() {
            continue;
        }
        let req: J = match serde_json::from_str(&line) {
            Ok(v) => v,
            Err(_) => continue,
        };
        let id = req["id"].clone();
        let modes: Vec<String> = req["modes"].as_array().map(|a| a.iter().filter_map(|m| m.as_str().map(String::from)).collect()).unwrap_or_else(|| vec!["x".into()]);
        for m in modes {
            send(&mut out, &json!({"begin": id, "mode": m}));
            let mut resp = match guarded(|| handle(&req)) {
                Ok(r) => r,
                Err(p) => json!({"st": "PANIC", "panic": p}),
            };
            resp["id"] = id.clone();
            resp["mode"] = json!(m);
            send(&mut out, &resp);
        }
    }
}
