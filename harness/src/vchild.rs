//! `vchild` - the scriptable child process of the C15 / C16 checks.
//!
//! report mode (C15) - selected by the INHERITED environment variable VCHILD_OUT (argv is entirely
//!   the model's): touches `<VCHILD_OUT>.spawned` first, then writes argv, the whole environment,
//!   the working directory and what standard input is / contains to `<VCHILD_OUT>` as JSON (all
//!   byte strings hex-encoded), atomically (tmp + rename).  Standard input is read to its end only
//!   when it is NOT the descriptor the parent itself has (VCHILD_PARENT_STDIN = "dev:ino").
//!
//! obey mode (C16): `vchild obey sock <path>` takes commands over a Unix socket (one per line,
//!   answers `ok` after each) ; `vchild obey argv <cmd>...` runs the commands given.
//!   w<fd>:<n>      write n pattern bytes (one write(2)) to fd 1 or 2
//!   W<fd>:<hex>    write the given bytes
//!   c<fd>          close fd
//!   p<fd>          wait until the read end of fd has been closed (POLLERR), no write
//!   x<code>        exit with the code
//!   s<ms>          sleep (only used to diversify ungated runs, never for ordering)
//!   h              block for ever
//! The write pattern depends on the stream and the offset, so that bytes of one stream can never
//! pass for bytes of the other.  SIGPIPE has its default action (the child dies of it).

use std::io::{BufRead, BufReader, Read, Write};
use std::os::unix::ffi::{OsStrExt, OsStringExt};
use std::os::unix::net::UnixStream;

fn hex(b: &[u8]) -> String {
    let mut s = String::with_capacity(b.len() * 2);
    for x in b {
        s.push_str(&format!("{x:02x}"));
    }
    s
}

fn unhex(s: &str) -> Vec<u8> {
    (0..s.len() / 2).map(|i| u8::from_str_radix(&s[2 * i..2 * i + 2], 16).unwrap_or(b'?')).collect()
}

fn fstat(fd: i32) -> Option<libc::stat> {
    unsafe {
        let mut st: libc::stat = std::mem::zeroed();
        if libc::fstat(fd, &mut st) == 0 { Some(st) } else { None }
    }
}

fn report(out: &str) {
    let _ = std::fs::File::create(format!("{out}.spawned"));
    let argv: Vec<String> = std::env::args_os().map(|a| hex(a.as_bytes())).collect();
    let env: Vec<(String, String)> =
        std::env::vars_os().map(|(k, v)| (hex(k.as_bytes()), hex(v.as_bytes()))).collect();
    let cwd = std::env::current_dir().map(|p| hex(p.into_os_string().into_vec().as_slice())).unwrap_or_default();
    let parent = std::env::var("VCHILD_PARENT_STDIN").unwrap_or_default();
    let (kind, data) = match fstat(0) {
        None => ("closed", Vec::new()),
        Some(st) => {
            let me = format!("{}:{}", st.st_dev, st.st_ino);
            let null_rdev = std::fs::metadata("/dev/null").ok().map(|m| std::os::unix::fs::MetadataExt::rdev(&m));
            if me == parent {
                ("inherit", Vec::new())
            } else {
                let fmt = st.st_mode & libc::S_IFMT;
                let kind = if fmt == libc::S_IFCHR && Some(st.st_rdev) == null_rdev {
                    "null"
                } else if fmt == libc::S_IFIFO {
                    "pipe"
                } else {
                    "other"
                };
                let mut data = Vec::new();
                if kind != "other" {
                    let _ = std::io::stdin().lock().read_to_end(&mut data);
                }
                (kind, data)
            }
        }
    };
    let mut s = String::new();
    s.push_str("{\"argv\":[");
    s.push_str(&argv.iter().map(|a| format!("\"{a}\"")).collect::<Vec<_>>().join(","));
    s.push_str("],\"env\":[");
    s.push_str(&env.iter().map(|(k, v)| format!("[\"{k}\",\"{v}\"]")).collect::<Vec<_>>().join(","));
    s.push_str(&format!("],\"cwd\":\"{cwd}\",\"stdin_kind\":\"{kind}\",\"stdin\":\"{}\",\"pid\":{}}}", hex(&data), std::process::id()));
    let tmp = format!("{out}.tmp");
    if std::fs::write(&tmp, s).is_ok() {
        let _ = std::fs::rename(&tmp, out);
    }
}

fn pattern(fd: i32, off: usize, n: usize) -> Vec<u8> {
    let base = if fd == 1 { b'a' } else { b'A' };
    (off..off + n).map(|i| base + (i % 26) as u8).collect()
}

/// Returns false when the command ends the script.
fn obey(cmd: &str, offs: &mut [usize; 3]) -> bool {
    let cmd = cmd.trim();
    if cmd.is_empty() {
        return true;
    }
    let (op, rest) = cmd.split_at(1);
    let mut parts = rest.splitn(2, ':');
    let first = parts.next().unwrap_or("");
    let second = parts.next().unwrap_or("");
    match op {
        "w" | "W" => {
            let fd: i32 = first.parse().unwrap_or(1);
            let bytes = if op == "w" {
                let n: usize = second.parse().unwrap_or(0);
                pattern(fd, offs[(fd as usize).min(2)], n)
            } else {
                unhex(second)
            };
            offs[(fd as usize).min(2)] += bytes.len();
            let mut done = 0;
            while done < bytes.len() {
                let r = unsafe { libc::write(fd, bytes[done..].as_ptr().cast(), bytes.len() - done) };
                if r <= 0 {
                    // EPIPE with SIGPIPE ignored by an ancestor's mask, or a closed descriptor
                    std::process::exit(141);
                }
                done += r as usize;
            }
        }
        "c" => {
            let fd: i32 = first.parse().unwrap_or(1);
            unsafe { libc::close(fd) };
        }
        "p" => {
            let fd: i32 = first.parse().unwrap_or(1);
            loop {
                let mut p = libc::pollfd { fd, events: 0, revents: 0 };
                let r = unsafe { libc::poll(&mut p, 1, 1000) };
                if r > 0 && p.revents & (libc::POLLERR | libc::POLLNVAL | libc::POLLHUP) != 0 {
                    break;
                }
            }
        }
        "x" => {
            let code: i32 = first.parse().unwrap_or(0);
            std::process::exit(code);
        }
        "s" => {
            let ms: u64 = first.parse().unwrap_or(0);
            std::thread::sleep(std::time::Duration::from_millis(ms));
        }
        "h" => loop {
            unsafe { libc::pause() };
        },
        _ => {}
    }
    true
}

fn main() {
    unsafe {
        libc::signal(libc::SIGPIPE, libc::SIG_DFL);
    }
    if let Ok(out) = std::env::var("VCHILD_OUT") {
        report(&out);
        return;
    }
    let args: Vec<String> = std::env::args().collect();
    let mut offs = [0usize; 3];
    if args.get(1).map(String::as_str) != Some("obey") {
        eprintln!("usage: vchild obey sock <path> | vchild obey argv <cmd>...   (or VCHILD_OUT=<file> for report mode)");
        std::process::exit(64);
    }
    match args.get(2).map(String::as_str) {
        Some("sock") => {
            let path = args.get(3).cloned().unwrap_or_default();
            let Ok(stream) = UnixStream::connect(&path) else {
                std::process::exit(65);
            };
            let mut w = stream.try_clone().expect("socket clone");
            let _ = w.write_all(format!("hello {}\n", std::process::id()).as_bytes());
            let r = BufReader::new(stream);
            for line in r.lines() {
                let Ok(line) = line else { break };
                obey(&line, &mut offs);
                if w.write_all(b"ok\n").is_err() {
                    break;
                }
            }
            // controller went away: leave quietly
            std::process::exit(66);
        }
        Some("argv") => {
            for cmd in &args[3..] {
                obey(cmd, &mut offs);
            }
        }
        _ => std::process::exit(64),
    }
}
