//! `vh arena`: replays operation histories on a real `naijascript::arena::Arena` and records what
//! the implementation DID.  Nothing is judged here: the record is validated by the abstract layer
//! of specs/mem/ArenaAbs.tla through specs/mem/ArenaTrace.tla.
//!
//! request  {"id":N,"modes":["x"],"info":true}
//!          {"id":N,"modes":["x"],"cap":BYTES,"root":"own"|"global","ops":[{"o","i","s","a","api"},..]}
//!          {"id":N,"modes":["x"],"cap":BYTES,"root":"own","random":{"seed":S,"steps":K}}
//!          {"id":N,"modes":["x"],"batch":[<history request>, ..]}  -> {"results":[<response>, ..]}
//!   o   alloc | allocz | grow | shrink | mark | reset | decommit | borrow | release
//!   i   block id (the step that allocates it names it)      s  bytes (-1 = larger than anything)
//!   a   alignment in bytes                                  api raw | rawz | typed | vec | str
//! response {"id","mode","st":"ok","hdr":{"cap","chunk","bm","slack","off0","build"},
//!           "steps":[{"o","i","s","a","api","fail","beg","len","amod","off","commit","zero","kept",
//!                     "seen":[ids],"bad":[ids],"panic":".."?}, ..]}
//!   beg  = returned address - base address      amod = returned address mod a
//!   off  = Arena::offset() after the step        commit = committed prefix after the step
//!   seen = ids of the blocks whose byte pattern was re-read after the step (the blocks the abstract
//!          layer considers live: reset kills exactly the blocks placed after the mark), bad = those
//!          whose pattern was damaged.
//! `Arena` is debug::Arena in the dev profile and bump::Arena in the `fast` profile.

use std::alloc::{Allocator, Layout};
use std::collections::BTreeMap;
use std::io::BufRead;
use std::mem;
use std::ptr::NonNull;
use std::sync::Once;

use naijascript::arena::{self, Arena, ArenaString, ScratchArena, scratch_arena};
use serde_json::{Value as J, json};

use crate::util::{guarded, quiet_panics, response_channel, send};

/// Sizes above every capacity are reported to TLC as this value (32-bit integers there).
const BIG: usize = 1 << 30;
const BM_MOD: usize = 1 << 20;

macro_rules! aligned_types {
    ($($name:ident = $n:literal),*) => {
        $(#[repr(C, align($n))] #[derive(Clone, Copy)] #[allow(dead_code)] struct $name([u8; $n]);)*
        /// Runs `$body` with `$T` bound to a type whose size and alignment are both `$al`.
        macro_rules! with_aligned {
            ($al:expr, $T:ident, $body:block, $else:block) => {
                match $al {
                    $($n => { type $T = $name; $body })*
                    _ => $else
                }
            };
        }
    };
}
aligned_types!(A0 = 1, A1 = 2, A2 = 4, A3 = 8, A4 = 16, A5 = 32, A6 = 64, A7 = 128, A8 = 256, A9 = 512,
    A10 = 1024, A11 = 2048, A12 = 4096, A13 = 8192, A14 = 16384, A15 = 32768, A16 = 65536,
    A17 = 131072, A18 = 262144, A19 = 524288, A20 = 1048576);

#[derive(Clone, Copy)]
struct Blk {
    ptr: *mut u8,
    len: usize,
    al: usize,
    lvl: usize,
    seed: u8,
}

fn pat(seed: u8, k: usize) -> u8 {
    seed.wrapping_add((k as u8).wrapping_mul(37)).wrapping_add(((k >> 8) as u8).wrapping_mul(11))
}

struct Sess {
    own: Option<Box<Arena>>,
    stack: Vec<ScratchArena<'static>>,
    /// (offset, is_borrow)
    marks: Vec<(usize, bool)>,
    blocks: BTreeMap<i64, Blk>,
    slack: usize,
    step: usize,
}

/// What one operation returned.
struct Got {
    fail: bool,
    ptr: usize,
    len: usize,
    api: &'static str,
    zero: bool,
    kept: bool,
}

impl Got {
    fn failed(api: &'static str) -> Self {
        Got { fail: true, ptr: 0, len: 0, api, zero: true, kept: true }
    }
    fn ok(ptr: usize, len: usize, api: &'static str) -> Self {
        Got { fail: false, ptr, len, api, zero: true, kept: true }
    }
}

static GLOBAL_INIT: Once = Once::new();

impl Sess {
    fn new(cap: usize, global: bool) -> Self {
        let mut s = Sess { own: None, stack: Vec::new(), marks: Vec::new(), blocks: BTreeMap::new(), slack: 0, step: 0 };
        if global {
            GLOBAL_INIT.call_once(|| arena::init(cap).unwrap());
            s.stack.push(scratch_arena(None));
        } else {
            s.own = Some(Box::new(Arena::new(cap).unwrap()));
        }
        s
    }

    /// The handle allocations must go through: the newest borrow, else the arena itself.
    fn cur(&self) -> &'static Arena {
        let a: &Arena = match self.stack.last() {
            Some(s) => s,
            None => self.own.as_deref().unwrap(),
        };
        unsafe { mem::transmute::<&Arena, &'static Arena>(a) }
    }

    fn base(&self) -> usize {
        self.cur().verif_base()
    }
    fn cap(&self) -> usize {
        self.cur().verif_capacity()
    }
    fn commit(&self) -> usize {
        self.cur().verif_commit()
    }
    fn offset(&self) -> usize {
        self.cur().offset()
    }

    /// A fresh aligned block of `sz` bytes fits with a wide margin (used only to decide whether an
    /// API that ABORTS the process on failure may be used instead of its `try_` twin).
    fn certainly_fits(&self, sz: usize, al: usize) -> bool {
        if sz >= BIG {
            return false;
        }
        let addr = self.base() + self.offset() + self.slack;
        let beg = ((addr + al - 1) & !(al - 1)) - self.base();
        beg + sz + self.slack + 4096 <= self.cap()
    }

    fn in_committed(&self, ptr: usize, len: usize) -> bool {
        let base = self.base();
        ptr >= base && ptr - base + len <= self.commit()
    }

    fn fill(&self, b: &Blk) {
        for k in 0..b.len {
            unsafe { b.ptr.add(k).write(pat(b.seed, k)) };
        }
    }

    fn intact(&self, b: &Blk, upto: usize) -> bool {
        (0..upto.min(b.len)).all(|k| unsafe { b.ptr.add(k).read() } == pat(b.seed, k))
    }

    fn drop_all(&mut self) {
        while let Some(s) = self.stack.pop() {
            drop(s);
        }
        self.own = None;
    }
}

fn layout(sz: usize, al: usize) -> Option<Layout> {
    Layout::from_size_align(sz, al).ok()
}

/// Byte count meant by a request size: -1 is "larger than anything" (as large as a Layout allows).
fn want_bytes(s: i64, al: usize) -> usize {
    if s < 0 { (isize::MAX as usize - (al - 1)) & !(al - 1) } else { s as usize }
}

fn do_alloc(sess: &Sess, s: i64, al: usize, api: &str, zeroed: bool) -> Got {
    let a = sess.cur();
    let sz = want_bytes(s, al);
    if zeroed {
        let Some(l) = layout(sz, al) else { return Got::failed("raw") };
        return match a.allocate_zeroed(l) {
            Ok(p) => {
                let ptr = p.cast::<u8>().as_ptr() as usize;
                let mut g = Got::ok(ptr, p.len(), "raw");
                if sess.in_committed(ptr, p.len()) {
                    g.zero = (0..p.len()).all(|k| unsafe { *(ptr as *const u8).add(k) } == 0);
                }
                g
            }
            Err(_) => Got::failed("raw"),
        };
    }
    match api {
        "typed" => {
            with_aligned!(al, T, {
                if s >= 0 && sz == al {
                    // a panic (unwrap on AllocError) is this API's way to fail
                    return match guarded(|| a.alloc_uninit::<T>() as *mut _ as usize) {
                        Ok(p) => Got::ok(p, al, "uninit"),
                        Err(_) => Got::failed("uninit"),
                    };
                }
                if (s < 0 && al > 1) || (s >= 0 && sz.is_multiple_of(al)) {
                    // "larger than anything": a count whose byte size does not fit in usize
                    // (alternating: the product wraps around / it only exceeds isize::MAX)
                    let count = if s >= 0 {
                        sz / al
                    } else if sess.step % 2 == 0 {
                        usize::MAX / al + 2
                    } else {
                        isize::MAX as usize / al + 2
                    };
                    return match guarded(|| {
                        let sl = a.alloc_uninit_slice::<T>(count);
                        (sl.as_mut_ptr() as usize, sl.len())
                    }) {
                        Ok((p, n)) => Got::ok(p, n.saturating_mul(al), "uninit_slice"),
                        Err(_) => Got::failed("uninit_slice"),
                    };
                }
            }, {});
        }
        "vec" => {
            with_aligned!(al, T, {
                if s > 0 && sz.is_multiple_of(al) {
                    let mut v: Vec<T, &Arena> = Vec::new_in(a);
                    let r = v.try_reserve_exact(sz / al);
                    let (p, c) = (v.as_mut_ptr() as usize, v.capacity());
                    mem::forget(v);
                    return if r.is_ok() { Got::ok(p, c * al, "vec") } else { Got::failed("vec") };
                }
            }, {});
        }
        "str" | "strrep" => {
            if al == 1 && s > 0 {
                if sess.certainly_fits(sz, 1) {
                    let st = ArenaString::with_capacity_in(sz, a);
                    let (p, c) = (st.as_ptr() as usize, st.capacity());
                    mem::forget(st);
                    return Got::ok(p, c, "str_with_capacity");
                }
                let mut st = ArenaString::new_in(a);
                let r = unsafe { st.as_mut_vec() }.try_reserve_exact(sz);
                let (p, c) = (st.as_ptr() as usize, st.capacity());
                mem::forget(st);
                return if r.is_ok() { Got::ok(p, c, "str_try") } else { Got::failed("str_try") };
            }
        }
        _ => {}
    }
    let Some(l) = layout(sz, al) else { return Got::failed("raw") };
    match a.allocate(l) {
        Ok(p) => Got::ok(p.cast::<u8>().as_ptr() as usize, p.len(), "raw"),
        Err(_) => Got::failed("raw"),
    }
}

fn do_grow(sess: &Sess, b: &Blk, s: i64, api: &str) -> Got {
    let a = sess.cur();
    let al = b.al;
    let nsz = want_bytes(s, al);
    let old = b.len;
    match api {
        "vec" => {
            with_aligned!(al, T, {
                if s > 0 && old > 0 && old.is_multiple_of(al) && nsz.is_multiple_of(al) {
                    let mut v: Vec<T, &Arena> = unsafe { Vec::from_raw_parts_in(b.ptr.cast::<T>(), old / al, old / al, a) };
                    let r = v.try_reserve_exact((nsz - old) / al);
                    let (p, c) = (v.as_mut_ptr() as usize, v.capacity());
                    mem::forget(v);
                    return if r.is_ok() { Got::ok(p, c * al, "vec") } else { Got::failed("vec") };
                }
            }, {});
        }
        "str" | "strrep" => {
            if al == 1 && s > 0 && old > 0 {
                let mut st = unsafe { ArenaString::from_raw_parts(NonNull::new_unchecked(b.ptr), old, a) };
                // push_str grows amortised (at least twice the old capacity) and aborts on failure
                let amortised = nsz.max(old * 2).max(8);
                if sess.certainly_fits(amortised, 1) {
                    let extra = "x".repeat(nsz - old);
                    // keep the old contents comparable: append, through push_str or through the replace family
                    // (replace_range with an empty range at the end; both grow the block when it is full)
                    if api == "strrep" {
                        st.replace_range(old..old, &extra);
                    } else {
                        st.push_str(&extra);
                    }
                    let (p, c) = (st.as_ptr() as usize, st.capacity());
                    mem::forget(st);
                    return Got::ok(p, c, "str_push");
                }
                let r = unsafe { st.as_mut_vec() }.try_reserve_exact(nsz - old);
                let (p, c) = (st.as_ptr() as usize, st.capacity());
                mem::forget(st);
                return if r.is_ok() { Got::ok(p, c, "str_try") } else { Got::failed("str_try") };
            }
        }
        _ => {}
    }
    let (Some(lo), Some(ln)) = (layout(old, al), layout(nsz, al)) else { return Got::failed("raw") };
    let ptr = unsafe { NonNull::new_unchecked(b.ptr) };
    if api == "rawz" {
        return match unsafe { a.grow_zeroed(ptr, lo, ln) } {
            Ok(p) => {
                let q = p.cast::<u8>().as_ptr() as usize;
                let mut g = Got::ok(q, p.len(), "rawz");
                if sess.in_committed(q, p.len()) {
                    g.zero = (old..nsz).all(|k| unsafe { *(q as *const u8).add(k) } == 0);
                }
                g
            }
            Err(_) => Got::failed("rawz"),
        };
    }
    match unsafe { a.grow(ptr, lo, ln) } {
        Ok(p) => Got::ok(p.cast::<u8>().as_ptr() as usize, p.len(), "raw"),
        Err(_) => Got::failed("raw"),
    }
}

fn do_shrink(sess: &Sess, b: &Blk, s: i64, api: &str) -> Got {
    let a = sess.cur();
    let al = b.al;
    let nsz = s.max(0) as usize;
    let old = b.len;
    match api {
        "vec" => {
            with_aligned!(al, T, {
                if nsz > 0 && old.is_multiple_of(al) && nsz.is_multiple_of(al) {
                    let mut v: Vec<T, &Arena> = unsafe { Vec::from_raw_parts_in(b.ptr.cast::<T>(), nsz / al, old / al, a) };
                    v.shrink_to_fit();
                    let (p, c) = (v.as_mut_ptr() as usize, v.capacity());
                    mem::forget(v);
                    return Got::ok(p, c * al, "vec");
                }
            }, {});
        }
        "str" | "strrep" => {
            if al == 1 && nsz > 0 {
                let mut v: Vec<u8, &Arena> = unsafe { Vec::from_raw_parts_in(b.ptr, nsz, old, a) };
                for x in v.iter_mut() {
                    *x &= 0x7f; // ArenaString wants UTF-8; the pattern is re-written after the step
                }
                let mut st = unsafe { ArenaString::from_utf8_unchecked(v) };
                st.shrink_to_fit();
                let (p, c) = (st.as_ptr() as usize, st.capacity());
                mem::forget(st);
                let mut g = Got::ok(p, c, "str");
                g.kept = false; // contents were masked: compared separately below
                return g;
            }
        }
        _ => {}
    }
    let (Some(lo), Some(ln)) = (layout(old, al), layout(nsz, al)) else { return Got::failed("raw") };
    match unsafe { a.shrink(NonNull::new_unchecked(b.ptr), lo, ln) } {
        Ok(p) => Got::ok(p.cast::<u8>().as_ptr() as usize, p.len(), "raw"),
        Err(_) => Got::failed("raw"),
    }
}

/// Executes one operation, updates the shadow block table by the ABSTRACT rules and returns the record.
fn exec(sess: &mut Sess, o: &str, id: i64, s: i64, al: usize, api: &str) -> J {
    sess.step += 1;
    let seed = (sess.step % 200) as u8 + 1;
    let mut rec = json!({"o": o, "i": id, "s": if s < 0 { BIG as i64 } else { s }, "a": al, "api": api,
                         "fail": false, "beg": 0, "len": 0, "amod": 0, "zero": true, "kept": true});
    let note_got = |rec: &mut J, sess: &Sess, g: &Got| {
        rec["api"] = json!(g.api);
        rec["fail"] = json!(g.fail);
        if !g.fail {
            let base = sess.base();
            rec["beg"] = json!(if g.ptr >= base { ((g.ptr - base).min(BIG)) as i64 } else { -1 });
            rec["len"] = json!(g.len.min(BIG));
            rec["amod"] = json!(g.ptr % al);
            rec["zero"] = json!(g.zero);
        }
    };
    let outcome = guarded(|| match o {
        "alloc" | "allocz" => {
            let g = do_alloc(sess, s, al, api, o == "allocz");
            note_got(&mut rec, sess, &g);
            if !g.fail && sess.in_committed(g.ptr, g.len) {
                let b = Blk { ptr: g.ptr as *mut u8, len: g.len, al, lvl: sess.marks.len(), seed };
                sess.fill(&b);
                sess.blocks.insert(id, b);
            }
        }
        "grow" | "shrink" => {
            let Some(b) = sess.blocks.get(&id).copied() else {
                rec["o"] = json!("skip");
                return;
            };
            if o == "shrink" {
                // outside the property (and a debug assertion by design) unless it is the tail block,
                // placed after the newest mark, and the request really shrinks it
                let floor = sess.base() + sess.marks.last().map_or(0, |m| m.0);
                let tail = b.ptr as usize + b.len == sess.base() + sess.offset();
                if !tail || b.lvl != sess.marks.len() || (b.ptr as usize) < floor || s < 0 || s as usize >= b.len {
                    rec["o"] = json!("skip");
                    return;
                }
            }
            if o == "grow" && s >= 0 && s as usize <= b.len {
                rec["o"] = json!("skip"); // an earlier amortised growth already made it this large
                return;
            }
            let g = if o == "grow" { do_grow(sess, &b, s, api) } else { do_shrink(sess, &b, s, api) };
            note_got(&mut rec, sess, &g);
            if g.fail {
                // nothing changes
            } else if !sess.in_committed(g.ptr, g.len) {
                sess.blocks.remove(&id);
            } else {
                let keep = b.len.min(g.len);
                let nb = Blk { ptr: g.ptr as *mut u8, len: g.len, al: b.al, seed: b.seed,
                               lvl: if o == "shrink" && g.ptr == b.ptr as usize { b.lvl } else { sess.marks.len() } };
                let kept = if g.api == "str" && o == "shrink" {
                    (0..keep).all(|k| unsafe { nb.ptr.add(k).read() } == pat(b.seed, k) & 0x7f)
                } else {
                    sess.intact(&nb, keep)
                };
                rec["kept"] = json!(kept);
                let nb = Blk { seed, ..nb };
                sess.fill(&nb);
                sess.blocks.insert(id, nb);
            }
        }
        "mark" => sess.marks.push((sess.offset(), false)),
        "borrow" => {
            let off = sess.offset();
            let sc = if sess.own.is_some() { ScratchArena::verif_borrow(sess.cur()) } else { scratch_arena(None) };
            sess.stack.push(sc);
            sess.marks.push((off, true));
        }
        "reset" | "release" => {
            let want_borrow = o == "release";
            match sess.marks.last() {
                Some(&(m, is_borrow)) if is_borrow == want_borrow => {
                    let n = sess.marks.len();
                    if is_borrow {
                        drop(sess.stack.pop());
                    } else {
                        unsafe { sess.cur().reset(m) };
                    }
                    sess.marks.pop();
                    sess.blocks.retain(|_, b| b.lvl < n);
                }
                _ => rec["o"] = json!("skip"),
            }
        }
        "decommit" => sess.cur().decommit(),
        _ => rec["o"] = json!("skip"),
    });
    if let Err(p) = outcome {
        rec["panic"] = json!(p);
        rec["fail"] = json!(true);
    }
    rec["off"] = json!(sess.offset());
    rec["commit"] = json!(sess.commit());
    let mut seen = Vec::new();
    let mut bad = Vec::new();
    for (bid, b) in &sess.blocks {
        seen.push(*bid);
        // an empty block owns no byte
        if b.len > 0 && (!sess.in_committed(b.ptr as usize, b.len) || !sess.intact(b, b.len)) {
            bad.push(*bid);
        }
    }
    rec["seen"] = json!(seen);
    rec["bad"] = json!(bad);
    rec
}

/// Bytes the implementation keeps for itself per block (red zone, header): measured, 0 today.
fn measure_slack() -> usize {
    let a = Arena::new(1).unwrap();
    let l = Layout::from_size_align(1, 1).unwrap();
    if a.allocate(l).is_err() {
        return 0;
    }
    let o1 = a.offset();
    if a.allocate(l).is_err() {
        return o1.saturating_sub(1);
    }
    let o2 = a.offset();
    o1.saturating_sub(1).max(o2.saturating_sub(o1 + 1))
}

struct Rng(u64);
impl Rng {
    fn next(&mut self) -> u64 {
        self.0 ^= self.0 << 13;
        self.0 ^= self.0 >> 7;
        self.0 ^= self.0 << 17;
        self.0
    }
    fn below(&mut self, n: usize) -> usize {
        (self.next() % n as u64) as usize
    }
    fn pick<T: Copy>(&mut self, xs: &[T]) -> T {
        xs[self.below(xs.len())]
    }
}

/// Seeded long history with real byte sizes around the commit granularity and the capacity limit.
fn random_history(sess: &mut Sess, seed: u64, steps: usize) -> Vec<J> {
    let mut rng = Rng(seed.wrapping_mul(0x9E37_79B9_7F4A_7C15) | 1);
    let chunk = Arena::verif_chunk_size();
    let mut out = Vec::new();
    let aligns = [1usize, 1, 1, 2, 8, 8, 64, 4096, 8192, 65536];
    let apis = ["raw", "raw", "typed", "vec", "str", "rawz"];
    for n in 0..steps {
        let cap = sess.cap();
        let rem = cap.saturating_sub(sess.offset());
        let small = [0usize, 1, 7, 8, 9, 63, 64, 65, 100, 1000, 4095, 4096, 4097];
        let edge = [chunk - 1, chunk, chunk + 1, 2 * chunk - 1, 2 * chunk, 2 * chunk + 1,
                    rem.saturating_sub(1), rem, rem + 1, rem / 2, cap, cap + 1];
        let to_chunk = (chunk - sess.offset() % chunk) % chunk;
        let near = [to_chunk.saturating_sub(1), to_chunk, to_chunk + 1];
        let size = |rng: &mut Rng| -> i64 {
            match rng.below(10) {
                0..=4 => rng.pick(&small) as i64,
                5..=6 => rng.pick(&near) as i64,
                7..=8 => rng.pick(&edge) as i64,
                _ => if rng.below(4) == 0 { -1 } else { rng.pick(&edge) as i64 },
            }
        };
        let id = n as i64 + 1;
        let api = rng.pick(&apis);
        let live: Vec<i64> = sess.blocks.keys().copied().collect();
        let r = rng.below(100);
        let rec = if r < 40 || live.is_empty() && r < 70 {
            if live.len() >= 10 { exec(sess, "decommit", 0, 0, 1, "raw") } else { exec(sess, "alloc", id, size(&mut rng), rng.pick(&aligns), api) }
        } else if r < 45 {
            exec(sess, "allocz", id, rng.pick(&small) as i64, rng.pick(&aligns), "raw")
        } else if r < 65 && !live.is_empty() {
            let bid = rng.pick(&live);
            let old = sess.blocks[&bid].len;
            let al = sess.blocks[&bid].al;
            let add = rng.pick(&[1usize, 8, 100, 4096, chunk - 1, chunk, chunk + 1, rem, rem + 1, to_chunk + 1]);
            let nsz = ((old + add).max(old + 1) + al - 1) & !(al - 1);
            exec(sess, "grow", bid, if rng.below(40) == 0 { -1 } else { nsz as i64 }, al, api)
        } else if r < 70 && !live.is_empty() {
            // only the tail block, and only one placed after the newest mark
            let end = sess.base() + sess.offset();
            let floor = sess.marks.last().map_or(0, |m| m.0) + sess.base();
            let tail = live.iter().copied().find(|b| {
                let x = &sess.blocks[b];
                x.len > 0 && x.ptr as usize + x.len == end && x.lvl == sess.marks.len() && x.ptr as usize >= floor
            });
            match tail {
                Some(bid) => {
                    let x = &sess.blocks[&bid];
                    let nsz = (rng.below(x.len)) & !(x.al - 1);
                    exec(sess, "shrink", bid, nsz as i64, x.al, api)
                }
                None => exec(sess, "decommit", 0, 0, 1, "raw"),
            }
        } else if r < 78 && sess.marks.len() < 4 {
            exec(sess, "mark", 0, 0, 1, "raw")
        } else if r < 84 && sess.marks.len() < 4 {
            exec(sess, "borrow", 0, 0, 1, "raw")
        } else if r < 96 && !sess.marks.is_empty() {
            let is_borrow = sess.marks.last().unwrap().1;
            exec(sess, if is_borrow { "release" } else { "reset" }, 0, 0, 1, "raw")
        } else {
            exec(sess, "decommit", 0, 0, 1, "raw")
        };
        out.push(rec);
    }
    out
}

fn handle(req: &J) -> J {
    let build = if cfg!(debug_assertions) { "debug" } else { "fast" };
    if req.get("info").is_some() {
        let page = unsafe { libc::sysconf(libc::_SC_PAGESIZE) } as usize;
        return json!({"st": "ok", "chunk": Arena::verif_chunk_size(), "page": page, "slack": measure_slack(), "build": build});
    }
    if let Some(items) = req.get("batch").and_then(J::as_array) {
        // several histories per request (less protocol overhead); a crash is attributed to the
        // whole batch and the driver replays its members one by one
        let results: Vec<J> = items
            .iter()
            .map(|it| match guarded(|| handle(it)) {
                Ok(r) => r,
                Err(p) => json!({"st": "PANIC", "panic": p}),
            })
            .collect();
        return json!({"st": "ok", "results": results});
    }
    let cap = req["cap"].as_u64().unwrap_or(1) as usize;
    let global = req["root"].as_str() == Some("global");
    let mut sess = Sess::new(cap, global);
    sess.slack = measure_slack();
    let hdr = json!({"cap": sess.cap(), "chunk": Arena::verif_chunk_size(), "bm": sess.base() % BM_MOD,
                     "slack": sess.slack, "off0": sess.offset(), "commit0": sess.commit(), "build": build,
                     "root": if global { "global" } else { "own" }});
    let steps = if let Some(r) = req.get("random") {
        random_history(&mut sess, r["seed"].as_u64().unwrap_or(1), r["steps"].as_u64().unwrap_or(100) as usize)
    } else {
        let mut out = Vec::new();
        for op in req["ops"].as_array().map(Vec::as_slice).unwrap_or(&[]) {
            out.push(exec(
                &mut sess,
                op["o"].as_str().unwrap_or(""),
                op["i"].as_i64().unwrap_or(0),
                op["s"].as_i64().unwrap_or(0),
                op["a"].as_u64().unwrap_or(1).max(1) as usize,
                op["api"].as_str().unwrap_or("raw"),
            ));
        }
        out
    };
    sess.drop_all();
    json!({"st": "ok", "hdr": hdr, "steps": steps})
}

pub fn worker() {
    let mut out = response_channel();
    quiet_panics();
    let stdin = std::io::stdin();
    for line in stdin.lock().lines() {
        let Ok(line) = line else { break };
        if line.trim().is_empty() {
            continue;
        }
        let req: J = match serde_json::from_str(&line) {
            Ok(v) => v,
            Err(_) => continue,
        };
        let id = req["id"].clone();
        let modes: Vec<String> = req["modes"].as_array().map(|a| a.iter().filter_map(|m| m.as_str().map(String::from)).collect()).unwrap_or_else(|| vec!["x".into()]);
        for m in modes {
            send(&mut out, &json!({"begin": id, "mode": m}));
            let mut resp = match guarded(|| handle(&req)) {
                Ok(r) => r,
                Err(p) => json!({"st": "PANIC", "panic": p}),
            };
            resp["id"] = id.clone();
            resp["mode"] = json!(m);
            send(&mut out, &resp);
        }
    }
}
