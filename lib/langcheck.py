"""Binding of the language specifications to the real pipeline (R direction).

A CASE record printed by the TLC generators is  {prog, st, why, out, ev}:  a resolved program and
what the reference machine says it does.  `replay` renders every program, runs it through the
real pipeline in the requested configurations and judges each run against the reference."""
import json
import subprocess

import nsast
import runner

ORACLE = ("done", "Division by zero", "Index out of bounds", "Invalid index")
_INFO = None


def info():
    global _INFO
    if _INFO is None:
        _INFO = json.loads(subprocess.run([runner.VH, "info"], capture_output=True, text=True, check=True).stdout)
    return _INFO


def impl_status(st):
    """Implementation's status string -> the specification's name for it (or the raw string)."""
    inv = {v: k for k, v in info()["runtime"].items()}
    return inv.get(st, st)


def spec_events(case, maps):
    """Reference events in comparable form."""
    out = []
    for e in nsast.seq(case.get("ev", [])):
        k = e[0]
        if k == "shout":
            out.append(("shout", nsast.spec_value(e[1])))
        elif k == "assign":
            out.append(("assign", e[1], nsast.spec_value(e[2])))
        elif k == "call":
            out.append(("call", e[1], e[2]))
        elif k == "ret":
            out.append(("ret", e[1], nsast.spec_value(e[2])))
        elif k == "err":
            out.append(("err", e[1]))
        elif k == "end":
            out.append(("end",))
        elif k == "env":
            out.append(("env", tuple(sorted(((p[0], nsast.spec_value(p[1])) for p in nsast.seq(e[1])), key=str))))
    return out


def impl_events(events, maps):
    """Implementation events -> comparable form; declaration offsets are translated to the
    specification's site labels with the table computed while rendering."""
    decl = {off: lab for lab, off in maps["decl"].items()}
    body = {off: lab for lab, off in maps["body"].items()}
    out = []
    for e in events:
        k = e["ev"]
        if k == "shout":
            out.append(("shout", nsast.impl_value(e["v"])))
        elif k == "assign":
            out.append(("assign", decl.get(e["decl"], ("?", e["decl"])), nsast.impl_value(e["v"])))
        elif k == "call":
            out.append(("call", e["f"], body.get(e["def"], ("?", e["def"]))))
        elif k == "ret":
            out.append(("ret", e["f"], nsast.impl_value(e["v"])))
        elif k == "err":
            out.append(("err", impl_status(e["kind"])))
        elif k == "end":
            out.append(("end",))
        elif k == "env":
            out.append(("env", tuple(sorted(((decl.get(p[0], ("?", p[0])), nsast.impl_value(p[1])) for p in e["vars"]), key=str))))
    return out


def requests_for(cases, modes, ev=0, plan=False, start_id=0):
    """Renders the cases; returns (requests, meta) with meta[id] = (case, source, maps)."""
    reqs, meta = [], {}
    for i, c in enumerate(cases):
        src, maps = nsast.render(c["prog"])
        rid = start_id + i
        # event hooks only where the reference is an oracle (an unbounded recursion would record a
        # quadratic amount of environment projections before it is stopped)
        reqs.append({"id": rid, "src": src, "modes": list(modes), "ev": ev if c["st"] in ORACLE else 0, "plan": plan})
        meta[rid] = (c, src, maps)
    return reqs, meta


def judge_run(case, maps, resp, compare_events=False):
    """Judges one run of the implementation against the reference.
    Returns (class, detail):  class in
       ok            reference is an oracle and the run agrees
       not-oracle    reference is Fuel/Unspecified/Unmodelled and the run ended in a reported way
       crash         panic / abort / signal            (C06)
       hang          no answer within the watchdog     (only a violation when the reference terminates)
       rejected      reference accepts, implementation reports a parse/static error
       mismatch      printed values / ending / events differ from the reference"""
    st = resp.get("st")
    if st == "CRASH" and "memory allocation of" in str((resp.get("crash") or {}).get("msg")):
        return "not-oracle", "arena exhausted (resource limit of the harness configuration)"
    if st in ("PANIC", "CRASH"):
        return "crash", resp.get("panic") or (resp.get("crash") or {}).get("msg") or str(resp.get("crash"))
    oracle = case["st"] in ORACLE
    if st == "HANG":
        return ("hang", "no result within the watchdog") if oracle else ("not-oracle", "hang")
    if not oracle:
        # A hoisted function touching a variable whose `make` has not run: with the plan off the
        # implementation must report exactly that, at that point (the plan may legitimately have
        # pruned the access, so the optimised run stays "any reported outcome").
        if case["st"] == "Unspecified" and case.get("why") == "tdz" and resp.get("mode") in ("nn", "fn") \
                and st not in ("parse_error", "static_error"):
            exp_out = [nsast.spec_value(v) for v in nsast.seq(case["out"])]
            got_out = [nsast.impl_value(v) for v in resp.get("out", [])]
            tdz = info()["runtime"]["Uninitialized variable"]           # the crate's own text for that error kind
            if st != tdz or got_out != exp_out:
                return "mismatch", "expected '%s' after %s, got %s %s" % (tdz, exp_out, st, got_out)
        return "not-oracle", case["st"]
    if st in ("parse_error", "static_error"):
        msgs = [d["msg"] + ":" + (d["labels"][0]["msg"] if d.get("labels") else "") for d in resp.get("diags", []) if d["sev"] == "error"]
        return "rejected", st + " " + "; ".join(msgs[:3])
    got_st = impl_status(st)
    exp_out = [nsast.spec_value(v) for v in nsast.seq(case["out"])]
    got_out = [nsast.impl_value(v) for v in resp.get("out", [])]
    if got_st != case["st"] or got_out != exp_out:
        return "mismatch", "expected %s %s, got %s %s" % (case["st"], exp_out, got_st, got_out)
    if compare_events and resp.get("mode") != "fp":      # with the plan on, pruned assignments legitimately leave no event
        exp = spec_events(case, maps)
        got = impl_events(resp.get("events", []), maps)
        if exp != got:
            n = next((i for i in range(min(len(exp), len(got))) if exp[i] != got[i]), min(len(exp), len(got)))
            return "mismatch", "event %d: expected %s, got %s" % (n, exp[n] if n < len(exp) else "<end of trace>", got[n] if n < len(got) else "<end of trace>")
    return "ok", ""
