"""The language engine: TLC generates programs + reference runs (specs/lang/LangGen.tla under a
profile), the harness replays them on the real pipeline, every run is judged against the
reference and each deviation is attributed to the property it belongs to:

  base configuration (no frame arena, no plan) deviates from the reference  -> the corpus' own property
  base agrees, frame-arena configuration deviates                            -> C02 (reclamation visible)
  frame agrees, plan configuration deviates                                  -> C03 (pruning visible)
  panic / abort / signal in the base configuration                           -> C06
  crash only with frame arena -> C02;  only with the plan -> C03
"""
import collections
import hashlib
import json
import os

import common
import langcheck
import nsast
import runner
import tlc

MODES = ["nn", "fn", "fp"]


def generate(module, env=None, workers=12, timeout=900, coverage=True, cfg="lang/MCGen.cfg"):
    r = tlc.run("lang/%s.tla" % module, cfg, workers=workers, env=env or {}, timeout=timeout, coverage=coverage)
    if r.timed_out:
        raise common.ToolError("TLC timed out on %s" % module)
    if r.rc != 0:
        raise common.ToolError("TLC failed on %s (rc=%s): %s\n%s" % (module, r.rc, r.errors[:3], "\n".join(r.tail[-15:])))
    if coverage:
        dead = [a for a, (d, t) in r.coverage.items() if t == 0 and a in ("GenSimple", "GenFinish", "Run")]
        if dead:
            raise common.ToolError("vacuous model %s: actions never taken: %s" % (module, dead))
    return r


def attribute(classes):
    """classes: {mode: (cls, detail)} -> list of (property-role, cls, mode, detail).
    property-role is "own" (the corpus' property), "C02", "C03" or "C06"."""
    out = []
    bad = lambda m: m in classes and classes[m][0] in ("mismatch", "rejected", "hang")
    crash = lambda m: m in classes and classes[m][0] == "crash"
    if crash("nn"):
        out.append(("C06", "crash", "nn", classes["nn"][1]))
    elif bad("nn"):
        out.append(("own", classes["nn"][0], "nn", classes["nn"][1]))
    else:
        if crash("fn"):
            out.append(("C02", "crash", "fn", classes["fn"][1]))
        elif bad("fn"):
            out.append(("C02", classes["fn"][0], "fn", classes["fn"][1]))
        elif crash("fp"):
            out.append(("C03", "crash", "fp", classes["fp"][1]))
        elif bad("fp"):
            out.append(("C03", classes["fp"][0], "fp", classes["fp"][1]))
    return out


def replay(cases, modes=MODES, ev=0, compare_events=False, nworkers=16, timeout=20.0, plan=False):
    """Returns a list of (case, src, maps, {mode: (cls, detail)}, {mode: response})."""
    reqs, meta = langcheck.requests_for(cases, modes, ev=ev, plan=plan)
    res = runner.run_requests(reqs, nworkers=nworkers, timeout=timeout)
    out = []
    for rid, (c, src, maps) in meta.items():
        classes = {}
        for mode, resp in res.get(rid, {}).items():
            classes[mode] = langcheck.judge_run(c, maps, resp, compare_events=compare_events)
        out.append((c, src, maps, classes, res.get(rid, {})))
    return out


def core_key(src):
    """Key of a deviation that has no better abstract identifier: a hash of the program text with
    identifiers kept (generated programs are already tiny and canonical)."""
    return hashlib.sha1(src.encode()).hexdigest()[:10]


class Tally:
    """Accumulates judged runs for the evidence file."""

    def __init__(self):
        self.programs = 0
        self.oracle = 0
        self.by_class = collections.Counter()
        self.routed = collections.Counter()
        self.samples = []
        self.states = 0
        self.transitions = 0
        self.distinct_sources = set()
        self.profiles = {}

    def add_tlc(self, name, r):
        self.states += r.distinct
        self.transitions += r.generated
        self.profiles[name] = {"distinct_states": r.distinct, "states_generated": r.generated, "programs": len(r.records),
                               "wall_s": round(r.wall, 1), "coverage": {k: v[1] for k, v in r.coverage.items()},
                               "status": dict(collections.Counter(x.get("st", "-") for x in r.records))}

    def add(self, judged):
        for (c, src, maps, classes, resps) in judged:
            self.programs += 1
            if c["st"] in langcheck.ORACLE:
                self.oracle += 1
            for mode, (cls, det) in classes.items():
                self.by_class[mode + ":" + cls] += 1
            if len(self.samples) < 3 and c["st"] in langcheck.ORACLE and len(src) > 40:
                self.samples.append({"source": src, "reference": {"status": c["st"], "printed": [list(nsast.spec_value(v)) for v in nsast.seq(c["out"])][:6]}})

    def coverage(self, exhaustive):
        return {"states": self.states, "transitions": self.transitions, "traces_validated_against_impl": self.oracle,
                "programs": self.programs, "oracle_programs": self.oracle, "runs_by_mode_and_class": dict(self.by_class),
                "routed_to_other_properties": dict(self.routed), "profiles": self.profiles,
                "samples": self.samples or [{"note": "no oracle sample"}], "exhaustive": exhaustive,
                "evaluations": self.programs, "distinct_nontrivial": self.oracle,
                "rule": "every program of the bounded grammar(s) enumerated by TLC; non-trivial = the reference run ends normally or in a documented error (an oracle), distinct by construction (TLC states)"}
