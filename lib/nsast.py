"""NaijaScript abstract syntax as used by the TLA+ specifications (specs/lang), plus the
pretty-printer that turns a tree into source text.

The tree format is exactly what `ToJson` prints for the TLA+ records (and what
`ndJsonDeserialize` reads back):

expressions  {"k":"num","v":q}  (q = quarters)   {"k":"bool","v":b}   {"k":"null"}
             {"k":"str","segs":[{"k":"lit","v":[cp..]} | {"k":"var","n":name,"site":s}]}
             {"k":"var","n":name,"site":s}
             {"k":"un","op":"not"|"neg","e":E}     {"k":"bin","op":OP,"l":E,"r":E}
             {"k":"arr","es":[E..]}   {"k":"idx","a":E,"i":E}
             {"k":"call","f":name,"site":s,"as":[E..]}   {"k":"mcall","o":E,"m":name,"as":[E..]}
statements   make make0 set seti expr if loop block def ret ret0 brk cont
             every statement has "id"; declaring nodes have "d" (def: also "pd":[..]) and "site".

The printer inserts the MINIMAL parentheses according to the precedence table of the
specification (Grammar below = specs/lang/Grammar.tla), so precedence and associativity of the
real parser are exercised rather than assumed.
"""
import json

OPS = {"add": "add", "minus": "minus", "times": "times", "divide": "divide", "mod": "mod",
       "na": "na", "pass": "pass", "lt": "small pass", "and": "and", "or": "or"}
# binding levels (higher binds tighter); all binary operators associate to the left
LEVEL = {"or": 1, "and": 2, "na": 3, "pass": 3, "lt": 3, "add": 4, "minus": 4,
         "times": 5, "divide": 5, "mod": 5}
UNARY, POSTFIX, ATOM = 6, 7, 8
KEYWORDS = {"make", "get", "add", "minus", "times", "divide", "mod", "and", "or", "not", "jasi", "start", "end",
            "comot", "next", "na", "pass", "true", "false", "null", "do", "return", "if to say", "if not so", "small pass"}


def seq(x):
    """TLC prints an empty sequence as {} in some positions."""
    if isinstance(x, dict) and not x:
        return []
    return x


# ---------------------------------------------------------------- builders
def num(x):
    q = x * 4
    assert q == int(q), x
    return {"k": "num", "v": int(q)}


def numq(q):
    return {"k": "num", "v": q}


def boolean(b):
    return {"k": "bool", "v": bool(b)}


NULL = {"k": "null"}


def cps(s):
    return [ord(c) for c in s]


def string(*segs):
    out = []
    for g in segs:
        if isinstance(g, tuple):
            out.append({"k": "var", "n": g[0], "site": 0})
        else:
            out.append({"k": "lit", "v": cps(g)})
    return {"k": "str", "segs": out}


def var(n):
    return {"k": "var", "n": n, "site": 0}


def binop(op, l, r):
    return {"k": "bin", "op": op, "l": l, "r": r}


def unop(op, e):
    return {"k": "un", "op": op, "e": e}


def arr(*es):
    return {"k": "arr", "es": list(es)}


def idx(a, i):
    return {"k": "idx", "a": a, "i": i}


def call(f, *a):
    return {"k": "call", "f": f, "site": 0, "as": list(a)}


def mcall(o, m, *a):
    return {"k": "mcall", "o": o, "m": m, "as": list(a)}


def make(n, e):
    return {"k": "make", "id": 0, "d": 0, "n": n, "site": 0, "e": e}


def make0(n):
    return {"k": "make0", "id": 0, "d": 0, "n": n, "site": 0}


def set_(n, e):
    return {"k": "set", "id": 0, "n": n, "site": 0, "e": e}


def seti(n, idxs, e):
    return {"k": "seti", "id": 0, "n": n, "site": 0, "is": list(idxs), "e": e}


def expr(e):
    return {"k": "expr", "id": 0, "e": e}


def shout(e):
    return expr(call("shout", e))


def if_(c, t, f=None):
    return {"k": "if", "id": 0, "c": c, "t": t, "f": [f] if f is not None else []}


def loop(c, b):
    return {"k": "loop", "id": 0, "c": c, "b": b}


def block(b):
    return {"k": "block", "id": 0, "b": b}


def define(n, ps, b):
    return {"k": "def", "id": 0, "d": 0, "n": n, "site": 0, "ps": list(ps), "pd": [0] * len(ps),
            "psites": [0] * len(ps), "b": b}


def ret(e):
    return {"k": "ret", "id": 0, "e": e}


RET0 = {"k": "ret0", "id": 0}


def brk():
    return {"k": "brk", "id": 0}


def cont():
    return {"k": "cont", "id": 0}


def label(body):
    """Assigns unique statement ids and declaration labels in preorder (in place)."""
    c = [0]

    def blk(stmts):
        for s in stmts:
            c[0] += 1
            s["id"] = c[0]
            k = s["k"]
            if k in ("make", "make0"):
                s["d"] = 10 * c[0]
            elif k == "def":
                s["d"] = 10 * c[0]
                s["pd"] = [10 * c[0] + j + 1 for j in range(len(s["ps"]))]
                s["psites"] = list(s["pd"])
                blk(s["b"])
            elif k == "if":
                blk(s["t"])
                for f in seq(s["f"]):
                    blk(f)
            elif k in ("loop", "block"):
                blk(s["b"])
    blk(body)
    return body


# ---------------------------------------------------------------- printing to tokens
def qtext(q):
    a = abs(q)
    return str(a // 4) + {0: "", 1: ".25", 2: ".5", 3: ".75"}[a % 4]


def lit_text(cpsv):
    out = []
    for c in seq(cpsv):
        ch = chr(c)
        if ch == '"':
            out.append('\\"')
        elif ch == "\\":
            out.append("\\\\")
        elif ch == "\n":
            out.append("\\n")
        elif ch == "\t":
            out.append("\\t")
        elif ch in "{}":
            raise ValueError("braces in literal segments are outside the documented language")
        elif ch == "\r":
            raise ValueError("CR inside a string literal cannot be written")
        else:
            out.append(ch)
    return "".join(out)


class Tok:
    __slots__ = ("text", "tags", "words")

    def __init__(self, text, tags=None, words=None):
        self.text = text
        self.tags = tags or []
        self.words = words      # for multi-word keywords: list of words


def expr_tokens(e, ctx=0):
    """Tokens of expression `e` printed so that it parses back to `e` in a context that
    requires binding level >= ctx."""
    k = e["k"]
    if k == "num":
        if e["v"] < 0:
            return wrap([Tok("minus"), Tok(qtext(e["v"]))], UNARY, ctx)
        return [Tok(qtext(e["v"]))]
    if k == "bool":
        return [Tok("true" if e["v"] else "false")]
    if k == "null":
        return [Tok("null")]
    if k == "var":
        return [Tok(e["n"])]
    if k == "str":
        body = "".join(("{" + g["n"] + "}") if g["k"] == "var" else lit_text(g["v"]) for g in seq(e["segs"]))
        return [Tok('"' + body + '"')]
    if k == "bin":
        lv = LEVEL[e["op"]]
        op = OPS[e["op"]]
        optok = Tok(op, words=op.split(" ")) if " " in op else Tok(op)
        toks = expr_tokens(e["l"], lv) + [optok] + expr_tokens(e["r"], lv + 1)
        return wrap(toks, lv, ctx)
    if k == "un":
        toks = [Tok("not" if e["op"] == "not" else "minus")] + expr_tokens(e["e"], UNARY)
        return wrap(toks, UNARY, ctx)
    if k == "arr":
        toks = [Tok("[")]
        for i, x in enumerate(seq(e["es"])):
            if i:
                toks.append(Tok(","))
            toks += expr_tokens(x, 0)
        return toks + [Tok("]")]
    if k == "idx":
        return expr_tokens(e["a"], POSTFIX) + [Tok("[")] + expr_tokens(e["i"], 0) + [Tok("]")]
    if k == "call":
        toks = [Tok(e["f"]), Tok("(")]
        for i, x in enumerate(seq(e["as"])):
            if i:
                toks.append(Tok(","))
            toks += expr_tokens(x, 0)
        return toks + [Tok(")")]
    if k == "rawnum":      # a number literal given as text
        return [Tok(e["t"])]
    if k == "callx":       # a call whose callee is not a name: `f()(1)`, `a[0](2)`
        o = e["o"]
        recv = ([Tok("(")] + expr_tokens(o, 0) + [Tok(")")]) if o["k"] in ("num", "rawnum", "bin", "un") else expr_tokens(o, POSTFIX)
        toks = recv + [Tok("(")]
        for i, x in enumerate(seq(e["as"])):
            if i:
                toks.append(Tok(","))
            toks += expr_tokens(x, 0)
        return toks + [Tok(")")]
    if k == "member":      # `o.m` without a call (only dynamically typed receivers pass the resolver)
        o = e["o"]
        recv = ([Tok("(")] + expr_tokens(o, 0) + [Tok(")")]) if o["k"] in ("num", "rawnum") else expr_tokens(o, POSTFIX)
        return recv + [Tok("."), Tok(e["m"])]
    if k == "mcall":
        o = e["o"]
        if o["k"] in ("num", "rawnum"):
            recv = [Tok("(")] + expr_tokens(o, 0) + [Tok(")")]      # `2.abs()` does not lex
        else:
            recv = expr_tokens(o, POSTFIX)
        toks = recv + [Tok("."), Tok(e["m"]), Tok("(")]
        for i, x in enumerate(seq(e["as"])):
            if i:
                toks.append(Tok(","))
            toks += expr_tokens(x, 0)
        return toks + [Tok(")")]
    raise ValueError(k)


FULL_PAREN = [False]     # C10: parenthesise every binary / unary sub-expression (redundant parentheses)


def wrap(toks, level, ctx):
    if level < ctx or (FULL_PAREN[0] and level <= UNARY):
        return [Tok("(")] + toks + [Tok(")")]
    return toks


def tokens_full_paren(body):
    """Tokens of the program with every binary / unary sub-expression parenthesised (C10)."""
    FULL_PAREN[0] = True
    try:
        return tokens(body)
    finally:
        FULL_PAREN[0] = False


def stmt_tokens(s, depth, out):
    k = s["k"]
    first = len(out)
    if k == "make":
        out += [Tok("make"), Tok(s["n"], [("decl", s["d"])]), Tok("get")] + expr_tokens(s["e"])
    elif k == "make0":
        out += [Tok("make"), Tok(s["n"], [("decl", s["d"])])]
    elif k == "set":
        out += [Tok(s["n"]), Tok("get")] + expr_tokens(s["e"])
    elif k == "seti":
        out.append(Tok(s["n"]))
        for i in seq(s["is"]):
            out += [Tok("[")] + expr_tokens(i) + [Tok("]")]
        out += [Tok("get")] + expr_tokens(s["e"])
    elif k == "setx":       # assignment to an arbitrary index target (the base need not be a variable)
        out += expr_tokens(s["t"], POSTFIX) + [Tok("get")] + expr_tokens(s["e"])
    elif k == "expr":
        out += expr_tokens(s["e"])
    elif k == "if":
        out += [Tok("if to say", words=["if", "to", "say"]), Tok("(")] + expr_tokens(s["c"]) + [Tok(")"), Tok("start")]
        block_tokens(s["t"], depth + 1, out)
        out.append(Tok("end", [("nl", depth)]))
        for f in seq(s["f"]):
            out += [Tok("if not so", [("nl", depth)], words=["if", "not", "so"]), Tok("start")]
            block_tokens(f, depth + 1, out)
            out.append(Tok("end", [("nl", depth)]))
    elif k == "loop":
        out += [Tok("jasi"), Tok("(")] + expr_tokens(s["c"]) + [Tok(")"), Tok("start")]
        block_tokens(s["b"], depth + 1, out)
        out.append(Tok("end", [("nl", depth)]))
    elif k == "block":
        out.append(Tok("start"))
        block_tokens(s["b"], depth + 1, out)
        out.append(Tok("end", [("nl", depth)]))
    elif k == "def":
        out += [Tok("do"), Tok(s["n"]), Tok("(")]
        for j, p in enumerate(seq(s["ps"])):
            if j:
                out.append(Tok(","))
            out.append(Tok(p, [("decl", seq(s["pd"])[j])]))
        out += [Tok(")"), Tok("start")]
        body_first = len(out)
        block_tokens(s["b"], depth + 1, out)
        out.append(Tok("end", [("nl", depth)]))
        out[body_first].tags.append(("body", s["d"]))
    elif k == "ret":
        out += [Tok("return")] + expr_tokens(s["e"])
    elif k == "ret0":
        out.append(Tok("return"))
    elif k == "brk":
        out.append(Tok("comot"))
    elif k == "cont":
        out.append(Tok("next"))
    else:
        raise ValueError(k)
    out[first].tags += [("stmt", s["id"]), ("nl", depth)]


def block_tokens(stmts, depth, out):
    for s in seq(stmts):
        stmt_tokens(s, depth, out)


def tokens(body):
    out = []
    block_tokens(body, 0, out)
    return out


# ---------------------------------------------------------------- layout
def layout(toks, sep=None, inner=None, final="\n"):
    """Joins tokens into source text.  `sep(i, tok)` gives the separator written BEFORE token i
    (default: newline + indentation before statements / `end`, one space elsewhere).
    Returns (source, maps) where maps = {"stmt": {id: byte offset}, "decl": {label: byte offset},
    "body": {def label: byte offset}}; offsets are UTF-8 byte offsets as the implementation
    reports them."""
    parts = []
    pos = 0
    maps = {"stmt": {}, "decl": {}, "body": {}}
    for i, t in enumerate(toks):
        if sep is not None:
            s = sep(i, t)
        else:
            nl = [d for (tag, d) in t.tags if tag == "nl"]
            prev = toks[i - 1].text if i else ""
            if i == 0:
                s = ""
            elif nl:
                s = "\n" + "    " * nl[0]
            elif t.text in (")", "]", ",", ".") or prev in ("(", "[", "."):
                s = ""
            elif t.text in ("(", "[") and (prev[-1:].isalnum() or prev[-1:] in "_)]") and prev not in KEYWORDS:
                s = ""
            else:
                s = " "
        parts.append(s)
        pos += len(s.encode())
        for (tag, v) in t.tags:
            if tag in maps:
                maps[tag][v] = pos
        text = t.text if (inner is None or not t.words) else inner.join(t.words)
        parts.append(text)
        pos += len(text.encode())
    parts.append(final)
    return "".join(parts), maps


PUNCT = "()[],."


def empty_ok(prev, nxt):
    """May two adjacent token texts be written with nothing between them?  (= LexLayout!EmptyOk)"""
    if not prev or not nxt:
        return True
    a, b = prev[-1], nxt[0]
    if prev[0].isdigit() and b == ".":
        return False
    return a in PUNCT or b in PUNCT or a == '"' or b == '"'


def layouts(toks, rnd, k_random=2):
    """Token-preserving re-layouts of a program: list of (name, source)."""
    out = []
    const = lambda s: (lambda i, t: "" if i == 0 else s)
    out.append(("pretty", layout(toks)[0]))
    out.append(("single-line", layout(toks, const(" "), final="")[0]))
    out.append(("token-per-line", layout(toks, const("\n"))[0]))
    out.append(("crlf", layout(toks)[0].replace("\n", "\r\n")))
    out.append(("cr-only", layout(toks, const("\r"), final="\r")[0]))
    out.append(("tabs", layout(toks, const("\t"), inner="\t")[0]))
    out.append(("comment-lf", layout(toks, const(" # c , ( \"\n"), final=" # end")[0]))
    out.append(("comment-cr", layout(toks, const(" #x\r"), inner=" ")[0]))
    out.append(("comment-crlf", layout(toks, const("\t# if to say\r\n"))[0]))
    out.append(("keywords-split", layout(toks, inner="\n")[0]))
    out.append(("keywords-split-wide", layout(toks, const("  "), inner="\t\r\n  ")[0]))
    out.append(("tight", layout(toks, lambda i, t: "" if i == 0 or empty_ok(toks[i - 1].text, t.text) else " ")[0]))
    seps = [" ", "\n", "\r\n", "\t", "  ", " # k\n", "#\r", "\r", "\n\n", ""]
    for j in range(k_random):
        def sep(i, t):
            if i == 0:
                return ""
            s = rnd.choice(seps)
            if s == "" and not empty_ok(toks[i - 1].text, t.text):
                s = " "
            return s
        out.append(("random-%d" % j, layout(toks, sep, inner=rnd.choice([" ", "\n", "\t \r\n"]))[0]))
    return out


def render(body, sep=None):
    return layout(tokens(body), sep)


# ---------------------------------------------------------------- values
def spec_value(v):
    """Canonical (hashable) form of a value printed by the specification."""
    t = v["t"]
    if t == "num":
        return ("num", v["v"])
    if t == "str":
        return ("str", "".join(chr(c) for c in seq(v["v"])))
    if t == "bool":
        return ("bool", bool(v["v"]))
    if t == "null":
        return ("null",)
    if t == "arr":
        return ("arr", tuple(spec_value(x) for x in seq(v["v"])))
    raise ValueError(t)


def impl_value(v):
    """Canonical form of a value reported by the implementation (numbers become quarters when
    they are exactly representable, otherwise ("numx", repr))."""
    t = v["t"]
    if t == "num":
        x = v["v"]
        if isinstance(x, str):
            return ("numx", x)
        q = x * 4
        if q == int(q) and abs(q) < (1 << 40):
            if q == 0 and str(x).startswith("-"):
                return ("numx", "-0")
            return ("num", int(q))
        return ("numx", repr(x))
    if t == "str":
        return ("str", v["v"])
    if t == "bool":
        return ("bool", bool(v["v"]))
    if t == "null":
        return ("null",)
    if t == "arr":
        return ("arr", tuple(impl_value(x) for x in v["v"]))
    return ("host", v.get("v"))


def value_to_spec_json(v):
    """Canonical value -> the JSON the trace specifications read."""
    t = v[0]
    if t == "num":
        return {"t": "num", "v": v[1]}
    if t == "str":
        return {"t": "str", "v": [ord(c) for c in v[1]]}
    if t == "bool":
        return {"t": "bool", "v": v[1]}
    if t == "null":
        return {"t": "null", "v": 0}
    if t == "arr":
        return {"t": "arr", "v": [value_to_spec_json(x) for x in v[1]]}
    return {"t": "other", "v": 0}


def modelled(v):
    """Is the canonical implementation value representable in the model?"""
    t = v[0]
    if t in ("numx", "host"):
        return False
    if t == "num":
        return abs(v[1]) < (1 << 26)
    if t == "arr":
        return all(modelled(x) for x in v[1])
    return True


if __name__ == "__main__":
    import sys
    for line in sys.stdin:
        p = json.loads(line)
        src, maps = render(p["body"] if isinstance(p, dict) else p)
        print(src)
