"""V direction for the language specs: record event traces from the real runtime and have TLC
validate them against the reference machine (specs/lang/LangTrace.tla)."""
import collections
import json
import os

import common
import langcheck
import nsast
import runner
import tlc


def to_spec_events(events, maps):
    """Implementation events -> the JSON records LangTrace reads.  Returns (events, modelled)."""
    decl = {off: lab for lab, off in maps["decl"].items()}
    body = {off: lab for lab, off in maps["body"].items()}
    out = []
    modelled = True

    def val(v):
        nonlocal modelled
        c = nsast.impl_value(v)
        if not nsast.modelled(c):
            modelled = False
        return nsast.value_to_spec_json(c)
    for e in events:
        k = e["ev"]
        if k == "shout":
            out.append({"ev": "shout", "v": val(e["v"])})
        elif k == "assign":
            out.append({"ev": "assign", "site": decl.get(e["decl"], -7), "v": val(e["v"])})
        elif k == "call":
            out.append({"ev": "call", "f": e["f"], "site": body.get(e["def"], -7)})
        elif k == "ret":
            out.append({"ev": "ret", "f": e["f"], "v": val(e["v"])})
        elif k == "err":
            out.append({"ev": "err", "kind": langcheck.impl_status(e["kind"])})
        elif k == "end":
            out.append({"ev": "end"})
        elif k == "env":
            out.append({"ev": "env", "vars": [[decl.get(p[0], -7), val(p[1])] for p in e["vars"]]})
    return out, modelled


def record(programs, mode="fn", ev=3, nworkers=16, timeout=20.0):
    """programs: list of labelled bodies.  Runs each with hooks on; returns a list of dicts
    {body, src, maps, st, resp}."""
    reqs, meta = [], {}
    for i, body in enumerate(programs):
        src, maps = nsast.render(body)
        reqs.append({"id": i, "src": src, "modes": [mode], "ev": ev})
        meta[i] = (body, src, maps)
    res = runner.run_requests(reqs, nworkers=nworkers, timeout=timeout)
    out = []
    for i, (body, src, maps) in meta.items():
        resp = res.get(i, {}).get(mode, {"st": "CRASH"})
        out.append({"body": body, "src": src, "maps": maps, "resp": resp})
    return out


def validate(recorded, env=True, fuel=60000, workers=12, timeout=900, tag="trace"):
    """Feeds the recorded traces to TLC.  Returns a list of (record, verdict dict) for the traces
    that were validated, plus counters of the ones that were not (rejected statically, crashed)."""
    cases, index = [], []
    skipped = collections.Counter()
    for rec in recorded:
        st = rec["resp"].get("st")
        if st in ("parse_error", "static_error"):
            skipped["rejected-statically"] += 1
            continue
        if st in ("PANIC", "CRASH", "HANG"):
            skipped["crash-or-hang"] += 1
            continue
        evs, modelled = to_spec_events(rec["resp"].get("events", []), rec["maps"])
        if len(evs) > 4000:
            skipped["trace-too-long"] += 1
            continue
        cases.append({"body": rec["body"], "events": evs, "env": 1 if env else 0})
        index.append(rec)
    if not cases:
        return [], skipped, None
    # TLC computes the initial states (one per trace) on one thread: large batches are split into chunks,
    # each validated by its own TLC process (three at a time)
    CH = 1000
    chunks = [cases[k:k + CH] for k in range(0, len(cases), CH)]
    results = [None] * len(chunks)

    def one(ci):
        path = os.path.join(common.VERIF, "work", "%s_%d_%d.ndjson" % (tag, os.getpid(), ci))
        tlc.write_ndjson(path, chunks[ci])
        try:
            results[ci] = tlc.run("lang/LangTrace.tla", "lang/LangTrace.cfg", workers=max(2, workers // min(3, len(chunks))),
                                  env={"CASES": path, "FUEL": fuel}, timeout=timeout, coverage=False)
        finally:
            os.remove(path)
    import concurrent.futures
    with concurrent.futures.ThreadPoolExecutor(max_workers=3) as ex:
        list(ex.map(one, range(len(chunks))))
    verdicts = {}
    total = None
    for ci, r in enumerate(results):
        if r is None or r.timed_out or r.rc != 0:
            raise common.ToolError("LangTrace failed (chunk %d of %d) rc=%s %s\n%s" % (ci + 1, len(chunks), getattr(r, "rc", None), getattr(r, "errors", [])[:3], "\n".join(getattr(r, "tail", [])[-12:])))
        for v in r.records:
            if v.get("tag") == "VERDICT":
                verdicts[ci * CH + v["i"]] = v
        if total is None:
            total = r
        else:
            total.distinct += r.distinct
            total.generated += r.generated
            total.wall += r.wall
    out = []
    for j, rec in enumerate(index):
        out.append((rec, verdicts.get(j + 1, {"verdict": "missing"}), cases[j]))
    return out, skipped, total
