"""Shared plumbing of the allocator checks (C11 arena, C12 pool): replaying histories in `vh`
workers and having TLC validate the recorded traces against an abstract-layer trace specification."""
import os

import common
import runner
import tlc


def binary(profile):
    return runner.VH if profile == "dev" else runner.VH_FAST


def replay(requests, mode, profile="dev", nworkers=8, timeout=60.0):
    """requests: dicts with unique "id".  Returns {id: response}; a dead / hung worker is data
    ({"st": "CRASH"|"HANG", ...}) attributed to the request in flight."""
    for r in requests:
        r.setdefault("modes", ["x"])
    res = runner.run_requests(requests, mode=mode, nworkers=nworkers, timeout=timeout, binary=binary(profile))
    return {rid: modes.get("x", {"st": "CRASH", "crash": {"msg": "no answer"}}) for rid, modes in res.items()}


def replay_batched(requests, mode, profile="dev", nworkers=8, timeout=120.0, size=64):
    """Like replay(), but packs `size` requests into one worker request ({"batch": [...]}) to cut
    protocol overhead.  If a batch kills or hangs its worker, its members are replayed one by one so
    that the crash is attributed to the history that caused it."""
    packs = []
    for lo in range(0, len(requests), size):
        packs.append({"id": len(packs), "batch": requests[lo:lo + size]})
    res = replay(packs, mode, profile=profile, nworkers=nworkers, timeout=timeout)
    out = {}
    again = []
    for p in packs:
        r = res.get(p["id"], {"st": "CRASH"})
        if r.get("st") == "ok" and len(r.get("results", [])) == len(p["batch"]):
            for rq, rs in zip(p["batch"], r["results"]):
                out[rq["id"]] = rs
        else:
            again.extend(p["batch"])
    if again:
        out.update(replay([dict(r) for r in again], mode, profile=profile, nworkers=nworkers, timeout=timeout))
    return out


def validate(module, cfg, traces, tag, batch=40000, workers=6, timeout=900, extra_env=None):
    """traces: list of dicts with a unique "id" (what the trace specification reads).  Returns
    ({id: verdict record}, tlc statistics).  Every trace gets exactly one VERDICT record; a TLC
    failure or a missing verdict is a tool error, never a verdict.
    The traces are split over `workers` single-worker TLC processes running side by side (measured:
    one TLC process with 6 workers is hardly faster than with 1 on this kind of specification -
    every state reads the shared, deserialised trace constant)."""
    import threading
    verdicts = {}
    stats = {"runs": 0, "states": 0, "wall_s": 0.0}
    if not traces:
        return verdicts, stats
    nproc = max(1, min(workers, (len(traces) + 499) // 500))
    parts = [traces[k::nproc] for k in range(nproc)]
    errors = []
    lock = threading.Lock()
    import time as _time
    t0 = _time.time()

    def one(k, part):
        path = os.path.join(common.VERIF, "work", "%s_%d_%d.ndjson" % (tag, os.getpid(), k))
        tlc.write_ndjson(path, part)
        env = {"TRACES": path}
        if extra_env:
            env.update(extra_env)
        try:
            r = tlc.run(module, cfg, workers=1, env=env, timeout=timeout, coverage=False, xmx="3g")
        except Exception as e:        # noqa: BLE001
            with lock:
                errors.append("%s: %r" % (module, e))
            return
        finally:
            try:
                os.remove(path)
            except OSError:
                pass
        with lock:
            if r.timed_out or r.rc != 0:
                errors.append("%s failed rc=%s timed_out=%s %s\n%s" % (module, r.rc, r.timed_out, r.errors[:3], "\n".join(r.tail[-15:])))
                return
            stats["runs"] += 1
            stats["states"] += r.distinct
            for v in r.records:
                if v.get("tag") == "VERDICT":
                    verdicts[part[v["i"] - 1]["id"]] = v

    threads = [threading.Thread(target=one, args=(k, part), daemon=True) for k, part in enumerate(parts)]
    for t in threads:
        t.start()
    for t in threads:
        t.join()
    if errors:
        raise common.ToolError(errors[0])
    stats["wall_s"] = round(_time.time() - t0, 1)
    missing = [t["id"] for t in traces if t["id"] not in verdicts]
    if missing:
        raise common.ToolError("%s: %d trace(s) without a verdict (first id %s)" % (module, len(missing), missing[0]))
    return verdicts, stats
