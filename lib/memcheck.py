"""Shared plumbing of the allocator checks (C11 arena, C12 pool): replaying histories in `vh`
workers and having TLC validate the recorded traces against an abstract-layer trace specification."""
import os

import common
import runner
import tlc


def binary(profile):
    return runner.VH if profile == "dev" else runner.VH_FAST


def replay(requests, mode, profile="dev", nworkers=8, timeout=60.0):
    """requests: dicts with unique "id".  Returns {id: response}; a dead / hung worker is data
    ({"st": "CRASH"|"HANG", ...}) attributed to the request in flight."""
    for r in requests:
        r.setdefault("modes", ["x"])
    res = runner.run_requests(requests, mode=mode, nworkers=nworkers, timeout=timeout, binary=binary(profile))
    return {rid: modes.get("x", {"st": "CRASH", "crash": {"msg": "no answer"}}) for rid, modes in res.items()}


def replay_batched(requests, mode, profile="dev", nworkers=8, timeout=120.0, size=64):
    """Like replay(), but packs `size` requests into one worker request ({"batch": [...]}) to cut
    protocol overhead.  If a batch kills or hangs its worker, its members are replayed one by one so
    that the crash is attributed to the history that caused it."""
    packs = []
    for lo in range(0, len(requests), size):
        packs.append({"id": len(packs), "batch": requests[lo:lo + size]})
    res = replay(packs, mode, profile=profile, nworkers=nworkers, timeout=timeout)
    out = {}
    again = []
    for p in packs:
        r = res.get(p["id"], {"st": "CRASH"})
        if r.get("st") == "ok" and len(r.get("results", [])) == len(p["batch"]):
            for rq, rs in zip(p["batch"], r["results"]):
                out[rq["id"]] = rs
        else:
            again.extend(p["batch"])
    if again:
        out.update(replay([dict(r) for r in again], mode, profile=profile, nworkers=nworkers, timeout=timeout))
    return out


def validate(module, cfg, traces, tag, batch=40000, workers=6, timeout=900, extra_env=None):
    """traces: list of dicts with a unique "id" (what the trace specification reads).  Returns
    ({id: verdict record}, tlc statistics).  Every trace gets exactly one VERDICT record; a TLC
    failure or a missing verdict is a tool error, never a verdict."""
    verdicts = {}
    stats = {"runs": 0, "states": 0, "wall_s": 0.0}
    for lo in range(0, len(traces), batch):
        part = traces[lo:lo + batch]
        path = os.path.join(common.VERIF, "work", "%s_%d_%d.ndjson" % (tag, os.getpid(), lo))
        tlc.write_ndjson(path, part)
        env = {"TRACES": path}
        if extra_env:
            env.update(extra_env)
        try:
            r = tlc.run(module, cfg, workers=workers, env=env, timeout=timeout, coverage=False, xmx="10g")
        finally:
            try:
                os.remove(path)
            except OSError:
                pass
        if r.timed_out or r.rc != 0:
            raise common.ToolError("%s failed rc=%s timed_out=%s %s\n%s" % (module, r.rc, r.timed_out, r.errors[:3], "\n".join(r.tail[-15:])))
        stats["runs"] += 1
        stats["states"] += r.distinct
        stats["wall_s"] = round(stats["wall_s"] + r.wall, 1)
        for v in r.records:
            if v.get("tag") == "VERDICT":
                verdicts[part[v["i"] - 1]["id"]] = v
        missing = [t["id"] for t in part if t["id"] not in verdicts]
        if missing:
            raise common.ToolError("%s: %d trace(s) without a verdict (first id %s)" % (module, len(missing), missing[0]))
    return verdicts, stats
