"""bin/check <id> <tier> --replay FILE : re-judge one recorded violation on the current tree.

A replay file is what Verdict.finish() wrote: {property, key, description, count, replay}.  Where
the replay object carries the failing input itself (a program and the reference result TLC
computed for it, a source text, a pair of layouts) the input alone is run again through the
harness and judged by the same oracle; otherwise the tier that found it is run again (the checks
are deterministic for a given VERIF_SEED) and the verdict is whether the same key recurs.
Exit 1 + VIOLATION line if it still fails, 0 if it no longer reproduces, 2 on tool errors."""
import contextlib
import io
import json
import re

import common
import langcheck
import nsast
import runner

BAD = ("mismatch", "rejected", "hang", "crash")


def _say(pid, path, still, lines):
    for ln in lines:
        print(ln)
    if still:
        print("VIOLATION property=%s replay=%s" % (pid, path))
        return 1
    print("replay %s: no longer reproduces on the current tree" % path)
    return 0


def _lang(pid, path, r):
    common.build_harness()
    ref = r["reference"]
    case = {"st": ref["st"], "out": ref["out"], "why": r.get("why", "")} if isinstance(ref, dict) else {"st": ref, "out": [], "why": r.get("why", "")}
    modes = ["nn", "fn", "fp"]
    res = runner.run_requests([{"id": 0, "src": r["source"], "modes": modes, "ev": 0, "plan": False}], nworkers=1, timeout=60.0).get(0, {})
    lines = ["program:", r["source"].rstrip("\n"), "reference (TLA+ machine): %s %s" % (case["st"], [nsast.spec_value(v) for v in nsast.seq(case["out"])])]
    still = False
    for mode in modes:
        resp = res.get(mode, {"st": None})
        cls, det = langcheck.judge_run(case, {}, resp)
        lines.append("  %s (%s): %s %s -> %s %s" % (mode, {"nn": "no frame arena, no plan", "fn": "frame arena", "fp": "frame arena + plan"}[mode],
                                                    resp.get("st"), [nsast.impl_value(v) for v in resp.get("out", [])][:8], cls, det[:200]))
        if cls in BAD and (mode == r.get("mode") or cls == "crash"):
            still = True
    # a deviation recorded under one configuration also counts when it now shows under the base one
    if not still and r.get("mode") in ("fn", "fp"):
        pass
    return _say(pid, path, still, lines)


def _c09(pid, path, r):
    common.build_harness()
    resp = runner.run_requests([{"id": 0, "src": r["source"], "modes": ["nn"], "ev": 0, "plan": False}], nworkers=1, timeout=60.0).get(0, {}).get("nn", {})
    rejected = resp.get("st") in ("parse_error", "static_error")
    expected = list(r.get("expected", []))
    errors = [d["msg"] for d in resp.get("diags", []) if d["sev"] == "error"]
    lines = ["program:", r["source"].rstrip("\n"), "rules broken according to LangStatic!Check: %s" % (expected or "none"), "implementation: %s %s" % (resp.get("st"), errors[:4])]
    return _say(pid, path, rejected != bool(expected), lines)


def _c07(pid, path, r):
    import c07
    common.build_harness()
    res = c07.front([r["text"], r.get("minimal", r["text"])], nworkers=2)
    probs = c07.problems(res.get(0, {})) + c07.problems(res.get(1, {}))
    lines = ["text: %r" % r["text"][:400]] + ["  %s: %s" % p for p in probs[:8]]
    return _say(pid, path, bool(probs), lines)


def _c10(pid, path, r):
    common.build_harness()
    reqs = [{"id": 0, "src": r["pretty"], "modes": ["nn"], "ev": 0, "plan": False}, {"id": 1, "src": r["source"], "modes": ["nn"], "ev": 0, "plan": False}]
    res = runner.run_requests(reqs, nworkers=2, timeout=60.0)
    view = lambda x: (x.get("st"), [nsast.impl_value(v) for v in x.get("out", [])], sorted(d["msg"] for d in x.get("diags", []) if d["sev"] == "error"))
    a, b = view(res.get(0, {}).get("nn", {})), view(res.get(1, {}).get("nn", {}))
    lines = ["pretty layout:", r["pretty"].rstrip("\n"), "layout %s: %r" % (r.get("layout"), r["source"][:600]), "  pretty -> %s" % (a,), "  layout -> %s" % (b,)]
    return _say(pid, path, a != b, lines)


def _rerun(pid, path, d, tier):
    import importlib
    mod = importlib.import_module(pid.lower())
    buf = io.StringIO()
    with contextlib.redirect_stdout(buf):
        rc = mod.run(tier)
    out = buf.getvalue()
    if rc == 2:
        print(out)
        return 2
    key = d.get("key", "")
    again = ("key=%s " % key) in out or re.search(r"key=%s\b" % re.escape(key), out) is not None
    lines = ["the %s tier was run again (deterministic for VERIF_SEED); recorded key: %s" % (tier, key)] + [ln for ln in out.splitlines() if ln.startswith(("VIOLATION", "  key=", "KNOWN-FINDING"))][:10]
    return _say(pid, path, again, lines)


def replay(pid, path):
    d = json.load(open(path))
    r = d.get("replay")
    tier = "thorough" if "thorough_" in path.rsplit("/", 1)[-1] else "quick"
    if isinstance(r, dict):
        if pid in ("C01", "C02", "C03", "C04", "C05", "C06") and "source" in r and "reference" in r:
            return _lang(pid, path, r)
        if pid == "C09" and "source" in r and "expected" in r:
            return _c09(pid, path, r)
        if pid == "C07" and "text" in r:
            return _c07(pid, path, r)
        if pid == "C10" and "pretty" in r and "source" in r:
            return _c10(pid, path, r)
    return _rerun(pid, path, d, tier)
