"""Driving TLC: run a module under a timeout, collect its JSON output lines, state counts and
per-action coverage."""
import json
import os
import re
import shutil
import subprocess
import time

VERIF = os.path.dirname(os.path.dirname(os.path.abspath(__file__)))
SPECS = os.path.join(VERIF, "specs")
JAR = "/opt/veriftools/tla/tla2tools.jar:/opt/veriftools/tla/CommunityModules-deps.jar"
LIBPATH = ":".join(os.path.join(SPECS, d) for d in ("lang", "text", "mem", "io", "stack"))


class TlcResult:
    def __init__(self):
        self.rc = None
        self.timed_out = False
        self.records = []        # decoded JSON records printed with PrintT(ToJson(..))
        self.generated = 0
        self.distinct = 0
        self.depth = 0
        self.coverage = {}       # action name -> (distinct, total)
        self.wall = 0.0
        self.errors = []         # TLC error lines (invariant violations, evaluation errors)
        self.tail = []
        self.cmd = ""

    def violated(self):
        return self.rc in (12, 13)


_STATS = re.compile(r"^(\d+) states generated, (\d+) distinct states found")
_DEPTH = re.compile(r"depth of the complete state graph search is (\d+)")
_COV = re.compile(r"^<(\w+) line \d+, col \d+ to line \d+, col \d+ of module (\w+)>: (\d+):(\d+)")


def run(module, cfg, workers=8, env=None, timeout=600, simulate=None, depth=None, seed=None,
        coverage=True, xmx="8g", deque=False, workdir=None, extra=None, on_record=None, keep=None):
    """module/cfg: paths relative to /verif/specs (or absolute).  `on_record(rec)` is called for every
    JSON record as it is printed (streaming); otherwise records accumulate in result.records."""
    res = TlcResult()
    mpath = module if os.path.isabs(module) else os.path.join(SPECS, module)
    cpath = cfg if os.path.isabs(cfg) else os.path.join(SPECS, cfg)
    meta = workdir or os.path.join(VERIF, "work", "tlc_%s_%d_%d" % (os.path.basename(mpath)[:-4], os.getpid(), int(time.time() * 1000) % 100000))
    os.makedirs(meta, exist_ok=True)
    jopts = ["-XX:+UseParallelGC", "-Xss1g", "-Xmx" + xmx, "-DTLA-Library=" + LIBPATH]
    if deque:
        jopts.append("-Dtlc2.tool.queue.IStateQueue=StateDeque")
    cmd = ["java"] + jopts + ["-cp", JAR, "tlc2.TLC", "-workers", str(workers), "-metadir", meta,
                              "-cleanup", "-noGenerateSpecTE", "-config", cpath]
    if coverage and not simulate:
        cmd += ["-coverage", "1"]
    if simulate:
        cmd += ["-simulate", "num=%d" % simulate]
        if depth:
            cmd += ["-depth", str(depth)]
    if seed is not None:
        cmd += ["-seed", str(seed)]
    if extra:
        cmd += list(extra)
    cmd.append(mpath)
    res.cmd = " ".join(cmd)
    e = dict(os.environ)
    e.pop("JAVA_TOOL_OPTIONS", None)
    e.setdefault("LONGSTR", "0")          # LangGen: long string atoms off unless a profile asks
    if env:
        e.update({k: str(v) for k, v in env.items()})
    t0 = time.time()
    p = subprocess.Popen(cmd, stdout=subprocess.PIPE, stderr=subprocess.STDOUT, env=e, cwd=os.path.dirname(mpath), text=True, bufsize=1 << 20)
    tail = []
    import threading

    def watchdog():
        res.timed_out = True
        try:
            p.kill()
        except Exception:
            pass
    timer = threading.Timer(timeout, watchdog)
    timer.daemon = True
    timer.start()
    try:
        deadline = t0 + timeout
        for line in p.stdout:
            line = line.rstrip("\n")
            if line.startswith('"{') or line.startswith('"['):
                try:
                    rec = json.loads(json.loads(line))
                except Exception:
                    res.errors.append("undecodable record: " + line[:200])
                    continue
                if keep is None or keep(rec):
                    if on_record:
                        on_record(rec)
                    else:
                        res.records.append(rec)
                continue
            m = _STATS.match(line)
            if m:
                res.generated, res.distinct = int(m.group(1)), int(m.group(2))
            m = _DEPTH.search(line)
            if m:
                res.depth = int(m.group(1))
            m = _COV.match(line)
            if m:
                res.coverage[m.group(1)] = (int(m.group(3)), int(m.group(4)))
            if line.startswith("Error:") or "is violated" in line or "Attempted to" in line or "was not" in line:
                res.errors.append(line)
            tail.append(line)
            if len(tail) > 400:
                del tail[:200]
            if time.time() > deadline:
                res.timed_out = True
                p.kill()
                break
        p.wait(timeout=30)
    finally:
        timer.cancel()
        if p.poll() is None:
            p.kill()
        shutil.rmtree(meta, ignore_errors=True)
    res.rc = p.returncode
    res.wall = time.time() - t0
    res.tail = tail[-60:]
    return res


def write_ndjson(path, rows):
    os.makedirs(os.path.dirname(path), exist_ok=True)
    with open(path, "w") as f:
        for r in rows:
            f.write(json.dumps(r, separators=(",", ":")) + "\n")
