"""Seeded random program generator for the V direction (larger programs than TLC enumerates).

Well-typed by construction: every variable keeps the type it was declared with, references are
lexically visible, loops are bounded by a counter the body cannot assign, recursion is guarded.
The generator is not an oracle - the programs are judged by the TLA+ reference machine."""
import random

from nsast import (NULL, arr, binop, block, boolean, brk, call, cont, define, expr, idx, if_, label, loop, make,
                   make0, mcall, num, ret, set_, seti, shout, string, unop, var)

WORDS = ["", "a", "bc", "x y", "Naija", "é", "a,b,c", "  pad ", "你好"]


class Gen:
    def __init__(self, seed, feats=None):
        self.r = random.Random(seed)
        self.n = 0
        self.closed = set()      # functions whose bodies are complete
        self.fdepth = 0          # > 0 while generating inside a function body
        self.feats = feats or {"str", "arr", "fn", "loop", "method", "interp", "nested"}

    def fresh(self, p):
        self.n += 1
        return "%s%d" % (p, self.n)

    def fns(self, fs, rt=None):
        """Functions that may be called here: only functions whose definition is complete, i.e.
        textually earlier.  (No unbounded recursion, and no call of a hoisted function before the
        `make` of a variable it captures has run - that is undocumented behaviour which the
        TLC-enumerated profiles cover exhaustively; here it would only waste samples.)"""
        out = []
        for fr in fs:
            for f, (ar, t) in fr.items():
                if (rt is None or t == rt) and f in self.closed:
                    out.append((f, ar))
        return out

    def vars_of(self, sc, t):
        seen, out = set(), []
        for scope in reversed(sc):
            for n, ty in scope.items():
                if n not in seen:
                    seen.add(n)
                    if ty == t:
                        out.append(n)
        return out

    def expr(self, sc, fs, t, d=0):
        r = self.r
        vs = self.vars_of(sc, t)
        if d >= 3 or r.random() < 0.3:
            if vs and r.random() < 0.6:
                return var(r.choice(vs))
            if t == "num":
                return num(r.choice([0, 1, 2, 3, 5, 2.5, 10, 0.25]))
            if t == "str":
                scal = [n for ty in ("num", "str", "bool") for n in self.vars_of(sc, ty)]
                if scal and "interp" in self.feats and r.random() < 0.4:
                    return string(r.choice(["v=", "", "<"]), (r.choice(scal),), r.choice(["", "!", ">"]))
                return string(r.choice(WORDS))
            if t == "bool":
                return boolean(r.random() < 0.5)
            if t == "arrnum":
                return arr(*[self.expr(sc, fs, "num", d + 1) for _ in range(r.randint(0, 3))])
            if t == "arrstr":
                return arr(*[self.expr(sc, fs, "str", d + 1) for _ in range(r.randint(0, 3))])
        c = r.random()
        if t == "num":
            fns = self.fns(fs, "num")
            if fns and "fn" in self.feats and c < 0.2:
                f, ar = r.choice(fns)
                return call(f, *[self.expr(sc, fs, "num", d + 1) for _ in range(ar)])
            arrs = self.vars_of(sc, "arrnum")
            if arrs and c < 0.3:
                return idx(var(r.choice(arrs)), num(r.choice([0, 0, 1, 2, 7])))
            if "method" in self.feats and c < 0.4:
                k = r.random()
                if k < 0.4:
                    return mcall(self.expr(sc, fs, "str", d + 1), r.choice(["len", "len", "to_number"]) if False else "len")
                if k < 0.6:
                    return mcall(self.expr(sc, fs, "str", d + 1), "find", self.expr(sc, fs, "str", d + 2))
                if k < 0.8 and arrs:
                    return mcall(var(r.choice(arrs)), "len")
                return mcall(self.expr(sc, fs, "num", d + 1), r.choice(["abs", "floor", "ceil"]))
            if c < 0.5:
                return unop("neg", self.expr(sc, fs, "num", d + 1))
            op = r.choice(["add", "add", "minus", "times", "mod", "divide"])
            return binop(op, self.expr(sc, fs, "num", d + 1), self.expr(sc, fs, "num", d + 1))
        if t == "str":
            if c < 0.4:
                return binop("add", self.expr(sc, fs, "str", d + 1), self.expr(sc, fs, r.choice(["str", "num"]), d + 1))
            if c < 0.5:
                return call("to_string", self.expr(sc, fs, r.choice(["num", "bool"]), d + 1))
            if c < 0.55:
                return call("typeof", self.expr(sc, fs, r.choice(["num", "bool", "str", "arrnum"]), d + 1))
            if "method" in self.feats and c < 0.8:
                s = self.expr(sc, fs, "str", d + 1)
                k = r.random()
                if k < 0.25:
                    return mcall(s, "slice", num(r.choice([0, 1, -1, -2, 0.5])), num(r.choice([1, 2, 5, -1, 100])))
                if k < 0.45:
                    return mcall(s, r.choice(["trim", "to_uppercase", "to_lowercase"]))
                if k < 0.7:
                    return mcall(s, "replace", string(r.choice(["a", "b", ",", "x y", "é"])), self.expr(sc, fs, "str", d + 2))
                astr = self.vars_of(sc, "arrstr")
                if astr:
                    return mcall(var(r.choice(astr)), "join", string(r.choice(["", ",", "--"])))
                return mcall(mcall(s, "split", string(r.choice([",", "a", " "]))), "join", string(r.choice(["", "+"])))
            fns = self.fns(fs, "str")
            if fns and "fn" in self.feats:
                f, ar = r.choice(fns)
                return call(f, *[self.expr(sc, fs, "num", d + 1) for _ in range(ar)])
            return binop("add", self.expr(sc, fs, "num", d + 1), self.expr(sc, fs, "str", d + 1))
        if t == "bool":
            if c < 0.4:
                return binop(r.choice(["na", "pass", "lt"]), self.expr(sc, fs, "num", d + 1), self.expr(sc, fs, "num", d + 1))
            if c < 0.5:
                return binop(r.choice(["na", "lt", "pass"]), self.expr(sc, fs, "str", d + 1), self.expr(sc, fs, "str", d + 1))
            if c < 0.8:
                return binop(r.choice(["and", "or"]), self.expr(sc, fs, "bool", d + 1), self.expr(sc, fs, "bool", d + 1))
            if c < 0.9:
                return binop("na", self.expr(sc, fs, r.choice(["num", "str"]), d + 1), NULL)
            return unop("not", self.expr(sc, fs, "bool", d + 1))
        if t == "arrnum":
            return arr(*[self.expr(sc, fs, "num", d + 1) for _ in range(r.randint(0, 3))])
        if t == "arrstr":
            if "method" in self.feats and c < 0.4:
                return mcall(self.expr(sc, fs, "str", d + 1), "split", string(r.choice([",", "a", " ", "b"])))
            return arr(*[self.expr(sc, fs, "str", d + 1) for _ in range(r.randint(0, 3))])
        raise ValueError(t)

    def stmts(self, sc, fs, n, infn, inloop, depth, tail=None):
        r = self.r
        out = []
        sc = sc + [{}]
        fs = fs + [{}]
        # hoisted definitions of this block are decided first so that forward calls can be generated
        plan = []
        for _ in range(n):
            if "fn" in self.feats and depth < 2 and r.random() < 0.12:
                f = self.fresh("f")
                ar = r.randint(0, 2)
                rt = r.choice(["num", "num", "str"])
                fs[-1][f] = (ar, rt)
                plan.append(("def", f, ar, rt))
            else:
                plan.append(("other",))
        types = ["num", "num", "str", "bool"] + (["arrnum", "arrstr"] if "arr" in self.feats else [])
        if "str" not in self.feats:
            types = [t for t in types if t not in ("str", "arrstr")]
        for item in plan:
            if item[0] == "def":
                _, f, ar, rt = item
                ps = ["p%d" % j for j in range(ar)]
                psc = sc + [{p: "num" for p in ps}]
                body = []
                self.fdepth += 1
                if ar:
                    # guard: recursion is bounded by the first parameter
                    body.append(if_(binop("lt", var("p0"), num(1)), [ret(self.expr(psc, fs, rt))]))
                def ftail(sc2, fs2, f=f, ar=ar, rt=rt):
                    t = []
                    if ar and r.random() < 0.7:
                        t.append(shout(call(f, binop("minus", var("p0"), num(1)), *[num(1)] * (ar - 1))))
                    t.append(ret(self.expr(sc2, fs2, rt)))
                    return t
                body += self.stmts(psc, fs, r.randint(1, 4), rt, False, depth + 1, ftail)
                self.fdepth -= 1
                self.closed.add(f)
                out.append(define(f, ps, body))
                continue
            c = r.random()
            allvars = [(nm, ty) for scope in sc for nm, ty in scope.items()]
            assignable = [(nm, ty) for (nm, ty) in allvars if not nm.startswith("i_") and not nm.startswith("p")]
            if c < 0.22 or not allvars:
                t = r.choice(types)
                nm = r.choice(["x", "y", "z", self.fresh("v")])
                # keep the declared type: a name re-declared in the same scope keeps its type
                if nm in sc[-1]:
                    t = sc[-1][nm]
                if t == "null":
                    out.append(shout(var(nm)))
                elif r.random() < 0.05 and nm not in sc[-1]:
                    out.append(make0(nm))
                    sc[-1][nm] = "null"
                else:
                    out.append(make(nm, self.expr(sc, fs, t)))
                    sc[-1][nm] = t
            elif c < 0.40 and assignable:
                vis = {}
                for scope in sc:
                    vis.update(scope)
                nm, _ = r.choice(assignable)
                ty = vis[nm]
                if ty == "null":
                    out.append(shout(var(nm)))
                elif ty in ("arrnum", "arrstr") and r.random() < 0.7:
                    el = "num" if ty == "arrnum" else "str"
                    k = r.random()
                    if k < 0.4:
                        out.append(seti(nm, [num(r.choice([0, 0, 1, 4]))], self.expr(sc, fs, el)))
                    elif k < 0.7:
                        out.append(expr(mcall(var(nm), "push", self.expr(sc, fs, el))))
                    elif k < 0.85:
                        out.append(expr(mcall(var(nm), "reverse")))
                    else:
                        out.append(shout(mcall(var(nm), "pop")))
                else:
                    out.append(set_(nm, self.expr(sc, fs, ty)))
            elif c < 0.58:
                if allvars and r.random() < 0.5:
                    nm, ty = r.choice(allvars)
                    out.append(shout(var(nm)))
                else:
                    out.append(shout(self.expr(sc, fs, r.choice(["num", "str", "bool"] if "str" in self.feats else ["num", "bool"]))))
            elif c < 0.66 and depth < 3:
                out.append(if_(self.expr(sc, fs, "bool"), self.stmts(sc, fs, r.randint(1, 3), infn, inloop, depth + 1),
                               self.stmts(sc, fs, r.randint(1, 2), infn, inloop, depth + 1) if r.random() < 0.5 else None))
            elif c < 0.75 and depth < 3 and "loop" in self.feats:
                i = self.fresh("i_")
                k = r.randint(1, 3)
                out.append(make(i, num(0)))
                sc[-1][i] = "num"
                body = [set_(i, binop("add", var(i), num(1)))] + self.stmts(sc, fs, r.randint(1, 3), infn, True, depth + 1)
                out.append(loop(binop("lt", var(i), num(k)), body))
            elif c < 0.80 and depth < 3:
                out.append(block(self.stmts(sc, fs, r.randint(1, 3), infn, inloop, depth + 1)))
            elif c < 0.84 and infn:
                out.append(ret(self.expr(sc, fs, infn)))
                break
            elif c < 0.88 and inloop and out:
                out.append(r.choice([brk(), cont()]))
                break
            else:
                fns = self.fns(fs)
                if fns:
                    f, ar = r.choice(fns)
                    out.append(expr(call(f, *[self.expr(sc, fs, "num") for _ in range(ar)])))
        if tail:
            if out and out[-1]["k"] in ("ret", "brk", "cont"):
                out.pop()
            out += tail(sc, fs)
        return out

def program(seed, size=None, feats=None):
    g = Gen(seed, feats)
    body = g.stmts([], [], size or g.r.randint(4, 10), None, False, 0)
    return label(body)
