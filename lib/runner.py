"""Pool of `vh` worker processes.  Each request is {"id":..,"modes":[..],...}; the worker answers one
line per mode.  A worker that dies or hangs is data: the (id, mode) in flight gets
{"st":"CRASH"|"HANG",...}, the worker is restarted and the remaining modes are re-sent."""
import json
import os
import queue
import select
import signal
import subprocess
import threading
import time

VERIF = os.path.dirname(os.path.dirname(os.path.abspath(__file__)))
HARNESS = os.environ.get("VERIF_HARNESS", os.path.join(VERIF, "harness"))
VH = os.path.join(HARNESS, "target", "debug", "vh")
VH_FAST = os.path.join(HARNESS, "target", "fast", "vh")


class Worker:
    def __init__(self, argv, env=None):
        self.argv = argv
        self.env = env
        self.p = None
        self.buf = b""
        self.start()

    def start(self):
        e = dict(os.environ)
        e["RUST_BACKTRACE"] = "0"
        if self.env:
            e.update(self.env)
        self.p = subprocess.Popen(self.argv, stdin=subprocess.PIPE, stdout=subprocess.PIPE, stderr=subprocess.PIPE, env=e)
        self.buf = b""

    def send(self, obj):
        try:
            self.p.stdin.write((json.dumps(obj, separators=(",", ":")) + "\n").encode())
            self.p.stdin.flush()
            return True
        except (BrokenPipeError, OSError):
            return False

    def readline(self, timeout):
        """Returns a decoded JSON line, or ("DEAD", info) / ("HANG", None)."""
        deadline = time.time() + timeout
        fd = self.p.stdout.fileno()
        while b"\n" not in self.buf:
            left = deadline - time.time()
            if left <= 0:
                return ("HANG", None)
            r, _, _ = select.select([fd], [], [], min(left, 1.0))
            if not r:
                continue
            chunk = os.read(fd, 1 << 16)
            if not chunk:
                self.p.wait()
                err = b""
                try:
                    err = self.p.stderr.read() or b""
                except Exception:
                    pass
                return ("DEAD", {"rc": self.p.returncode, "stderr": err.decode(errors="replace")[-2000:]})
            self.buf += chunk
        line, self.buf = self.buf.split(b"\n", 1)
        return json.loads(line.decode("utf-8", errors="replace"))

    def kill(self):
        try:
            self.p.kill()
            self.p.wait()
        except Exception:
            pass

    def close(self):
        try:
            self.p.stdin.close()
            self.p.wait(timeout=5)
        except Exception:
            self.kill()


def crash_summary(info):
    rc = info.get("rc")
    err = info.get("stderr", "")
    sig = ""
    if rc is not None and rc < 0:
        try:
            sig = signal.Signals(-rc).name
        except Exception:
            sig = str(rc)
    msg = ""
    for ln in err.splitlines():
        if "panicked at" in ln or "unsafe precondition" in ln or "overflowed its stack" in ln or "memory allocation" in ln:
            msg = ln.strip()
            break
    if not msg and err.strip():
        msg = err.strip().splitlines()[-1][:300]
    return {"rc": rc, "sig": sig, "msg": msg}


def run_requests(requests, mode="prog", nworkers=16, timeout=20.0, binary=None, on_result=None, env=None):
    """Runs all requests; returns {id: {mode: response}} (or streams through on_result(id, mode, resp))."""
    argv = [binary or VH, mode]
    q = queue.Queue()
    for r in requests:
        q.put(r)
    results = {}
    lock = threading.Lock()

    def deliver(rid, m, resp):
        if on_result:
            with lock:
                on_result(rid, m, resp)
        else:
            with lock:
                results.setdefault(rid, {})[m] = resp

    def work():
        w = Worker(argv, env)
        while True:
            try:
                req = q.get_nowait()
            except queue.Empty:
                break
            modes = list(req.get("modes", ["fp"]))
            while modes:
                r2 = dict(req)
                r2["modes"] = modes
                if not w.send(r2):
                    w.kill()
                    w.start()
                    if not w.send(r2):
                        for m in modes:
                            deliver(req["id"], m, {"st": "CRASH", "crash": {"msg": "worker cannot start"}})
                        modes = []
                        break
                pending = list(modes)
                current = None
                while pending:
                    ans = w.readline(timeout)
                    if isinstance(ans, tuple):
                        kind, info = ans
                        blame = current if current is not None else pending[0]
                        if kind == "HANG":
                            w.kill()
                            deliver(req["id"], blame, {"st": "HANG"})
                        else:
                            deliver(req["id"], blame, {"st": "CRASH", "crash": crash_summary(info)})
                        w.start()
                        pending.remove(blame)
                        modes = pending
                        break
                    if "begin" in ans:
                        current = ans["mode"]
                        continue
                    deliver(req["id"], ans["mode"], ans)
                    pending.remove(ans["mode"])
                    current = None
                else:
                    modes = []
        w.close()

    threads = [threading.Thread(target=work, daemon=True) for _ in range(max(1, min(nworkers, len(requests))))]
    for t in threads:
        t.start()
    for t in threads:
        t.join()
    return results
