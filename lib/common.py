"""Check contract shared by all checks: evidence files, known findings, verdict lines, exit codes."""
import json
import os
import re
import subprocess
import sys
import time

VERIF = os.path.dirname(os.path.dirname(os.path.abspath(__file__)))
KNOWN = os.path.join(VERIF, "known_findings.txt")
# Mutation experiments on scratch copies (DESIGN 2.5): VERIF_REPO = a scratch worktree of the
# repository, VERIF_HARNESS = a copy of harness/ whose path dependency points at it,
# VERIF_EVIDENCE = where evidence/replays go instead of /verif.  Registered checks never set these.
REPO = os.environ.get("VERIF_REPO", "/repo")
HARNESS = os.environ.get("VERIF_HARNESS", os.path.join(VERIF, "harness"))
OUT = os.environ.get("VERIF_EVIDENCE", VERIF)


class ToolError(Exception):
    """Timeouts, vacuous models, build failures: exit 2, never a verdict."""


def seed():
    try:
        return int(os.environ.get("VERIF_SEED", "1"))
    except ValueError:
        return 1


def build_harness(profile="dev"):
    """Rebuilds the harness (and therefore /repo with hooks on) from the current working tree."""
    h = HARNESS
    lock = os.path.join(h, "Cargo.lock")
    if not os.path.exists(lock):
        subprocess.run(["cp", os.path.join(REPO, "Cargo.lock"), lock], check=True)
    cmd = ["cargo", "build", "--quiet"] + (["--profile", profile] if profile != "dev" else [])
    p = subprocess.run(cmd, cwd=h, capture_output=True, text=True)
    if p.returncode != 0:
        sys.stderr.write(p.stdout[-3000:] + p.stderr[-6000:])
        raise ToolError("harness build failed (the tree under /repo does not compile with hooks on)")


def build_naija(release=False):
    """Builds the shipped `naija` binary from /repo's current working tree (no hooks) into
    /verif/work/target-naija and returns its path."""
    tdir = os.path.join(VERIF, "work", "target-naija" if REPO == "/repo" else "target-naija-scratch")
    os.makedirs(tdir, exist_ok=True)
    cmd = ["cargo", "build", "--quiet", "--offline", "--manifest-path", os.path.join(REPO, "Cargo.toml"), "--bin", "naija", "--target-dir", tdir]
    if release:
        cmd.append("--release")
    p = subprocess.run(cmd, capture_output=True, text=True, cwd=REPO)      # cwd selects the repository's toolchain file
    if p.returncode != 0:
        sys.stderr.write(p.stderr[-4000:])
        raise ToolError("building naija failed")
    return os.path.join(tdir, "release" if release else "debug", "naija")


def load_known():
    """known_findings.txt: `finding: property=<id> key=<key> <what fails>` / `fixed: property=<id> <commit> <what>`."""
    out = {}
    if not os.path.exists(KNOWN):
        return out
    for line in open(KNOWN):
        m = re.match(r"finding:\s+property=(\S+)\s+key=(\S+)\s+(.*)", line.strip())
        if m:
            out.setdefault(m.group(1), {})[m.group(2)] = m.group(3)
    return out


class Verdict:
    """Collects what a check run found.  A finding is (key, description, replay object)."""

    def __init__(self, pid, tier, level):
        self.pid = pid
        self.tier = tier
        self.level = level
        self.t0 = time.time()
        self.findings = {}       # key -> [description, replay, count]
        self.coverage = {}
        self.assumptions = []
        self.known = load_known().get(pid, {})

    def finding(self, key, description, replay):
        if key in self.findings:
            self.findings[key][2] += 1
        else:
            self.findings[key] = [description, replay, 1]

    def finish(self):
        """Writes evidence and replays, prints KNOWN-FINDING / VIOLATION lines, returns the exit code."""
        os.makedirs(os.path.join(OUT, "evidence"), exist_ok=True)
        rdir = os.path.join(OUT, "replays", self.pid)
        os.makedirs(rdir, exist_ok=True)
        violations = 0
        known_hit = []
        lines = []
        for i, (key, (desc, replay, count)) in enumerate(sorted(self.findings.items())):
            if key in self.known:
                known_hit.append(key)
                lines.append("KNOWN-FINDING: property=%s %s [key=%s, %d case(s)]" % (self.pid, self.known[key], key, count))
                continue
            violations += 1
            path = os.path.join(rdir, "%s_%03d.json" % (self.tier, violations))
            with open(path, "w") as f:
                json.dump({"property": self.pid, "key": key, "description": desc, "count": count, "replay": replay}, f, indent=1)
            lines.append("VIOLATION property=%s replay=%s" % (self.pid, path))
            lines.append("  key=%s (%d case(s)): %s" % (key, count, desc[:600]))
        cov = dict(self.coverage)
        cov.setdefault("known_findings_seen", sorted(known_hit))
        ev = {"property_id": self.pid, "tier": self.tier, "seed": seed(), "level": self.level, "coverage": cov,
              "assumptions": self.assumptions, "wall_s": round(time.time() - self.t0, 2), "violations": violations}
        with open(os.path.join(OUT, "evidence", self.pid + ".json"), "w") as f:
            json.dump(ev, f, indent=1, default=str)
        for ln in lines:
            print(ln)
        print("%s %s: %d violation(s), %d known finding(s), %.1f s" % (self.pid, self.tier, violations, len(known_hit), time.time() - self.t0))
        return 1 if violations else 0
