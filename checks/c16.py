"""C16 - captured child output is complete or an error, never silently truncated; the child is not
left running.

Specs (specs/io): CaptureAbs.tla is the ABSTRACT layer - predicates on the script-visible outcome
(Complete, OverLimitIsError, UncapturedNull, ExitIsData, ErrorIsDue, NoOrphan).  Capture.tla is the
implementation-shaped protocol (child, two bounded readers, the first-wins overflow flag, the
poll -> try_wait -> timeout? loop, kill, the join phase with its post-exit re-check); TLC checks
that every terminated behaviour satisfies the abstract predicates (bounded pipes, partial reads),
that the protocol terminates under fairness (CaptureLive.cfg), and that DELETING the post-exit
re-check violates Complete (sanity of the model).

Binding R (schedule replay): TLC prints every transition of the protocol at gate granularity
(a read takes all that is there, pipes never block, a child that ended is waitable).  Paths of
that graph become schedules (quick: a seeded sample preferring untaken transitions; thorough: a
cover of ALL transitions).  The real threads stop at gates (hooks in process_common.rs, primitives
in src/verif.rs, controller in harness/src/procs.rs); each schedule entry is a TURN of one thread
(reader.out, reader.err, the waiting/joining main thread) or a command for `vchild`
(write / exit over a socket, acknowledged; after an exit the controller waits until the child is
waitable).  "The deadline has passed" is forced through a hook, never by sleeping.  Capture limit
= Cap via the host policy, so one model byte is one real byte; what the model leaves open (null or
inherit, exit code, invalid UTF-8) is instantiated by seed.  The outcome the SCRIPT sees
(stdout(), stderr(), exit_code(), success() or the error kind) and kill(pid, 0) right after run()
are judged by the abstract predicates against what the child was actually told to do, evaluated
by TLC (CaptureJudge.tla) - never by equality with the model's prediction (that is only counted).
A schedule in which a thread does not reach its gate within 10 s is `unrealised` (evidence);
more than 10 % is a tool error (the implementation-shaped layer has to be re-tuned), a run that
ends before its schedule does is counted separately.

Binding V (trace validation): ungated randomised runs (sizes cap-1, cap, cap+1, 2*cap on either
or both streams, invalid UTF-8, exit codes, the nine policy combinations, hanging children with a
real timeout) record events with sequence numbers; CaptureTrace.tla accepts a trace iff some
behaviour of the protocol explains it, inferring the child's unlogged steps.  Real sizes
(4 KiB .. 140 kB, pipes that fill up) are judged by the abstract predicates only."""
import collections
import json
import os
import random
import shutil

import common
import runner
import tlc

WORK = os.path.join(common.VERIF, "work")
VCHILD = os.path.join(getattr(common, "HARNESS", os.path.join(common.VERIF, "harness")), "target", "debug", "vchild")
LONG_MS = 600000          # a timeout that cannot fire by itself during a run
STATE_FIELDS = ["Wout", "Werr", "polout", "polerr", "hang", "child", "waitable", "wrout", "wrerr", "pipeout", "pipeerr", "rdout", "rderr",
                "rpcout", "rpcerr", "bufout", "buferr", "flag", "wpc", "st", "stdetail", "jpc", "resk", "ress"]
FD = {"out": 1, "err": 2}


def lit(s):
    return '"' + s.replace("\\", "\\\\").replace('"', '\\"') + '"'


def script_for(args, pol, timeout_ms, stdin_bytes=None):
    lines = ["make c get command(%s)" % lit(VCHILD)] + ["c.arg(%s)" % lit(a) for a in args]
    lines += ["c.stdin_null()" if stdin_bytes is None else "c.stdin_text(%s)" % lit("i" * stdin_bytes), "c.stdout_%s()" % pol["out"], "c.stderr_%s()" % pol["err"], "c.timeout_ms(%d)" % timeout_ms,
              "make r get c.run()", "shout(r.success())", "shout(r.exit_code())", "shout(r.stdout())", "shout(r.stderr())"]
    return "\n".join(lines) + "\n"


def pattern(s, off, n):
    base = ord("a") if s == "out" else ord("A")
    return bytes(base + (i % 26) for i in range(off, off + n))


def observe(resp, content, deadline):
    """The script-visible outcome as the abstract layer's `obs` record.  content[s] = bytes actually written to s."""
    kind = {"": "ok", "output_limit": "overflow", "invalid_utf8": "utf8", "timeout": "timeout"}.get(resp.get("ekind", "?"), resp.get("ekind") or str(resp.get("st")))
    if resp.get("st") != "done" and kind == "ok":
        kind = str(resp.get("st"))
    stream = {"stdout": "out", "stderr": "err"}.get(resp.get("estream", ""), "-")
    out = resp.get("out") or []
    obs = {"k": kind, "s": stream if kind in ("overflow", "utf8") else "-", "len": {"out": -1, "err": -1}, "intact": {"out": True, "err": True},
           "code": -1, "success": False, "orphan": bool(resp.get("alive_after")), "deadline": bool(deadline)}
    if kind == "ok" and len(out) == 4:
        obs["success"] = out[0].get("v") is True
        obs["code"] = int(out[1]["v"]) if out[1].get("t") == "num" else -1
        for s, v in (("out", out[2]), ("err", out[3])):
            if v.get("t") == "str":
                b = v["v"].encode("utf-8")
                obs["len"][s] = len(b)
                obs["intact"][s] = b == content[s]
            elif v.get("t") != "null":
                obs["len"][s] = -2
    elif kind == "ok":
        obs["k"] = "garbled-output"
    return obs


# ------------------------------------------------------------------------------------------------
# R: schedules from the transition graph
# ------------------------------------------------------------------------------------------------
class Graph:
    def __init__(self, records):
        self.ids = {}
        self.states = []
        self.out = []                  # node -> [(label tuple, dst)]
        self.inits = []
        for rec in records:
            p, q = self.node(rec["p"]), self.node(rec["q"])
            self.out[p].append((tuple(rec["a"]), q))
        self.nedges = sum(len(x) for x in self.out)
        for i, st in enumerate(self.states):
            if st["wrout"] == 0 and st["wrerr"] == 0 and st["wpc"] == "poll" and st["child"] == "running" and st["flag"] == 0 \
                    and st["bufout"] == 0 and st["buferr"] == 0 and st["rpcout"] != "done" and st["rpcerr"] != "done":
                self.inits.append(i)
        # distance to a terminal state (res set), for finishing a walk
        self.dist = [None] * len(self.states)
        rev = [[] for _ in self.states]
        for p, es in enumerate(self.out):
            for _, q in es:
                rev[q].append(p)
        frontier = [i for i, st in enumerate(self.states) if st["resk"] != "none"]
        for i in frontier:
            self.dist[i] = 0
        while frontier:
            nxt = []
            for q in frontier:
                for p in rev[q]:
                    if self.dist[p] is None:
                        self.dist[p] = self.dist[q] + 1
                        nxt.append(p)
            frontier = nxt

    def node(self, tup):
        key = json.dumps(tup)
        if key not in self.ids:
            self.ids[key] = len(self.states)
            self.states.append(dict(zip(STATE_FIELDS, tup)))
            self.out.append([])
        return self.ids[key]

    def walks(self, rng, limit, want_all):
        """Paths init -> terminal, preferring transitions no earlier path took.  Yields lists of (p, label, q)."""
        covered = set()
        inits = [i for i in self.inits if (self.states[i]["polout"] == "capture" or self.states[i]["polerr"] == "capture")]
        trivial = [i for i in self.inits if i not in inits]
        rng.shuffle(inits)
        produced = 0
        stale = 0
        # children that never exit can only end in a timeout or an overflow: a quarter of the walks
        plain = [i for i in inits if not self.states[i]["hang"]] + trivial[:4]
        hanging = [i for i in inits if self.states[i]["hang"]]
        order = []
        for n, i in enumerate(plain):
            order.append(i)
            if hanging and n % 3 == 2:
                order.append(hanging[(n // 3) % len(hanging)])
        if want_all:
            order += hanging

        def pick(cands):
            # "the deadline has passed" is possible at every turn of the wait loop: do not let it crowd out the rest
            weights = [0.12 if (e[0][0] == "WaiterTryWait" and self.states[e[1]]["st"] == "timeout") else 1.0 for e in cands]
            return rng.choices(cands, weights=weights)[0]
        k = 0
        while produced < limit:
            start = order[k % len(order)]
            k += 1
            path, node, fresh = [], start, 0
            while self.states[node]["resk"] == "none":
                es = self.out[node]
                if not es:
                    break
                unc = [e for e in es if (node, e) not in covered]
                if len(path) > 60:
                    e = min(es, key=lambda e: self.dist[e[1]] if self.dist[e[1]] is not None else 10 ** 6)
                elif unc:
                    e = pick(unc)
                else:
                    # head for the nearest terminal most of the time, wander sometimes
                    e = pick(es) if rng.random() < 0.5 else min(es, key=lambda e: self.dist[e[1]] if self.dist[e[1]] is not None else 10 ** 6)
                if (node, e) not in covered:
                    covered.add((node, e))
                    fresh += 1
                path.append((node, e[0], e[1]))
                node = e[1]
            if self.states[node]["resk"] == "none":
                continue
            if fresh == 0:
                stale += 1
                if want_all and stale > 4 * len(order):
                    break
                if want_all:
                    continue
            produced += 1
            yield path
            if want_all and len(covered) >= self.nedges:
                break
        self.covered = len(covered)


def cover_all(g, rng, limit):
    """Transition cover (thorough tier): for every transition not yet on a path, the shortest way from an
    initial state to it, the transition, then on to a terminal state preferring untaken transitions."""
    pred = {}
    frontier = list(g.inits)
    seen = set(frontier)
    while frontier:
        nxt = []
        for p in frontier:
            for e in g.out[p]:
                if e[1] not in seen:
                    seen.add(e[1])
                    pred[e[1]] = (p, e)
                    nxt.append(e[1])
        frontier = nxt
    covered = set()
    produced = 0
    far = lambda e: g.dist[e[1]] if g.dist[e[1]] is not None else 10 ** 6
    nodes = list(range(len(g.states)))
    rng.shuffle(nodes)
    for p in nodes:
        if g.states[p]["resk"] != "none" or (p not in seen):
            continue
        for e in g.out[p]:
            if (p, e) in covered or g.dist[e[1]] is None:
                continue
            prefix, node = [], p
            while node in pred:
                q, pe = pred[node]
                prefix.append((q, pe[0], node))
                covered.add((q, pe))
                node = q
            prefix.reverse()
            path = prefix + [(p, e[0], e[1])]
            covered.add((p, e))
            node = e[1]
            while g.states[node]["resk"] == "none":
                es = g.out[node]
                unc = [x for x in es if (node, x) not in covered and g.dist[x[1]] is not None]
                x = rng.choice(unc) if (unc and len(path) < 80) else min(es, key=far)
                covered.add((node, x))
                path.append((node, x[0], x[1]))
                node = x[1]
            produced += 1
            yield path
            if produced >= limit:
                g.covered = len(covered)
                return
    g.covered = len(covered)


def schedule_from(g, path, rng, sockdir, idx):
    """A forced-schedule request for one path of the model graph, with a seeded instantiation of
    what the model leaves open (null or inherit, exit code, invalid UTF-8)."""
    st0 = g.states[path[0][0]]
    W = {"out": st0["Wout"], "err": st0["Werr"]}
    mpol = {"out": st0["polout"], "err": st0["polerr"]}
    pol = {s: ("capture" if mpol[s] == "capture" else rng.choice(("null", "inherit"))) for s in ("out", "err")}
    code = rng.choice((0, 0, 3, 255))
    bad = {s: (mpol[s] == "capture" and W[s] > 0 and rng.random() < 0.2) for s in ("out", "err")}
    cap = None

    def write_cmd(s, index):
        return "W%d:ff" % FD[s] if bad[s] and index == W[s] - 1 else "w%d:1" % FD[s]
    entries = []
    timeout_forced = False
    for (p, label, q) in path:
        ps, qs = g.states[p], g.states[q]
        a = label[0]
        if a == "ChildWrite":
            s = label[1]
            if mpol[s] == "capture" and not ps["rd" + s]:
                entries.append(["child", "p%d" % FD[s]])          # the model says the read end is closed: wait until it is
            entries.append(["child", write_cmd(s, ps["wr" + s])])
        elif a == "ChildExit":
            entries.append(["child", "x%d" % code])
        elif a == "ReaderStep":
            entries.append(["gate", "reader." + label[1]])
        elif a == "WaiterPoll":
            entries.append(["gate", "waiter.poll"])
        elif a == "WaiterTryWait":
            if qs["st"] == "timeout":
                entries.append(["gate", "waiter.trywait", "timeout"])
                timeout_forced = True
            else:
                entries.append(["gate", "waiter.trywait"])
        elif a == "WaiterKill":
            entries.append(["gate", "waiter.kill"])
        elif a == "JoinStream":
            s = label[1]
            entries.append(["gate", "join." + s])
            # invalid UTF-8 is not in the graph model: the real join returns the error here and the run ends
            if ps["st"] == "exit" and bad[s] and ps["buf" + s] == W[s] and ps["flag"] != FD[s]:
                break
    last = g.states[path[-1][2]]
    rest = []
    for s in ("out", "err"):
        rest += [write_cmd(s, i) for i in range(last["wr" + s], W[s])]
    rest.append("x%d" % code)
    sock = os.path.join(sockdir, "c%d.sock" % idx)
    req = {"kind": "capture", "src": script_for(["obey", "sock", sock], pol, LONG_MS), "schedule": entries, "sock": sock, "rest": rest,
           "policy": {"max_capture_bytes_per_stream": cap, "wait_poll_ms": 1}}
    meta = {"W": W, "pol": pol, "mpol": mpol, "bad": bad, "code": code, "hang": bool(st0["hang"]), "timeout_forced": timeout_forced,
            "model_res": [last["resk"], last["ress"]], "steps": [list(l) for (_, l, _) in path]}
    return req, meta


def actual_plan(meta, resp, cap):
    """What the child really did (acknowledged commands), as the abstract layer's `plan`."""
    W = {"out": 0, "err": 0}
    content = {"out": b"", "err": b""}
    exited = False
    for cmd, how in resp.get("child_done", []):
        op = cmd[0]
        if op in "wW" and how == "ok":
            s = "out" if cmd[1] == "1" else "err"
            data = bytes.fromhex(cmd.split(":")[1]) if op == "W" else pattern(s, W[s], int(cmd.split(":")[1]))
            content[s] += data
            W[s] += len(data)
        elif op == "x" and how in ("ok", "died"):
            exited = True
    bad = {}
    for s in ("out", "err"):
        try:
            content[s].decode("utf-8")
            bad[s] = False
        except UnicodeDecodeError:
            bad[s] = True
    plan = {"W": W, "pol": {s: ("capture" if meta["pol"][s] == "capture" else "discard") for s in ("out", "err")}, "bad": bad,
            "code": meta["code"], "hang": not exited, "cap": cap}
    return plan, content


# ------------------------------------------------------------------------------------------------
# V: free runs
# ------------------------------------------------------------------------------------------------
COMBOS = [(a, b) for a in ("capture", "null", "inherit") for b in ("capture", "null", "inherit")]


def free_run(rng, idx, big=False):
    cap = rng.choice((4096, 8192, 70000)) if big else rng.choice((1, 2, 3, 4, 5))
    pol = dict(zip(("out", "err"), COMBOS[idx % 9] if rng.random() < 0.6 else (rng.choice(("capture", "null", "inherit")), "capture")))
    sizes = (0, max(cap - 1, 0), cap, cap + 1, 2 * cap)
    W = {s: rng.choice(sizes) for s in ("out", "err")}
    hang = rng.random() < 0.08 and not big
    code = rng.choice((0, 0, 1, 3, 255))
    content, cmds_by_stream = {}, {}
    for s in ("out", "err"):
        kind = rng.random()
        if big:
            # pattern bytes written by count (argv stays small); sometimes a final invalid byte
            tail = b"\xff" if kind < 0.15 and W[s] > 0 else b""
            body = W[s] - len(tail)
            content[s] = pattern(s, 0, body) + tail
            cmds, pos = [], 0
            while pos < body:
                n = min(body - pos, rng.choice((body, 65536, 4096, 1000)))
                cmds.append((s, "w%d:%d" % (FD[s], n), n))
                pos += n
            if tail:
                cmds.append((s, "W%d:ff" % FD[s], 1))
            cmds_by_stream[s] = cmds
            continue
        if kind < 0.15 and W[s] > 0:                       # last byte invalid
            data = pattern(s, 0, W[s] - 1) + b"\xff"
        elif kind < 0.35:                                   # multi-byte text; an odd length cuts a character (invalid)
            data = ("é" * W[s]).encode()[:W[s]]
        else:
            data = pattern(s, 0, W[s])
        content[s] = data
        cmds, pos = [], 0
        while pos < len(data):
            n = max(1, min(rng.choice((1, 1, 2, 3, len(data) - pos)), len(data) - pos))
            cmds.append((s, "W%d:%s" % (FD[s], data[pos:pos + n].hex()), n))
            pos += n
        cmds_by_stream[s] = cmds
    # interleave the two streams' writes, sprinkle tiny sleeps (diversity only: nothing depends on them)
    seq = []
    a, b = list(cmds_by_stream["out"]), list(cmds_by_stream["err"])
    while a or b:
        src = a if (a and (not b or rng.random() < 0.5)) else b
        seq.append(src.pop(0))
    args, script = ["obey", "argv"], []
    for (s, cmd, n) in seq:
        if rng.random() < 0.25:
            args.append("s%d" % rng.choice((0, 1, 2)))
        args.append(cmd)
        script.append([FD[s], n])
    if rng.random() < 0.3:
        args.append("s%d" % rng.choice((0, 1, 3)))
    args.append("h" if hang else "x%d" % code)
    timeout_ms = 40 if hang else LONG_MS
    bad = {}
    for s in ("out", "err"):
        try:
            content[s].decode("utf-8")
            bad[s] = False
        except UnicodeDecodeError:
            bad[s] = True
    plan = {"W": {s: len(content[s]) for s in ("out", "err")}, "pol": {s: ("capture" if pol[s] == "capture" else "discard") for s in ("out", "err")},
            "bad": bad, "code": code, "hang": hang, "cap": cap}
    # specs/io/StdinWriter.tla: a child that hangs WITHOUT reading its stdin, while the writer thread still has text to
    # deliver (more than a pipe holds), must be killed at the deadline all the same
    stdin_bytes = rng.choice((None, 8, 70000, 262144)) if hang else None
    req = {"kind": "capture", "src": script_for(args, pol, timeout_ms, stdin_bytes), "schedule": None,
           "policy": {"max_capture_bytes_per_stream": cap, "wait_poll_ms": 1}}
    return req, {"plan": plan, "content": content, "script": script, "pol": pol, "hang": hang, "big": big, "stdin_bytes": stdin_bytes}


def trace_record(meta, resp, obs):
    evs = [{k: v for k, v in e.items() if k != "seq"} for e in sorted(resp.get("events", []), key=lambda e: e.get("seq", 0)) if e.get("ev") not in ("spawn", "killed")]
    return {"plan": meta["plan"], "script": meta["script"], "events": evs, "res": {"k": obs["k"], "s": obs["s"]}}


def validate_traces(traces, tag, progress=False):
    path = os.path.join(WORK, "c16_%s_%d.ndjson" % (tag, os.getpid()))
    tlc.write_ndjson(path, traces)
    env = {"TRACES": path, "PROGRESS": 1 if progress else 0, "CAP": 1, "PIPECAP": 1 << 24, "READMAX": 1 << 24, "READALL": 0, "MAXW": 0,
           "RECHECK": 1, "HANG": 0, "BAD": 0, "TIMEOUTS": 1, "EDGES": 0, "ATOMICEXIT": 0, "ANYORDER": 1}
    r = tlc.run("io/CaptureTrace.tla", "io/CaptureTrace.cfg", workers=6, env=env, timeout=900, coverage=False)
    os.remove(path)
    if r.timed_out or r.rc != 0:
        raise common.ToolError("CaptureTrace failed rc=%s %s\n%s" % (r.rc, r.errors[:3], "\n".join(r.tail[-15:])))
    accepted = {x["t"]: x for x in r.records if x.get("accepted")}
    furthest = collections.defaultdict(int)
    for x in r.records:
        if "l" in x:
            furthest[x["t"]] = max(furthest[x["t"]], x["l"])
    return accepted, furthest, r


def judge(cases, tag):
    """cases: list of {"plan","obs"} -> list of sets of broken clause names (TLC evaluates CaptureAbs)."""
    if not cases:
        return [], None
    path = os.path.join(WORK, "c16_%s_%d.ndjson" % (tag, os.getpid()))
    tlc.write_ndjson(path, cases)
    r = tlc.run("io/CaptureJudge.tla", "io/CaptureJudge.cfg", workers=4, env={"CASES": path}, timeout=600, coverage=False)
    os.remove(path)
    if r.timed_out or r.rc != 0:
        raise common.ToolError("CaptureJudge failed rc=%s %s\n%s" % (r.rc, r.errors[:3], "\n".join(r.tail[-15:])))
    verdict = {x["i"]: x for x in r.records if "i" in x}
    if len(verdict) != len(cases):
        raise common.ToolError("CaptureJudge: %d verdicts for %d cases" % (len(verdict), len(cases)))
    return [set(verdict[i + 1]["broken"]) if not verdict[i + 1]["accept"] else set() for i in range(len(cases))], r


def reap_strays():
    """Children of workers that had to be killed (a hanging run) would stay for ever: remove them."""
    exe = os.path.realpath(VCHILD)
    for pid in os.listdir("/proc"):
        if not pid.isdigit():
            continue
        try:
            if os.path.realpath("/proc/%s/exe" % pid) == exe and b"obey" in open("/proc/%s/cmdline" % pid, "rb").read().split(b"\0")[1:2]:
                ppid = open("/proc/%s/stat" % pid).read().rsplit(")", 1)[1].split()[1]
                if not os.path.realpath("/proc/%s/exe" % ppid).endswith("/vh"):      # its worker is gone (another run's children are left alone)
                    os.kill(int(pid), 9)
        except OSError:
            pass


def model_env(**kw):
    env = dict(CAP=2, PIPECAP=2, READMAX=2, READALL=0, MAXW=4, RECHECK=1, HANG=1, BAD=1, TIMEOUTS=1, EDGES=0, ATOMICEXIT=0, ANYORDER=0)
    env.update(kw)
    return env


def run(tier):
    common.build_harness()
    v = common.Verdict("C16", tier, "model_checking")
    rng = random.Random(common.seed())
    quick = tier == "quick"
    os.makedirs(WORK, exist_ok=True)
    sockdir = os.path.join("/tmp", "c16_%d" % os.getpid())        # socket paths must be short
    shutil.rmtree(sockdir, ignore_errors=True)
    os.makedirs(sockdir)
    cov = {}
    states = transitions = 0

    # ---- the model: safety under bounded pipes and partial reads, the mutant, liveness
    r = tlc.run("io/Capture.tla", "io/Capture.cfg", workers=6, env=model_env(MAXW=3 if quick else 4), timeout=1200)
    if r.timed_out or r.rc != 0:
        raise common.ToolError("Capture model: rc=%s %s\n%s" % (r.rc, r.errors[:3], "\n".join(r.tail[-20:])))
    for act in ("ChildWrite", "ChildExit", "ChildGone", "ReaderStep", "WaiterPoll", "WaiterTryWait", "WaiterKill", "JoinStream", "Finish"):
        if r.coverage.get(act, (0, 0))[1] == 0:
            raise common.ToolError("vacuous Capture model: action %s never taken" % act)
    states += r.distinct
    transitions += r.generated
    cov["model_safety"] = {"distinct_states": r.distinct, "transitions": r.generated, "depth": r.depth, "wall_s": round(r.wall, 1),
                           "actions": {k: c[1] for k, c in r.coverage.items()}, "constants": "Cap=2 PipeCap=2 ReadMax=2 partial reads, plans 0..%d bytes per stream, hang, invalid UTF-8, timeouts" % (3 if quick else 4)}
    r = tlc.run("io/Capture.tla", "io/Capture.cfg", workers=6, env=model_env(MAXW=3, RECHECK=0, BAD=0, HANG=0), timeout=600, coverage=False)
    if not r.violated() or not any("Complete" in e or "OverLimitIsError" in e for e in r.errors):
        raise common.ToolError("the Capture model does not refute the design without the post-exit re-check (rc=%s %s)" % (r.rc, r.errors[:2]))
    cov["model_without_recheck"] = {"violated": [e for e in r.errors if "violated" in e][:1], "depth": r.depth}
    # the waiter may consult flag and child in any order: the abstract predicates do not depend on it (trace validation relies on this)
    r = tlc.run("io/Capture.tla", "io/Capture.cfg", workers=6, env=model_env(MAXW=3, BAD=0, ANYORDER=1), timeout=1200, coverage=False)
    if r.timed_out or r.rc != 0:
        raise common.ToolError("Capture model (any order): rc=%s %s\n%s" % (r.rc, r.errors[:3], "\n".join(r.tail[-20:])))
    cov["model_any_waiter_order"] = {"distinct_states": r.distinct, "transitions": r.generated, "wall_s": round(r.wall, 1)}
    states += r.distinct
    transitions += r.generated
    r = tlc.run("io/Capture.tla", "io/CaptureLive.cfg", workers=6, env=model_env(MAXW=2 if quick else 3, BAD=0), timeout=1200, coverage=False)
    if r.timed_out or r.rc != 0:
        raise common.ToolError("Capture liveness: rc=%s %s\n%s" % (r.rc, r.errors[:3], "\n".join(r.tail[-20:])))
    cov["model_liveness"] = {"property": "Terminates under fairness (no state constraint)", "distinct_states": r.distinct, "wall_s": round(r.wall, 1)}
    states += r.distinct
    transitions += r.generated

    # ---- R: the transition graph at gate granularity, paths -> forced schedules
    genv = model_env(MAXW=4, PIPECAP=4, READMAX=8, READALL=1, BAD=0, EDGES=1, ATOMICEXIT=1)
    r = tlc.run("io/Capture.tla", "io/Capture.cfg", workers=6, env=genv, timeout=1500, coverage=False)
    if r.timed_out or r.rc != 0:
        raise common.ToolError("Capture graph: rc=%s %s\n%s" % (r.rc, r.errors[:3], "\n".join(r.tail[-20:])))
    g = Graph(r.records)
    states += r.distinct
    transitions += r.generated
    nsched = 400 if quick else 45000
    reqs, metas = [], {}
    for i, path in enumerate(g.walks(rng, nsched, want_all=False) if quick else cover_all(g, rng, nsched)):
        req, meta = schedule_from(g, path, rng, sockdir, i)
        req["policy"]["max_capture_bytes_per_stream"] = 2
        req.update(id=i, modes=["run"])
        reqs.append(req)
        metas[i] = meta
    cov["graph"] = {"distinct_states": len(g.states), "transitions": g.nedges, "initial_plans": len(g.inits), "transitions_on_replayed_paths": getattr(g, "covered", 0),
                    "schedules": len(reqs), "wall_s": round(r.wall, 1)}
    res = runner.run_requests(reqs, mode="procs", nworkers=16, timeout=90.0)
    cases, owners = [], []
    unrealised = collections.Counter()
    ended_early = collections.Counter()
    same_as_model = 0
    other_gate = 0
    for i, meta in metas.items():
        resp = res.get(i, {}).get("run", {"st": "MISSING"})
        if resp.get("st") in ("CRASH", "HANG", "PANIC", "TOOL", "MISSING"):
            v.finding("sched-worker:" + str(resp.get("st")).lower(), "forced schedule %s ended with %s %s" % (meta["steps"], resp.get("st"), resp.get("crash") or resp.get("panic") or resp.get("tool_error") or ""),
                      {"steps": meta["steps"], "meta": {k: meta[k] for k in ("W", "pol", "bad", "code", "hang")}})
            continue
        if resp.get("unrealised"):
            why = resp["unrealised"]["why"]
            if why.startswith("the run ended before"):
                ended_early[why[:110]] += 1            # the forced interleaving needed fewer steps than the model's: not a failure to force it
            else:
                unrealised[why[:110]] += 1
        other_gate += sum(1 for e in resp.get("log", []) if len(e) > 3 and e[3] != e[1])
        plan, content = actual_plan(meta, resp, 2)
        # "the deadline has passed" was really delivered to the wait loop (whatever happened to the rest of the schedule)
        obs = observe(resp, content, any(len(e) > 2 and e[2] == "granted+timeout" for e in resp.get("log", [])))
        if not resp.get("unrealised") and [obs["k"], obs["s"]] == meta["model_res"]:
            same_as_model += 1
        cases.append({"plan": plan, "obs": obs})
        owners.append((i, meta, resp))
    verdicts, jr = judge(cases, "r")
    realised_ok = 0
    samples = []
    for (i, meta, resp), case, broken in zip(owners, cases, verdicts):
        if not broken:
            if not resp.get("unrealised"):
                realised_ok += 1
                if len(samples) < 2 and len(meta["steps"]) > 9 and case["obs"]["k"] != "ok":
                    samples.append({"forced_schedule": [" ".join(s) for s in meta["steps"]], "plan": case["plan"], "script_saw": case["obs"]})
            continue
        key = "forced:" + "+".join(sorted(broken)) + ":" + case["obs"]["k"]
        v.finding(key, "under the forced schedule %s the script saw %s for the plan %s: breaks %s" % (
            [" ".join(s) for s in meta["steps"]], case["obs"], case["plan"], sorted(broken)),
            {"plan": case["plan"], "obs": case["obs"], "schedule": reqs[i]["schedule"], "rest": reqs[i]["rest"], "policies": meta["pol"], "meta": meta,
             "policy": reqs[i]["policy"],
             "events": resp.get("events"), "gate_log": resp.get("log"), "unrealised": resp.get("unrealised")})
    n_unreal = sum(unrealised.values())
    cov["schedule_replay"] = {"schedules": len(reqs), "realised": len(reqs) - n_unreal - sum(ended_early.values()), "unrealised": dict(unrealised), "run_ended_before_the_schedule": dict(ended_early), "accepted_by_abstract_layer": sum(1 for b in verdicts if not b),
                              "realised_and_accepted": realised_ok, "outcome_equal_to_model_prediction": same_as_model,
                              "turns_taken_at_another_gate_than_the_model_names": other_gate,
                              "outcomes": dict(collections.Counter(c["obs"]["k"] for c in cases))}
    tool_error = None
    if reqs and n_unreal > 0.10 * len(reqs):
        tool_error = "%d of %d schedules could not be realised (%s): the implementation-shaped layer no longer matches the code" % (n_unreal, len(reqs), dict(unrealised))

    # ---- V: free runs, trace validation
    for cfg, want in (("io/StdinWriter_after.cfg", 0), ("io/StdinWriter_before.cfg", 11)):
        sw = tlc.run("io/StdinWriter.tla", cfg, workers=2, timeout=300, coverage=False)
        if sw.timed_out or sw.rc != want:
            raise common.ToolError("StdinWriter.tla with %s: rc=%s, expected %s (%s)" % (cfg, sw.rc, want, sw.errors[:2]))
        states += sw.distinct
        transitions += sw.generated
    nfree = 300 if quick else 2000
    nbig = 40 if quick else 250
    freqs, fmeta = [], {}
    for i in range(nfree + nbig):
        req, meta = free_run(rng, i, big=i >= nfree)
        req.update(id=i, modes=["run"])
        freqs.append(req)
        fmeta[i] = meta
    fres = runner.run_requests(freqs, mode="procs", nworkers=12, timeout=90.0)
    fcases, fown, traces, towner = [], [], [], []
    for i, meta in fmeta.items():
        resp = fres.get(i, {}).get("run", {"st": "MISSING"})
        if resp.get("st") in ("CRASH", "HANG", "PANIC", "TOOL", "MISSING"):
            v.finding("free-worker:" + str(resp.get("st")).lower(), "free run of plan %s ended with %s %s" % (meta["plan"], resp.get("st"), resp.get("crash") or resp.get("panic") or ""), {"plan": meta["plan"]})
            continue
        obs = observe(resp, meta["content"], meta["hang"])
        fcases.append({"plan": meta["plan"], "obs": obs})
        fown.append((i, meta, resp))
        if not meta["big"] and meta.get("stdin_bytes") is None:      # (the trace specification has no stdin writer)
            traces.append(trace_record(meta, resp, obs))
            towner.append((i, meta, resp, obs))
    fverdicts, _ = judge(fcases, "v")
    free_ok = 0
    for (i, meta, resp), case, broken in zip(fown, fcases, fverdicts):
        if not broken:
            free_ok += 1
            continue
        key = "free:" + "+".join(sorted(broken)) + ":" + case["obs"]["k"]
        v.finding(key, "a free run of the plan %s (policies %s) gave %s: breaks %s" % (case["plan"], meta["pol"], case["obs"], sorted(broken)),
                  {"plan": case["plan"], "obs": case["obs"], "policies": meta["pol"], "script": freqs[i]["src"], "policy": freqs[i]["policy"], "events": resp.get("events")})
    accepted, _, tr = validate_traces(traces, "t")
    states += tr.distinct
    transitions += tr.generated
    rejected = [j for j in range(len(traces)) if (j + 1) not in accepted]
    unsound = [j for j in range(len(traces)) if (j + 1) in accepted and not accepted[j + 1].get("sound")]
    if rejected:
        _, furthest, _ = validate_traces([traces[j] for j in rejected], "d", progress=True)
        for n, j in enumerate(rejected):
            i, meta, resp, obs = towner[j]
            pos = furthest.get(n + 1, 1)
            evs = traces[j]["events"]
            v.finding("trace-rejected:" + (evs[pos - 1]["ev"] if pos <= len(evs) else "result"),
                      "no behaviour of the capture protocol explains the recorded trace of plan %s: stuck at event %d of %d (%s), result %s" % (
                          meta["plan"], pos, len(evs), evs[pos - 1] if pos <= len(evs) else "end", traces[j]["res"]),
                      {"trace": traces[j], "stuck_at": pos, "script": freqs[i]["src"]})
    for j in unsound:
        i, meta, resp, obs = towner[j]
        v.finding("trace-unsound", "the recorded trace is explained by the protocol but its final state breaks an invariant: %s" % traces[j], {"trace": traces[j]})
    # the validator must be able to reject: damage accepted traces
    damaged, what = [], []
    for j in range(len(traces)):
        if (j + 1) not in accepted or len(damaged) >= 12:
            continue
        evs = traces[j]["events"]
        flagged = [k for k, e in enumerate(evs) if e["ev"] in ("poll", "join")]
        reads = [k for k, e in enumerate(evs) if e["ev"] == "read"]
        if flagged:
            t2 = json.loads(json.dumps(traces[j]))
            k = flagged[-1]
            t2["events"][k]["flag"] = 2 if t2["events"][k]["flag"] != 2 else 1
            damaged.append(t2)
            what.append("flag value changed in event %d" % (k + 1))
        if reads:
            t2 = json.loads(json.dumps(traces[j]))
            del t2["events"][reads[0]]
            damaged.append(t2)
            what.append("read event %d dropped" % (reads[0] + 1))
    selftest = {}
    if damaged:
        acc2, _, _ = validate_traces(damaged, "s")
        selftest = {"damaged_traces": len(damaged), "rejected": len(damaged) - len(acc2)}
        if len(acc2) > len(damaged) // 2:
            raise common.ToolError("trace validation accepts damaged traces (%d of %d): it judges nothing" % (len(acc2), len(damaged)))
    if traces and (1 in accepted):
        samples.append({"validated_trace": traces[0]})
    cov["free_runs"] = {"runs": len(fcases), "accepted_by_abstract_layer": free_ok, "real_size_runs": nbig, "traces": len(traces), "traces_accepted": len(accepted),
                        "trace_states": tr.distinct, "outcomes": dict(collections.Counter(c["obs"]["k"] for c in fcases)),
                        "policy_combinations": len(set((m["pol"]["out"], m["pol"]["err"]) for m in fmeta.values())), "selftest": selftest}
    shutil.rmtree(sockdir, ignore_errors=True)
    reap_strays()
    cov.update({"states": states, "transitions": transitions, "traces_validated_against_impl": realised_ok + len(accepted),
                "evaluations": len(reqs) + len(fcases), "distinct_nontrivial": len(set(json.dumps(m["steps"]) for m in metas.values())) + len(set(json.dumps(t["events"]) for t in traces)),
                "rule": "forced schedules: distinct paths of the TLC transition graph (each adds a transition no earlier path took, quick tier: a seeded sample); free runs: distinct recorded event sequences",
                "exhaustive": (not quick) and getattr(g, "covered", 0) >= g.nedges, "samples": samples or [{"note": "no sample"}]})
    v.coverage = cov
    v.assumptions = ["gates and events exist only with --cfg naijascript_verif; a forced schedule serialises the threads, it does not change what a step does",
                     "schedule replay uses pipes that never fill (planned bytes <= 4) and reads that take everything available; blocking pipes and partial reads are covered by the model and by the free runs",
                     "the child's writes are single write(2) calls of at most 4096 bytes in traced runs (atomic on a pipe)",
                     "kill(pid, 0) failing is taken as `the child is gone and reaped` (pid reuse within a run is ignored)"]
    rc = v.finish()
    if rc == 0 and tool_error:
        raise common.ToolError(tool_error)        # never hides a violation: only raised when there is none
    return rc


def replay(path):
    """bin/check C16 quick --replay FILE: forces the recorded schedule (or repeats the recorded free run 20 times)."""
    common.build_harness()
    rp = json.load(open(path))["replay"]
    sockdir = "/tmp/c16_replay_%d" % os.getpid()
    os.makedirs(sockdir, exist_ok=True)
    if rp.get("schedule") is not None and rp.get("meta"):
        meta = rp["meta"]
        sock = os.path.join(sockdir, "r.sock")
        req = {"id": 0, "modes": ["run"], "kind": "capture", "src": script_for(["obey", "sock", sock], meta["pol"], LONG_MS), "schedule": rp["schedule"],
               "sock": sock, "rest": rp["rest"], "policy": rp["policy"]}
        resp = runner.run_requests([req], mode="procs", nworkers=1, timeout=90.0).get(0, {}).get("run", {})
        plan, content = actual_plan(meta, resp, rp["policy"]["max_capture_bytes_per_stream"])
        obs = observe(resp, content, any(len(e) > 2 and e[2] == "granted+timeout" for e in resp.get("log", [])))
        verdicts, _ = judge([{"plan": plan, "obs": obs}], "replay")
        print("plan %s\nforced %s\nunrealised: %s\nscript saw %s\nbreaks: %s" % (plan, [" ".join(x) for x in meta["steps"]], resp.get("unrealised"), obs, sorted(verdicts[0]) or "nothing"))
        shutil.rmtree(sockdir, ignore_errors=True)
        return 1 if verdicts[0] else 0
    if rp.get("script") and rp.get("plan") and rp.get("policy"):
        bad = 0
        for n in range(20):
            resp = runner.run_requests([{"id": 0, "modes": ["run"], "kind": "capture", "src": rp["script"], "schedule": None, "policy": rp["policy"]}],
                                       mode="procs", nworkers=1, timeout=90.0).get(0, {}).get("run", {})
            print("run %d: st=%r kind=%r stream=%r values=%s alive_after=%s" % (n, resp.get("st"), resp.get("ekind"), resp.get("estream"), resp.get("out"), resp.get("alive_after")))
        print("free runs are not forced: compare with the recorded observation %s" % rp.get("obs"))
        return bad
    print("nothing to replay in %s" % path)
    return 2
