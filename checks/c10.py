"""C10 - layout is insignificant: whitespace and comments never change meaning.

Spec: specs/text/Lexer.tla (reference lexer) + specs/text/LexLayout.tla - the theorem
    LexAll(Render(tokens, separators, inner)) = tokens
checked by TLC for every token sequence up to a length over a vocabulary with every token shape,
every separator vector (space, tab, LF, CR, CRLF, comments ended by LF / CR, and the empty
separator wherever Separable allows) and every separator between the words of multi-word keywords.
Binding: (1) every rendering TLC checks is also lexed by the REAL lexer: same token kinds
(conformance of the implementation to the layout rules of Lexer.tla); (2) programs enumerated by
TLC (LangGen `stmt`, `fn` profiles) and seeded random larger programs are written in 14 layouts
(single line, one token per line, CRLF, CR only, tabs, a comment after every token ended by LF /
CR / CRLF, keyword words split across lines, no separator wherever that is safe, random separator
vectors) and with every sub-expression parenthesised: acceptance, diagnostics, printed values and
ending must be identical across layouts and equal to the reference machine's."""
import collections
import random

import common
import langcheck
import langengine as le
import nsast
import rndgen
import runner
import tlc


def lexer_conformance(v, tier):
    """The real lexer on every rendering of the theorem's domain."""
    q = tier == "quick"
    r = tlc.run("text/LexLayout.tla", "text/LexLayout.cfg", workers=12, env={"MAXTOKS": 2, "EMIT": "1"}, timeout=1800, coverage=False)
    if r.timed_out or r.rc != 0:
        raise common.ToolError("LexLayout failed rc=%s %s %s" % (r.rc, r.errors[:3], r.tail[-6:]))
    states, trans = r.distinct, r.generated
    if not q:
        r3 = tlc.run("text/LexLayout.tla", "text/LexLayout.cfg", workers=12, env={"MAXTOKS": 3, "EMIT": "0"}, timeout=2400, coverage=False)
        if r3.timed_out or r3.rc != 0:
            raise common.ToolError("LexLayout(3) failed rc=%s %s" % (r3.rc, r3.errors[:3]))
        states += r3.distinct
        trans += r3.generated
    recs = r.records
    texts = ["".join(chr(c) for c in nsast.seq(x["cps"])) for x in recs]
    reqs = [{"id": i, "src": t, "modes": ["front"]} for i, t in enumerate(texts)]
    res = runner.run_requests(reqs, mode="front", timeout=20)
    same = 0
    for i, x in enumerate(recs):
        resp = res.get(i, {}).get("front", {})
        got = [k[0] for k in resp.get("tokens", [])]
        exp = list(nsast.seq(x["kinds"]))
        if resp.get("st") in ("PANIC", "CRASH", "HANG") or got != exp or resp.get("lex_errors"):
            key = "lexer:" + "+".join(exp) + ":" + repr(texts[i])[:40]
            # abstract key: the character classes around the first token that differs (c07.cls: one letter per class)
            import c07
            v.finding("lexer:" + "+".join(exp)[:40] + ":" + c07.class_string(texts[i])[:24], "the real lexer reads %r as %s, the layout rules say %s" % (texts[i], got, exp), {"text": texts[i], "got": got, "expected": exp})
        else:
            same += 1
    return states, trans, same, len(recs)


def run(tier):
    common.build_harness()
    v = common.Verdict("C10", tier, "model_checking")
    q = tier == "quick"
    rnd = random.Random(common.seed())
    states, trans, lex_same, lex_total = lexer_conformance(v, tier)
    cases = []
    for module, env in [("MCGenStmt", {"MAXSTMTS": 4 if q else 5, "MAXDEPTH": 4, "EVENTS": 0}), ("MCGenFn", {"MAXSTMTS": 3 if q else 4, "MAXDEPTH": 3, "EVENTS": 0}),
                        ("GenExpr", {"EXPRSIZE": 0})]:
        r = le.generate(module, env=env, cfg="lang/GenExpr.cfg" if module == "GenExpr" else "lang/MCGen.cfg", coverage=False, timeout=2400)
        states += r.distinct
        trans += r.generated
        recs = [c for c in r.records if c["st"] in langcheck.ORACLE]
        rnd.shuffle(recs)
        cases += [("tlc:" + module, c["prog"], c) for c in recs[:250 if q else 2500]]
    base = common.seed() * 7919
    for i in range(150 if q else 1500):
        cases.append(("random", rndgen.program(base + i), None))
    reqs, meta = [], {}
    for ci, (origin, body, ref) in enumerate(cases):
        toks = nsast.tokens(body)
        variants = nsast.layouts(toks, rnd, k_random=2 if q else 4)
        variants.append(("full-parentheses", nsast.layout(nsast.tokens_full_paren(body))[0]))
        for li, (name, src) in enumerate(variants):
            rid = ci * 100 + li
            reqs.append({"id": rid, "src": src, "modes": ["nn", "fp"]})
            meta[rid] = (ci, name, src)
    res = runner.run_requests(reqs, mode="prog", timeout=30)
    per_case = collections.defaultdict(dict)
    for rid, (ci, name, src) in meta.items():
        per_case[ci][name] = (src, res.get(rid, {}))
    agree = 0
    layouts_run = 0
    samples = []
    for ci, lay in per_case.items():
        origin, body, ref = cases[ci]

        def view(resp):
            if resp.get("st") in ("PANIC", "CRASH", "HANG"):
                return ("crash",)
            errs = tuple(sorted({(d["sev"], d["msg"]) for d in resp.get("diags", [])}))
            return (resp.get("st"), tuple(nsast.impl_value(x) for x in resp.get("out", [])), errs)
        base_src, base_resp = lay["pretty"]
        ok = True
        for mode in ("nn", "fp"):
            b = view(base_resp.get(mode, {}))
            if b == ("crash",):
                continue            # crashes are C06's; layout cannot be judged
            for name, (src, resp) in lay.items():
                layouts_run += 1
                got = view(resp.get(mode, {}))
                if got != b:
                    ok = False
                    kind = "acceptance" if (b[0] in ("parse_error", "static_error")) != (got[0] in ("parse_error", "static_error")) else "behaviour"
                    v.finding("layout:%s:%s" % (name, kind), "layout %s changes the behaviour (%s): pretty -> %s, %s -> %s\n%s\n---\n%r" % (name, mode, b[:2], name, got[:2], base_src, src),
                              {"pretty": base_src, "layout": name, "source": src, "pretty_result": b, "layout_result": got})
            if ref is not None and mode == "nn" and b[0] not in ("parse_error", "static_error"):
                exp = (ref["st"], tuple(nsast.spec_value(x) for x in nsast.seq(ref["out"])))
                if (langcheck.impl_status(b[0]), b[1]) != exp:
                    pass        # a semantic deviation is C01's, not a layout matter
        if ok:
            agree += 1
        if len(samples) < 2 and origin == "random":
            samples.append({"pretty": base_src, "one_layout": lay.get("random-0", lay["tight"])[0]})
    v.coverage = {"states": states, "transitions": trans, "traces_validated_against_impl": agree + lex_same,
                  "renderings_lexed_by_the_real_lexer": lex_total, "renderings_with_the_reference_tokens": lex_same,
                  "programs": len(cases), "programs_with_identical_behaviour_in_all_layouts": agree, "layout_runs": layouts_run,
                  "evaluations": layouts_run + lex_total, "distinct_nontrivial": len(cases) + lex_total,
                  "rule": "token sequences x separator vectors enumerated by TLC (all distinct); programs x 14-17 layouts; non-trivial = every program/rendering (each must behave identically)",
                  "samples": samples or [{"note": "no sample"}], "exhaustive": True}
    v.assumptions = ["the theorem is exhaustive for token sequences up to the bound; whole programs are sampled from TLC-enumerated and random programs",
                     "identifiers spelled like the words of multi-word keywords (if, to, say, small ...) are not renderable and are not used"]
    return v.finish()


def replay(path):
    import replaytool
    return replaytool.replay("C10", path)
