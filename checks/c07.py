"""C07 - the front end is total: any text yields diagnostics or a program, not a crash.

Spec: specs/text/Lexer.tla - the reference lexer over CODE POINTS (its cursor sits between
characters by construction) with the design invariants of a lexing step (progress, ordered spans
inside the text); specs/text/LexSweep.tla enumerates EVERY text up to a length over an alphabet with
one member of every character class the lexer distinguishes, including 2-, 3- and 4-byte
characters, lexes each with the reference lexer (TLC checks the invariants on every step) and
prints it.
Binding (R): every enumerated text goes through the real Lexer, Parser, Resolver and
`render_ansi` in an isolated worker.  Oracle = what the property states: no panic / abort; every
token, diagnostic and label span ordered, inside the text, on character boundaries; rendering
succeeds; a text with an error-level diagnostic is not executed (pipeline replica + the real
binary on a sample).  Token identity is compared with the reference for information only.
The same oracle is fed every single-token deletion / duplication / swap / replacement of valid
generated programs (parser and resolver recovery), and seeded random byte-level mutations of the
repository's example scripts."""
import collections
import glob
import os
import random
import subprocess

import common
import langengine as le
import nsast
import runner
import tlc

CLASS = {}


def cls(ch):
    c = ord(ch)
    if ch.isdigit():
        return "d"
    if ch.isalpha() and c < 128 or ch == "_":
        return "a"
    if c >= 128:
        return "M%d" % len(ch.encode())
    return {" ": "s", "\t": "s", "\n": "n", "\r": "n"}.get(ch, ch)


def class_string(text):
    return "".join(cls(ch) for ch in text)


def problems(resps):
    """-> list of (kind, detail) for one text."""
    out = []
    for mode in ("front", "render"):
        r = resps.get(mode, {})
        if r.get("st") in ("PANIC", "CRASH", "HANG"):
            out.append(("crash", (r.get("panic") or str(r.get("crash")) or "hang")[:200]))
    for b in resps.get("front", {}).get("bad", []):
        parts = b.split(":")
        out.append(("span-" + parts[1], b[:200]))
    return out


def front(texts, nworkers=16):
    reqs = [{"id": i, "src": t, "modes": ["front", "render"]} for i, t in enumerate(texts)]
    return runner.run_requests(reqs, mode="front", nworkers=nworkers, timeout=20)


def minimal_key(text, kind):
    """Shortest contiguous piece of `text` that still shows a problem of this kind -> abstract key."""
    n = len(text)
    cands = []
    for ln in range(1, n + 1):
        for a in range(0, n - ln + 1):
            cands.append(text[a:a + ln])
    cands = cands[:400]
    res = front(cands, nworkers=4)
    for i, c in enumerate(cands):
        if any(k == kind for k, _ in problems(res.get(i, {}))):
            return class_string(c), c
    return class_string(text), text


def token_mutations(rnd, toks, vocab, limit):
    out = []
    n = len(toks)
    idxs = list(range(n))
    rnd.shuffle(idxs)
    for i in idxs[:limit]:
        out.append(toks[:i] + toks[i + 1:])                                  # delete
        out.append(toks[:i] + [toks[i], toks[i]] + toks[i + 1:])             # duplicate
        if i + 1 < n:
            out.append(toks[:i] + [toks[i + 1], toks[i]] + toks[i + 2:])     # swap
        out.append(toks[:i] + [nsast.Tok(rnd.choice(vocab))] + toks[i + 1:])  # replace
    return out


VOCAB = ["make", "get", "(", ")", "[", "]", ",", ".", "start", "end", "if to say", "if not so", "jasi", "do", "return", "comot", "next",
         "x", "1", "1.5", '"s"', "add", "minus", "not", "small pass", "and", "null", "true", "é", "#", '"', "1.", "shout"]


def renderer_conformance(sample):
    """specs/text/Render.tla (descriptive, beyond the listed properties): every line the real renderer prints for the
    parser's diagnostics against the specification's Lines(..).  INFORMATION ONLY - never a verdict of C07, which
    asks only that rendering does not fail."""
    import re
    reqs = [{"id": i, "src": t, "modes": ["rendertext"]} for i, t in enumerate(sample)]
    res = runner.run_requests(reqs, mode="front", nworkers=16, timeout=20)
    cps = lambda t: [ord(ch) for ch in t]
    cases, idx = [], []
    for i, t in enumerate(sample):
        r = res.get(i, {}).get("rendertext", {})
        if not r.get("diags") or len(r["diags"]) > 6 or len(t) > 600:
            continue
        b = t.encode()
        try:
            ci = lambda off: len(b[:off].decode("utf-8")) + 1
            ds = [{"from": ci(d["span"][0]), "to": ci(d["span"][1]), "head": cps("%s[%s]: %s" % (d["sev"], d["code"], d["msg"])),
                   "labels": [{"from": ci(l["span"][0]), "to": ci(l["span"][1]), "msg": cps(l["msg"])} for l in d["labels"]]} for d in r["diags"]]
        except UnicodeDecodeError:
            continue
        cases.append({"src": cps(t), "ds": ds, "file": cps("t.ns")})
        idx.append((t, r["text"]))
    if not cases:
        return {"cases": 0}
    path = os.path.join(common.VERIF, "work", "render_%d.ndjson" % os.getpid())
    tlc.write_ndjson(path, cases)
    try:
        t = tlc.run("text/Render.tla", "text/Render.cfg", workers=8, env={"CASES": path}, timeout=900, coverage=False)
    finally:
        os.remove(path)
    if t.timed_out or t.rc != 0:
        return {"cases": len(cases), "note": "Render.tla did not finish (rc=%s %s)" % (t.rc, t.errors[:2])}
    agree, deviations = 0, []
    for rec in t.records:
        text, actual = idx[rec["i"] - 1]
        exp = ["".join(chr(x) for x in ln) for ln in rec["lines"]]
        act = re.sub(r"\x1b\[[0-9;]*m", "", actual).split("\n")
        if act and act[-1] == "":
            act.pop()
        if act == exp:
            agree += 1
        elif len(deviations) < 5:
            k = next((j for j in range(min(len(act), len(exp))) if act[j] != exp[j]), min(len(act), len(exp)))
            deviations.append({"text": text[:200], "line": k, "rendered": act[k] if k < len(act) else None, "specified": exp[k] if k < len(exp) else None})
    return {"cases": len(cases), "renderings_equal_to_the_specification": agree, "deviations": len(cases) - agree, "samples_of_deviations": deviations,
            "model_states": t.distinct}


def run(tier):
    common.build_harness()
    v = common.Verdict("C07", tier, "model_checking")
    q = tier == "quick"
    rnd = random.Random(common.seed())
    states = transitions = 0
    texts = []
    ref_tokens = {}
    sweeps = [{"MAXLEN": 3, "ALPHA": "full"}, {"MAXLEN": 4, "ALPHA": "reduced"}] if q else [{"MAXLEN": 4, "ALPHA": "full"}, {"MAXLEN": 5, "ALPHA": "reduced"}]
    for env in sweeps:
        r = tlc.run("text/LexSweep.tla", "text/LexSweep.cfg", workers=12, env=env, timeout=2400, coverage=False)
        if r.timed_out or r.rc != 0:
            raise common.ToolError("LexSweep failed rc=%s %s %s" % (r.rc, r.errors[:3], r.tail[-5:]))
        states += r.distinct
        transitions += r.generated
        for rec in r.records:
            t = "".join(chr(c) for c in nsast.seq(rec["cps"]))
            if t not in ref_tokens:
                ref_tokens[t] = [(x["k"], x["from"], x["to"]) for x in nsast.seq(rec["toks"])]
                texts.append(t)
    n_sweep = len(texts)
    # token-level mutations of valid generated programs
    g = le.generate("MCGenStmt", env={"MAXSTMTS": 3 if q else 4, "MAXDEPTH": 4, "EVENTS": 0}, coverage=False)
    states += g.distinct
    transitions += g.generated
    progs = g.records
    rnd.shuffle(progs)
    n_mut = 0
    for c in progs[:150 if q else 1500]:
        toks = nsast.tokens(c["prog"])
        for m in token_mutations(rnd, toks, VOCAB, 6 if q else 12):
            texts.append(nsast.layout(m)[0])
            n_mut += 1
    # byte-level mutations of the repository's scripts
    corpus = []
    for f in sorted(glob.glob(common.REPO + "/examples/*.ns") + glob.glob(common.REPO + "/tests/stress/*.ns")):
        try:
            corpus.append(open(f, encoding="utf-8").read())
        except Exception:
            pass
    n_rand = 0
    junk = ["é", "你", "😆", "\"", "'", "\\", "{", "}", "1.", "#", "\r", "\t", "(", "]", " if to ", "small ", " "]
    for _ in range(300 if q else 5000):
        s = rnd.choice(corpus)
        s = s[:rnd.randint(20, min(len(s), 400))]
        for _ in range(rnd.randint(1, 4)):
            p = rnd.randint(0, len(s))
            k = rnd.random()
            if k < 0.4:
                s = s[:p] + rnd.choice(junk) + s[p:]
            elif k < 0.7:
                s = s[:p] + s[p + rnd.randint(1, 5):]
            else:
                s = s[:p] + s[p:][::-1][:rnd.randint(1, 8)] + s[p:]
        texts.append(s)
        n_rand += 1
    # wide programs: N root variables with a function (parameter + local) defined among them - the
    # analyses keep per-function tables indexed by local number, sized in 64-bit words
    n_wide = 0
    wide_ns = list(range(60, 70)) + list(range(124, 132)) if q else list(range(1, 200))
    for n in wide_ns:
        for pos in ([n // 2] if q else [1, n // 2, n - 1]):
            pos = max(0, min(n, pos))
            src = "".join("make v%d get %d\n" % (i, i) for i in range(pos)) + "do f(p) start make q get p return q end\n" \
                + "".join("make v%d get %d\n" % (i, i) for i in range(pos, n)) + "shout(f(1))\n"
            texts.append(src)
            n_wide += 1
    # every member built-in x every statically known receiver type x 0..3 arguments (GenMethodArity.tla)
    fam = le.generate("GenMethodArity", cfg="lang/GenMethodArity.cfg", coverage=False, timeout=600)
    states += fam.distinct
    transitions += fam.generated
    for c in fam.records:
        texts.append(nsast.render(c["prog"])[0])
    n_family = len(fam.records)
    res = front(texts)
    counts = collections.Counter()
    token_agree = token_differ = 0
    failing = {}
    for i, t in enumerate(texts):
        ps = problems(res.get(i, {}))
        if not ps:
            counts["ok"] += 1
        for kind, det in ps:
            counts[kind] += 1
            failing.setdefault(kind, []).append((t, det))
        if i < n_sweep and not ps:
            got = [(k, a, b) for (k, a, b, _) in res[i]["front"].get("tokens", [])]
            exp = ref_tokens[t]
            clean = all(k != "err" for (k, _, _) in exp)
            if clean:
                if got == exp:
                    token_agree += 1
                else:
                    token_differ += 1
    # reduce every failing text to its minimal failing piece -> abstract key
    for kind, items in failing.items():
        items.sort(key=lambda x: len(x[0]))
        seen_keys = set()
        for (t, det) in items[:40]:
            if len(t) <= 12:
                key, piece = minimal_key(t, kind)
            elif t.startswith("make v0 get 0") or t.startswith("do f(p)"):
                key, piece = "wide-program", t
            else:
                key, piece = "long:" + le.core_key(t), t
            k = "%s:%s" % (kind, key)
            if k in seen_keys:
                continue
            seen_keys.add(k)
            v.finding(k, "%s on %r (minimal piece %r): %s" % (kind, t, piece, det), {"text": t, "minimal": piece, "detail": det})
    # gating: a text with an error-level diagnostic is not executed (pipeline replica)
    sample = [t for t in texts if t.strip()][:0] + rnd.sample(texts, min(len(texts), 400 if q else 3000))
    reqs = [{"id": i, "src": t + '\nshout("RAN")', "modes": ["fp"]} for i, t in enumerate(sample)]
    gres = runner.run_requests(reqs, mode="prog", timeout=20)
    gated = 0
    for i, t in enumerate(sample):
        r = gres.get(i, {}).get("fp", {})
        has_err = any(d["sev"] == "error" and d["code"] != "runtime" for d in r.get("diags", []))
        if has_err:
            gated += 1
            if r.get("st") not in ("parse_error", "static_error"):
                v.finding("gating:" + class_string(t[:12]), "a text with an error-level diagnostic was executed: %r" % t, {"text": t})
    # long runs of every error-recovery shape of the lexer (tokens only: rendering 300 000 diagnostics is not the point):
    # the scanner must get through them iteratively
    # (string shapes end their line: the scanner looks for the line end from every literal, which is quadratic TIME on
    # a one-line file - slow, not a failure)
    pieces = ["1.a ", "1. ", "1abc ", "@ ", "\"\\q\"\n", "\"a\\tb\"\n", "\"open\n", "'x\n", "1.é ", "# c\r", "if to ", "small x ", "é ", "1.\"\n", "\t\f "]
    runs = [{"id": i, "src": pc * 300000, "modes": ["lex"]} for i, pc in enumerate(pieces)]
    lres = runner.run_requests(runs, mode="front", nworkers=8, timeout=300)
    lex_runs_ok = 0
    for i, pc in enumerate(pieces):
        r = lres.get(i, {}).get("lex", {})
        if r.get("st") in ("PANIC", "CRASH", "HANG") or r.get("tokens") is None or r.get("bad_spans"):
            v.finding("lexrun:" + class_string(pc), "a long run of %r: %s" % (pc, r.get("panic") or r.get("crash") or r), {"text": pc * 50, "minimal": pc, "detail": str(r)[:300]})
        else:
            lex_runs_ok += 1
    # long runs of tokens the PARSER has to recover from, inside a block and at top level (parser only: no rendering)
    junk = [") ", "] ", ", ", "get ", "1 ", "( ", "x x ", "make ", "end ", "if not so ", ". ", "start end ", "# c\n", "return ", "comot "]
    pruns = []
    for i, pc in enumerate(junk):
        pruns.append({"id": 2 * i, "src": "start\n" + pc * 12000 + "\nend\n", "modes": ["parse"]})
        pruns.append({"id": 2 * i + 1, "src": pc * 12000, "modes": ["parse"]})
    pres = runner.run_requests(pruns, mode="front", nworkers=8, timeout=300)
    parse_runs_ok = 0
    for rq in pruns:
        r = pres.get(rq["id"], {}).get("parse", {})
        pc = junk[rq["id"] // 2]
        if r.get("st") in ("PANIC", "CRASH", "HANG") or r.get("errors") is None:
            v.finding("parserun:%s:%s" % ("block" if rq["id"] % 2 == 0 else "top", class_string(pc)), "a run of 12 000 %r %s: %s" % (pc, "inside a block" if rq["id"] % 2 == 0 else "at top level", r.get("panic") or r.get("crash") or r),
                      {"text": rq["src"][:80], "minimal": pc, "detail": str(r)[:300]})
        else:
            parse_runs_ok += 1
    # many diagnostics on ONE long line through the shipped binary (reporting must not need memory in proportion to
    # diagnostics x line length)
    naija = common.build_naija()
    import subprocess
    import tempfile
    with tempfile.TemporaryDirectory(prefix="c07_", dir=os.path.join(common.VERIF, "work")) as td:
        for name, text in (("unknown-characters", "@" * 12000), ("bad-numbers", "1.a " * (1500 if q else 4000))):
            with open(os.path.join(td, "w.ns"), "w") as f:
                f.write(text)
            try:
                pr = subprocess.run([naija, "w.ns"], cwd=td, capture_output=True, timeout=600)
                bad = pr.returncode < 0 or pr.returncode > 1 or b"memory allocation" in pr.stderr or b"panicked" in pr.stderr
                what = (pr.stderr.decode(errors="replace").strip().splitlines() or [""])[0][:200]
            except subprocess.TimeoutExpired:
                bad, what = True, "no result within 10 minutes"
            if bad:
                v.finding("report-wide-line:" + name, "the shipped binary fails to report the diagnostics of one long line (%s): %s" % (name, what), {"text": text[:64] + "...", "minimal": text[:8], "detail": what})
    render_info = renderer_conformance(rnd.sample(texts[:n_sweep], min(n_sweep, 1500 if q else 8000)) + rnd.sample(texts[n_sweep:n_sweep + n_mut + n_rand], 300 if q else 2000))
    v.coverage = {"states": states, "transitions": transitions, "traces_validated_against_impl": counts["ok"],
                  "renderer_conformance_(information_only)": render_info,
                  "texts_enumerated_by_tlc": n_sweep, "token_mutations_of_generated_programs": n_mut, "random_mutations_of_corpus": n_rand, "wide_programs": n_wide, "member_call_arity_family": n_family, "long_runs_of_lexer_recovery_shapes": len(pieces), "long_runs_ok": lex_runs_ok, "long_runs_of_parser_recovery_shapes": len(pruns), "parser_runs_ok": parse_runs_ok,
                  "results": dict(counts), "clean_texts_with_same_tokens_as_reference": token_agree, "clean_texts_with_other_tokens_(information_only)": token_differ,
                  "gating_texts_with_errors_checked": gated, "evaluations": len(texts), "distinct_nontrivial": len(set(texts)),
                  "rule": "every text over the alphabet up to the bound (TLC), plus token mutations and byte mutations; all are non-trivial (every text must survive); distinct texts counted",
                  "samples": [texts[7], texts[n_sweep // 2], texts[n_sweep + 3] if len(texts) > n_sweep + 3 else texts[-1], texts[-1]], "exhaustive": True}
    v.assumptions = ["exhaustive for the enumerated lengths/alphabets only; longer texts are sampled (mutations)", "token identity is informational: only what C07 states is judged"]
    return v.finish()


def replay(path):
    import replaytool
    return replaytool.replay("C07", path)
