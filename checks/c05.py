"""C05 - arrays are values: no mutation is ever visible through another name.

Spec: in LangDyn arrays are TLA+ sequences, i.e. mathematical values - copying is the identity and
aliasing is inexpressible; SetPath / the `mutate` step define nested writes, push, pop, reverse.
TLC enumerates every program of the `array` profile (two names, values of depth <= 2: copy, an
array stored in / pushed onto another array, element extraction, nested indexed write
`a[0][0] get v`, nested `a[0].push(v)`, reverse at both levels, pop; numbers or fresh strings as
elements; optionally inside a loop iteration so that a frame reset separates copy and mutation)
and of the `arrayfn` profile (an array passed to a function that mutates its parameter and
returns it), and of the `arraycases` families (recursion with in-place mutation of a local / parameter
array in several live activations; an array of run-time-computed strings shared with a callee that
changes the caller's array and then re-allocates).  Binding (R): every program runs with hooks on; the environment projection - ALL live
variables with their full contents after EVERY statement - must equal the reference, so "every
other name unchanged" is checked for every mutation, not only for what is printed."""
import common
import langengine as le


def profiles(tier):
    q = tier == "quick"
    n = 3 if q else 4
    return [("MCGenArr", {"MAXSTMTS": n, "MAXDEPTH": 2, "EVENTS": 2, "ARRTY": "num", "ARRLOOP": "0"}),
            ("MCGenArr", {"MAXSTMTS": n, "MAXDEPTH": 2, "EVENTS": 2, "ARRTY": "str", "ARRLOOP": "0"}),
            ("MCGenArr", {"MAXSTMTS": n - 1, "MAXDEPTH": 3, "EVENTS": 2, "ARRTY": "str", "ARRLOOP": "1"}),
            ("MCGenArrFn", {"MAXSTMTS": n, "MAXDEPTH": 2, "EVENTS": 2})]


def run(tier):
    common.build_harness()
    v = common.Verdict("C05", tier, "model_checking")
    tally = le.Tally()
    for module, env in profiles(tier) + [("GenArrCases", {})]:
        r = le.generate(module, env=env, timeout=2400, cfg="lang/GenArrCases.cfg" if module == "GenArrCases" else "lang/MCGen.cfg",
                        coverage=module != "GenArrCases")
        tally.add_tlc(module + ":" + env.get("ARRTY", "") + env.get("ARRLOOP", ""), r)
        judged = le.replay(r.records, modes=["nn", "fn", "fp"], ev=3, compare_events=True)
        tally.add(judged)
        for (c, src, maps, classes, resps) in judged:
            for (role, cls, mode, det) in le.attribute(classes):
                if role in ("own", "C02"):
                    # array contents that differ only with the frame arena are still C05's business:
                    # an element that changes without being overwritten
                    v.finding("%s:%s:%s" % (cls, mode, le.core_key(src)), "%s in configuration %s: %s\n%s" % (cls, mode, det, src),
                              {"source": src, "mode": mode, "reference": {"st": c["st"], "out": c["out"]}, "detail": det})
                else:
                    tally.routed[role + ":" + cls] += 1
    v.coverage = tally.coverage(exhaustive=True)
    v.assumptions = ["indexing or mutating through a non-array (dynamic type confusion) is Unspecified in the model: crash-freedom only (C06)"]
    return v.finish()


def replay(path):
    import replaytool
    return replaytool.replay("C05", path)
