"""C18 - exceeding an analysis budget only disables optimisation, never correctness.

Spec: specs/lang/Limits.tla - the vector of analysis counts in staged order (functions, locals,
scopes, statements, cfg ops, ops in one function, cfg blocks, blocks in one function, direct user
calls, summary bound f(f+2l+2), liveness bound), FirstExceeded, and the consequences.  For every
program of a TLC-enumerated corpus (its count vector is measured through the implementation's own
public counters) TLC enumerates the family of cap vectors that puts each metric just below, at and
just above its count, every pair of metrics exceeded together (staged order), all at the cap, all
exceeded; invariant StagedOrder is checked on the rule.
Binding (R): each (program, caps) runs through the real resolver with the caps installed (hook)
and the real runtime: exceeded => still accepted, exactly ONE resource-limit warning that names
the first exceeded metric with observed and limit, no analysis warnings, no plan, and the SAME
printed values and ending as without limits; not exceeded => diagnostics and plan identical to the
unlimited run.  Metric names are learned from the implementation at run time.
Default caps (thorough): generated programs sized just below / at / just above each reachable
default limit run through the shipped release binary and must print what the generator knows they
print, with / without the resource-limit warning."""
import collections
import os
import random
import re
import subprocess
import tempfile

import common
import langcheck
import langengine as le
import nsast
import runner
import tlc

ANALYSIS_KINDS = ("unreachable", "unused-assignment", "unused-variable", "unused-function")


def corpus(q, rnd):
    progs = []
    st = [0, 0]
    for module, env in [("MCGenScope", {"MAXSTMTS": 4, "MAXDEPTH": 3, "EVENTS": 0}), ("MCGenFn", {"MAXSTMTS": 4, "MAXDEPTH": 3, "EVENTS": 0}),
                        ("MCGenCap", {"MAXSTMTS": 4, "MAXDEPTH": 2, "EVENTS": 0}), ("MCGenStmt", {"MAXSTMTS": 4, "MAXDEPTH": 4, "EVENTS": 0})]:
        r = le.generate(module, env=env, coverage=False, timeout=1800)
        st[0] += r.distinct
        st[1] += r.generated
        recs = [c for c in r.records if c["st"] in langcheck.ORACLE]
        rnd.shuffle(recs)
        progs += [nsast.render(c["prog"])[0] for c in recs[:40 if q else 400]]
    # programs whose result depends on LEXICAL binding while a same-named function / variable is live on the call
    # chain (an over-limit run must still resolve names the same way)
    for module, env, cfg in [("GenNameCases", {"EVENTS": 0}, "lang/GenNameCases.cfg"), ("GenArrCases", {}, "lang/GenArrCases.cfg")]:
        r = le.generate(module, env=env, cfg=cfg, coverage=False, timeout=1800)
        st[0] += r.distinct
        st[1] += r.generated
        recs = [c for c in r.records if c["st"] in langcheck.ORACLE]
        rnd.shuffle(recs)
        progs += [nsast.render(c["prog"])[0] for c in recs[:30 if q else 300]]
    # call cycles (each function calls the next, the last one the first): the summaries' fixpoint needs several sweeps,
    # so the work done INSIDE the analysis and the bound computed before it are exercised against each other
    for k in (4, 9, 16):
        body = "".join("do c%d(n) start\n if to say (n small pass 1) start return 0 end\n return c%d(n minus 1) add 1\nend\n" % (i, (i + 1) % k) for i in range(k))
        progs.append(body + "make unused get 7\nshout(c0(%d))\n" % (k + 2))
    return progs, st


def default_caps_sweep(v, naija):
    """Programs just below / at / above the default limits that small programs can reach, through the shipped binary."""
    cases = []
    # statements: N `make v get 1`-free statements: shout-free filler `x get x add 1`
    def stmts(n):
        return "make x get 0\n" + "x get x add 1\n" * (n - 2) + "shout(x)\n", str(n - 2)
    for n, over in ((262143, False), (262144, False), (262145, True)):
        src, out = stmts(n)
        cases.append(("statements:%s" % ("above" if over else ("at" if n == 262144 else "below")), src, out, over))
    # functions: N empty functions + root
    def funs(n):
        return "".join("do f%d() start end\n" % i for i in range(n)) + "shout(7)\n", "7"
    for n, over, tag in ((4000, False, "below-summary"), (16383, True, "summary"), (16384, True, "functions")):
        src, out = funs(n)
        cases.append(("functions:%d:%s" % (n, tag), src, out, over))
    # scopes: nested blocks
    def scopes(n):
        return "make x get 1\n" + "start\n" * n + "x get x add 1\n" + "end\n" * n + "shout(x)\n", "2"
    # (the parser refuses nesting beyond 256 levels, so the scope LIMIT is only reachable with blocks in sequence)
    for n, over in ((200, False),):
        src, out = scopes(n)
        cases.append(("scopes:%d" % n, src, out, over))
    def blocks(n):
        return "make x get 1\n" + "start end\n" * n + "shout(x)\n", "1"
    for n, over, tag in ((131000, False, "below"), (131073, True, "above")):
        src, out = blocks(n)
        cases.append(("blocks:%d:%s" % (n, tag), src, out, over))
    # locals (liveness bound): N root variables
    def locs(n):
        return "".join("make v%d get %d\n" % (i, i) for i in range(n)) + "shout(v0 add v%d)\n" % (n - 1), str(n - 1)
    for n, over, tag in ((2000, False, "below"), (5700, False, "just-below-liveness"), (5800, True, "liveness")):
        src, out = locs(n)
        cases.append(("locals:%d:%s" % (n, tag), src, out, over))
    ran = 0
    agree = 0
    with tempfile.TemporaryDirectory(prefix="c18_", dir=os.path.join(common.VERIF, "work")) as td:
        for key, src, out, over in cases:
            path = os.path.join(td, "p.ns")
            with open(path, "w") as f:
                f.write(src)
            try:
                p = subprocess.run([naija, "p.ns"], cwd=td, capture_output=True, timeout=600)
            except subprocess.TimeoutExpired:
                v.finding("default:" + key.split(":")[0] + ":timeout", "the shipped binary did not finish within 10 minutes on a program near the default limit %s" % key, {"case": key})
                continue
            ran += 1
            text = p.stdout.decode(errors="replace")
            plain = re.sub(r"\x1b\[[0-9;]*m", "", text)
            printed = [ln for ln in plain.splitlines() if ln.strip() == out]
            has_limit_warning = "warning[analysis]" in plain
            if p.returncode != 0 or not printed:
                why = (p.stderr.decode(errors="replace").strip().splitlines() or ["exit %s" % p.returncode])[-1][:200]
                v.finding("default:" + ":".join(key.split(":")[::2]), "near the default limit (%s) the shipped binary does not run the program as usual: exit %s, %s" % (key, p.returncode, why),
                          {"case": key, "rc": p.returncode, "stderr_tail": why})
            elif has_limit_warning != over:
                v.finding("default-warning:" + key, "near the default limit (%s): resource-limit warning %s" % (key, "missing" if over else "unexpected"), {"case": key})
            else:
                agree += 1
    return ran, agree, [c[0] for c in cases]


def run(tier):
    common.build_harness()
    v = common.Verdict("C18", tier, "model_checking")
    q = tier == "quick"
    rnd = random.Random(common.seed())
    progs, (states, trans) = corpus(q, rnd)
    info = langcheck.info()["semantic"]
    analysis_msgs = {info[k] for k in ANALYSIS_KINDS}
    # count vectors through the implementation's own counters
    res = runner.run_requests([{"id": i, "src": s, "modes": ["counts"]} for i, s in enumerate(progs)], mode="prog", timeout=60)
    rows, keep, names = [], [], None
    for i, s in enumerate(progs):
        r = res.get(i, {}).get("counts", {})
        if r.get("st") == "ok":
            rows.append({"counts": r["counts"], "per_function": r["per_function"]})
            keep.append(s)
            # a metric's name is learnt from a program in which that metric is non-zero
            names = [a or b for a, b in zip(names or [None] * 11, r["names"])]
    path = os.path.join(common.VERIF, "work", "c18_counts_%d.ndjson" % os.getpid())
    tlc.write_ndjson(path, rows)
    t = tlc.run("lang/Limits.tla", "lang/Limits.cfg", workers=8, env={"COUNTS": path}, timeout=1800, coverage=False)
    os.remove(path)
    if t.rc != 0 or t.timed_out:
        raise common.ToolError("Limits.tla failed: %s %s" % (t.errors[:3], t.tail[-8:]))
    states += t.distinct
    trans += t.generated
    # baseline (no limits) per program
    HUGE = [2 ** 32 - 1] * 9 + [2 ** 63, 2 ** 63]
    base = runner.run_requests([{"id": i, "src": s, "modes": ["fp"], "caps": HUGE, "plan": True} for i, s in enumerate(keep)], mode="prog", timeout=60)
    reqs = []
    for j, rec in enumerate(t.records):
        reqs.append({"id": j, "src": keep[rec["i"] - 1], "modes": ["fp"], "caps": rec["caps"], "plan": True})
    got = runner.run_requests(reqs, mode="prog", timeout=60)
    agree = 0
    by_first = collections.Counter()
    samples = []
    for j, rec in enumerate(t.records):
        src = keep[rec["i"] - 1]
        b = base.get(rec["i"] - 1, {}).get("fp", {})
        g = got.get(j, {}).get("fp", {})
        first = rec["first"]
        by_first[names[first - 1] if first else "none"] += 1
        key_ctx = "%s:%s" % (names[first - 1] if first else "none", le.core_key(src + str(rec["caps"])))
        if g.get("st") in (None, "PANIC", "CRASH", "HANG") or b.get("st") in (None, "PANIC", "CRASH", "HANG"):
            if g.get("st") != b.get("st"):
                v.finding("crash:" + key_ctx, "with caps %s the pipeline ends with %s (without limits: %s)\n%s" % (rec["caps"], g.get("st"), b.get("st"), src), {"source": src, "caps": rec["caps"]})
            continue
        same_run = (g["st"], g.get("out")) == (b["st"], b.get("out"))
        lim = [d for d in g.get("diags", []) if d["code"] == "analysis"]
        others = [(d["sev"], d["msg"]) for d in g.get("diags", []) if d["code"] != "analysis"]
        b_others = [(d["sev"], d["msg"]) for d in b.get("diags", []) if d["code"] != "analysis"]
        problems = []
        if g["st"] in ("parse_error", "static_error"):
            problems.append("the program is rejected")
        if not same_run:
            problems.append("printed values / ending differ from the unlimited run: %s vs %s" % ((g["st"], g.get("printed")), (b["st"], b.get("printed"))))
        if first:
            if len(lim) != 1:
                problems.append("%d resource-limit warnings instead of exactly one" % len(lim))
            else:
                m = re.search(r"for (.*) \(observed (\d+), limit (\d+)\)", lim[0]["labels"][0]["msg"] if lim[0]["labels"] else "")
                if not m:
                    problems.append("the warning does not name metric, observed and limit")
                elif (m.group(1), int(m.group(2)), int(m.group(3))) != (names[first - 1], rec["counts"][first - 1], rec["caps"][first - 1]):
                    problems.append("the warning names %s, expected (%s, %d, %d): staged order or counts differ" % (m.groups(), names[first - 1], rec["counts"][first - 1], rec["caps"][first - 1]))
            if any(msg in analysis_msgs for (_, msg) in others if _ == "warning"):
                problems.append("analysis warnings are still reported")
            if g.get("plan_present"):
                problems.append("an optimisation plan is still produced")
        else:
            if lim:
                problems.append("a resource-limit warning although no limit is exceeded")
            if others != b_others:
                problems.append("diagnostics differ from the unlimited run")
            if g.get("plan") != b.get("plan") or not g.get("plan_present"):
                problems.append("the plan differs from the unlimited run")
        if problems:
            v.finding("limits:" + key_ctx, "caps %s (first exceeded: %s): %s\n%s" % (rec["caps"], names[first - 1] if first else "none", "; ".join(problems), src),
                      {"source": src, "caps": rec["caps"], "counts": rec["counts"], "problems": problems})
        else:
            agree += 1
            if len(samples) < 2 and first:
                samples.append({"source": src, "caps": rec["caps"], "counts": rec["counts"], "first_exceeded": names[first - 1]})
    # a long forward call cycle FAR below every default limit through the shipped binary: the analyses must run as usual
    # (the warning about the unused variable is there, no resource-limit warning)
    k = 270
    # (each function reads its own script variable: the capture sets travel round the cycle)
    cyc = "".join("make g%d get %d\n" % (i, i) for i in range(k)) + "make unused get 7\n" \
        + "".join("do c%d(n) start\n if to say (n small pass 1) start return 0 end\n return c%d(n minus 1) add g%d minus g%d add 1\nend\n" % (i, (i + 1) % k, i, i) for i in range(k)) + "shout(c0(5))\n"
    naija_dbg = common.build_naija()
    with tempfile.TemporaryDirectory(prefix="c18c_", dir=os.path.join(common.VERIF, "work")) as td:
        with open(os.path.join(td, "p.ns"), "w") as f:
            f.write(cyc)
        try:
            pc = subprocess.run([naija_dbg, "p.ns"], cwd=td, capture_output=True, timeout=600)
            plain = re.sub(r"\x1b\[[0-9;]*m", "", pc.stdout.decode(errors="replace"))
            unused_msg = langcheck.info()["semantic"]["unused-variable"]
            if pc.returncode != 0 or "warning[analysis]" in plain or unused_msg not in plain or "\n5\n" not in "\n" + plain:
                v.finding("default:call-cycle-%d" % k, "a %d-function call cycle far below every default limit is not analysed as usual (exit %s, resource-limit warning: %s, unused-variable warning: %s)"
                          % (k, pc.returncode, "warning[analysis]" in plain, unused_msg in plain), {"case": "call-cycle", "functions": k})
        except subprocess.TimeoutExpired:
            v.finding("default:call-cycle-%d:timeout" % k, "the shipped binary did not finish a %d-function call cycle within 10 minutes" % k, {"case": "call-cycle"})
    cov = {"states": states, "transitions": trans, "traces_validated_against_impl": agree, "programs": len(keep), "cap_vectors": len(t.records),
           "cap_vectors_agreeing": agree, "by_first_exceeded_metric": dict(by_first), "metric_names_from_implementation": names,
           "evaluations": len(t.records), "distinct_nontrivial": sum(n for k, n in by_first.items() if k != "none"),
           "rule": "per program the family of cap vectors around its measured counts (TLC); non-trivial = a limit is exceeded", "samples": samples or [{"note": "none"}], "exhaustive": True}
    if not q:
        naija = common.build_naija(release=True)
        ran, ok, what = default_caps_sweep(v, naija)
        cov["default_caps_cases"] = what
        cov["default_caps_runs"] = ran
        cov["default_caps_agreeing"] = ok
    v.coverage = cov
    v.assumptions = ["small caps through the override hook exercise the staged logic; the default caps are exercised in the thorough tier only (release binary)"]
    return v.finish()


def replay(path):
    import replaytool
    return replaytool.replay("C18", path)
