"""C12 - string pool never hands out a slot twice and conserves its slots.

Spec: specs/mem/PoolAbs.tla is the abstract layer (per class a partition of the slots into live /
free / virgin; Alloc(size) is served by the smallest class whose slot >= size and returns ANY
non-live slot of that class, else falls back to fresh arena memory that is never recycled; the
counters equal the cardinalities; Contains <=> inside a class block), specs/mem/Pool.tla the
implementation-shaped refinement (bump boundary + LIFO free list).  TLC checks the refinement's
invariants, every refinement transition against the abstract layer, and emits one operation
history per transition of the reachable graph; a tiny run with a design error (the popped slot
stays in the free list) must be rejected.

Binding (R -> V): every history is replayed by `vh pool` through gated public wrappers on small
PoolSets (the real class sizes with 2-4 slots per class, several placements of the model classes
in the real table, both the alloc and the alloc_str route), single Pools, and scripted / seeded
histories on the real 20-class PoolSet (every size 0..max+2, the boundary sizes, exhaustion of the
smallest-count class and refill).  The class table (sizes, counts, block extents) is READ from the
implementation.  What the pool answered - address -> class / slot, length, its three counters,
contains(), a byte pattern per live buffer - is recorded and specs/mem/PoolTrace.tla (abstract
layer only) must accept every recorded history."""
import collections
import json
import random

import common
import memcheck
import tlc

BOUNDARY = [0, 8, 9, 128, 129, 160, 161, 256, 257]


def tier_params(tier):
    """models: (constants of Pool.tla, number of placements of the model classes in the real table,
    every history at every placement? - otherwise the placements take turns)."""
    if tier == "quick":
        return {"models": [({"CLASSES": 2, "SLOTS": 2, "MAXOPS": 8, "MAXFB": 2}, 2, True)], "single": {"CLASSES": 1, "SLOTS": 3, "MAXOPS": 8, "MAXFB": 2},
                "random": 40, "random_steps": 300, "tlc_timeout": 300}
    return {"models": [({"CLASSES": 2, "SLOTS": 2, "MAXOPS": 8, "MAXFB": 2}, 6, True), ({"CLASSES": 3, "SLOTS": 2, "MAXOPS": 9, "MAXFB": 2}, 3, False),
                       ({"CLASSES": 2, "SLOTS": 3, "MAXOPS": 10, "MAXFB": 2}, 3, False)],
            "single": {"CLASSES": 1, "SLOTS": 4, "MAXOPS": 10, "MAXFB": 2},
            "random": 300, "random_steps": 500, "tlc_timeout": 900}


def enumerate_histories(model, timeout):
    seen = {}
    cover = collections.Counter()

    def on_record(rec):
        ops = rec["ops"]
        key = tuple((o["o"], o["i"], o["c"], o["k"]) for o in ops)
        last = ops[-1]
        cover[last["o"] + (":big" if last["c"] == 0 else "")] += 1
        seen.setdefault(key, rec)

    env = dict(model)
    env["MUT"] = "none"
    r = tlc.run("mem/Pool.tla", "mem/Pool.cfg", workers=6, env=env, timeout=timeout, on_record=on_record)
    if r.timed_out or r.rc != 0:
        raise common.ToolError("Pool.tla: rc=%s timed_out=%s %s\n%s" % (r.rc, r.timed_out, r.errors[:4], "\n".join(r.tail[-10:])))
    missing = [k for k in ("alloc", "alloc:big", "dealloc", "dealloc:big") if cover[k] == 0]
    if missing:
        raise common.ToolError("Pool.tla is vacuous: no transition of kind %s" % missing)
    prefixes = set()
    for ops in seen:
        for n in range(1, len(ops)):
            prefixes.add(ops[:n])
    hist = [rec for key, rec in seen.items() if key not in prefixes]
    return hist, r, cover


def design_mutation():
    r = tlc.run("mem/Pool.tla", "mem/Pool.cfg", workers=2, env={"CLASSES": 2, "SLOTS": 2, "MAXOPS": 5, "MAXFB": 1, "MUT": "keepfree"},
                timeout=120, coverage=False, on_record=lambda rec: None)
    if r.timed_out or r.rc == 0 or not r.errors:
        raise common.ToolError("Pool.tla with a slot left in the free list was not rejected: the specification lost its teeth")


def model_count(model, k):
    """CountOf(k) of Pool.tla."""
    return model["SLOTS"] if k % 2 == 1 else model["SLOTS"] + 1


def placements(table, k, n, rnd):
    """n placements of k model classes in the real table (ascending real class indices)."""
    last = len(table) - 1
    sizes = [t[0] for t in table]
    # where the spacing of the table changes (128 -> 160 today): found from the table, not assumed
    gaps = [sizes[i + 1] - sizes[i] for i in range(last)]
    change = next((i for i in range(1, len(gaps)) if gaps[i] != gaps[i - 1]), last // 2)
    start = max(0, min(change - (k - 2), last - k + 1))
    out = [list(range(k)), list(range(start, start + k)), list(range(last - k + 1, last + 1))]
    out = [p for p in out if p[0] >= 0 and p[-1] <= last]
    while len(out) < n:
        p = sorted(rnd.sample(range(len(table)), k))
        if p not in out:
            out.append(p)
    return out[:n]


def small_requests(hist, model, table, places, every=True):
    """Model history x placement -> concrete request on a small PoolSet (real sizes, tiny counts)."""
    k = model["CLASSES"]
    big = max(t[0] for t in table) + 1
    for n, rec in enumerate(hist):
        for pi, place in enumerate(places):
            if not every and pi != n % len(places):
                continue
            counts = [1] * len(table)
            for j, rc in enumerate(place):
                counts[rc] = model_count(model, j + 1)
            api = "str" if (n + pi) % 2 else "alloc"
            ops = []
            for o in rec["ops"]:
                if o["o"] == "alloc":
                    if o["c"] == 0:
                        sz = big
                    else:
                        rc = place[o["c"] - 1]
                        sz = table[rc][0] if o["k"] == "hi" else (0 if rc == 0 else table[rc - 1][0] + 1)
                    ops.append({"o": "alloc", "i": o["i"], "s": sz, "api": api})
                else:
                    ops.append({"o": "dealloc", "i": o["i"]})
            yield {"setup": {"kind": "set", "counts": counts}, "arena": 1 << 20, "probe": "blocks" if pi == 0 or not every else "bufs", "ops": ops,
                   "m": {"kind": "small-set", "place": place, "api": api}}


def single_requests(hist, model, table):
    """One-class model history -> a bare Pool (exhaustion answers None instead of falling back)."""
    for n, rec in enumerate(hist):
        if any(o["o"] == "alloc" and o["c"] == 0 for o in rec["ops"]):
            continue
        size = table[n % len(table)][0]
        ops = [{"o": "palloc", "i": o["i"], "s": size} if o["o"] == "alloc" else {"o": "dealloc", "i": o["i"]} for o in rec["ops"]]
        yield {"setup": {"kind": "single", "size": size, "count": model["SLOTS"]}, "arena": 1 << 16, "probe": "blocks", "ops": ops,
               "m": {"kind": "single", "size": size}}


def real_requests(table, params):
    """Scripted and seeded histories on the real PoolSet."""
    sizes = [t[0] for t in table]
    mx = max(sizes)
    rnd = random.Random(common.seed() * 104729 + 3)
    edge = sorted(set(BOUNDARY + sizes + [s + 1 for s in sizes] + [0, 1, mx + 2]))
    real = {"kind": "real"}

    def req(ops, what, api="alloc"):
        for o in ops:
            if o["o"] == "alloc":
                o.setdefault("api", api)
        return {"setup": real, "arena": 8 << 20, "probe": "bufs", "ops": ops, "m": {"kind": what, "api": api}}

    for api in ("alloc", "str"):
        # every size 0..max+2: the class is observed through the returned address
        ops, i = [], 0
        for sz in range(0, mx + 3):
            i += 1
            ops += [{"o": "alloc", "i": i, "s": sz}, {"o": "dealloc", "i": i}]
        yield req(ops, "size-sweep-release", api)
        ops = [{"o": "alloc", "i": sz + 1, "s": sz} for sz in range(0, mx + 3)]
        ops += [{"o": "dealloc", "i": sz + 1} for sz in rnd.sample(range(0, mx + 3), mx + 3)]
        yield req(ops, "size-sweep-hold", api)
        # boundary sizes, three buffers each, released in another order, allocated again
        ops, i, ids = [], 0, []
        for sz in edge:
            for _ in range(3):
                i += 1
                ids.append(i)
                ops.append({"o": "alloc", "i": i, "s": sz})
        order = ids[:]
        rnd.shuffle(order)
        ops += [{"o": "dealloc", "i": j} for j in order[: len(order) * 2 // 3]]
        for sz in edge:
            for _ in range(2):
                i += 1
                ops.append({"o": "alloc", "i": i, "s": sz})
        yield req(ops, "boundary", api)
        # exhaustion of the smallest-count class, partial release, refill, full release, refill
        cmin = min(range(len(table)), key=lambda c: (table[c][1], c))
        size, count = table[cmin]
        lo = 0 if cmin == 0 else table[cmin - 1][0] + 1
        ops, i, ids = [], 0, []
        for n in range(count + 3):
            i += 1
            ids.append(i)
            ops.append({"o": "alloc", "i": i, "s": size if n % 2 else lo})
        gone = [j for j in ids if j % 7 == 0] + ids[-2:]
        ops += [{"o": "dealloc", "i": j} for j in gone]
        for n in range(len(gone) + 2):
            i += 1
            ids.append(i)
            ops.append({"o": "alloc", "i": i, "s": size})
        rest = [j for j in ids if j not in set(gone)]
        rnd.shuffle(rest)
        ops += [{"o": "dealloc", "i": j} for j in rest]
        for n in range(5):
            i += 1
            ops.append({"o": "alloc", "i": i, "s": lo})
        yield req(ops, "exhaust-smallest-count-class", api)
        # a whole class free at once while its NEIGHBOURS hold live buffers in their lowest slots: whatever bookkeeping
        # a class keeps per free slot must stay inside the class (every live buffer's pattern is re-read after every step)
        by_count = sorted(range(len(table)), key=lambda c: (table[c][1], c))
        for c in sorted(set(by_count[:2] + [by_count[len(by_count) // 2]])):
            size, count = table[c]
            ops, i, mine, others = [], 0, [], []
            for nb in (c - 1, c + 1):
                if 0 <= nb < len(table):
                    for _ in range(4):
                        i += 1
                        others.append(i)
                        ops.append({"o": "alloc", "i": i, "s": table[nb][0]})
            for n in range(count):
                i += 1
                mine.append(i)
                ops.append({"o": "alloc", "i": i, "s": size})
            ops += [{"o": "dealloc", "i": j} for j in mine]                     # every slot of the class is free now
            for n in range(count):
                i += 1
                ops.append({"o": "alloc", "i": i, "s": size})                   # and handed out again, each once
            ops += [{"o": "dealloc", "i": j} for j in others]
            yield req(ops, "whole-class-free-with-live-neighbours", api)
    # seeded random histories
    for n in range(params["random"]):
        ops, live, i = [], [], 0
        focus = rnd.choice(edge)
        for _ in range(params["random_steps"]):
            if live and (len(live) > 40 or rnd.random() < 0.45):
                j = live.pop(rnd.randrange(len(live)))
                ops.append({"o": "dealloc", "i": j})
            else:
                i += 1
                live.append(i)
                r = rnd.random()
                sz = focus if r < 0.3 else rnd.choice(edge) if r < 0.8 else rnd.randrange(0, mx + 40)
                ops.append({"o": "alloc", "i": i, "s": sz, "api": rnd.choice(["alloc", "str"])})
        yield {"setup": real, "arena": 8 << 20, "probe": "bufs", "ops": ops, "m": {"kind": "random", "api": "mixed"}}


STEP_FIELDS = ("o", "i", "s", "none", "beg", "len", "aoff0", "aoff1", "ctr", "probes", "nseen", "bad")


def to_trace(tid, resp):
    return {"id": tid, "hdr": {"table": resp["hdr"]["table"]}, "steps": [{f: st[f] for f in STEP_FIELDS} for st in resp["steps"]]}


class Judge:
    def __init__(self, v, timeout):
        self.v = v
        self.timeout = timeout
        self.counts = collections.Counter()
        self.kinds = collections.Counter()
        self.steps = collections.Counter()
        self.vstats = {"runs": 0, "states": 0, "wall_s": 0.0}
        self.accepted = self.rejected = 0
        self.samples = []
        self.candidates = []      # accepted long traces, corrupted on purpose by selftest()

    def run(self, requests, chunk=20000):
        buf = []
        for rq in requests:
            buf.append(rq)
            if len(buf) >= chunk:
                self.process(buf)
                buf = []
        if buf:
            self.process(buf)

    def process(self, reqs):
        for i, rq in enumerate(reqs):
            rq["id"] = i
        for profile in ("dev", "fast"):
            resps = memcheck.replay_batched(reqs, "pool", profile=profile, nworkers=8, size=32, timeout=300)
            self.judge(profile, reqs, resps)

    def judge(self, profile, reqs, resps):
        v = self.v
        traces, by_id = [], {}
        for rq in reqs:
            resp = resps.get(rq["id"], {"st": "CRASH", "crash": {"msg": "no answer"}})
            self.counts["replays:" + profile] += 1
            self.kinds[rq["m"]["kind"]] += 1
            if resp.get("st") != "ok":
                crash = resp.get("crash", {})
                v.finding("crash:%s" % (crash.get("sig") or resp.get("st")),
                          "the pool crashed the harness (%s, %s %s) while replaying a history" % (resp.get("st"), crash.get("sig", ""), crash.get("msg", resp.get("panic", ""))),
                          {"profile": profile, "request": rq, "response": resp})
                continue
            for n, st in enumerate(resp["steps"]):
                self.steps[st["o"] + (":none" if st["none"] else "")] += 1
                if "panic" in st:
                    v.finding("panic:%s" % st["o"], "operation %s panicked: %s" % (st["o"], st["panic"]), {"profile": profile, "request": rq, "step": st})
                    resp["steps"] = resp["steps"][:n]      # what a panicked call left behind is not judged
                    break
            traces.append(to_trace(rq["id"], resp))
            by_id[rq["id"]] = (rq, resp)
        if not traces:
            return
        verdicts, vs = memcheck.validate("mem/PoolTrace.tla", "mem/PoolTrace.cfg", traces, "pool_traces", batch=len(traces), workers=6, timeout=self.timeout)
        self.vstats["runs"] += vs["runs"]
        self.vstats["states"] += vs["states"]
        self.vstats["wall_s"] = round(self.vstats["wall_s"] + vs["wall_s"], 1)
        for tid, ver in verdicts.items():
            rq, resp = by_id[tid]
            if ver["verdict"] == "accept":
                self.accepted += 1
                if rq["m"]["kind"] == "random" and len(self.candidates) < 20:
                    self.candidates.append(to_trace(0, resp))
                if len(self.samples) < 3 and len(rq["ops"]) >= 5 and self.accepted % 97 == 1:
                    self.samples.append({"build": profile, "setup": rq["setup"], "ops": rq["ops"][:10],
                                         "recorded_steps": [{f: st[f] for f in ("o", "i", "s", "beg", "len", "none")} for st in resp["steps"][:10]], "verdict": "accept"})
                continue
            self.rejected += 1
            why = ver["why"]
            st = resp["steps"][ver["k"] - 1] if ver["k"] <= len(resp["steps"]) else {}
            if why.startswith("harness-"):
                raise common.ToolError("a trace was rejected for a harness reason (%s) at step %d: %s" % (why, ver["k"], json.dumps(st)[:600]))
            v.finding("%s:%s" % (why, st.get("o")),
                      "the abstract pool specification rejects step %d (%s of %s bytes via %s) of a recorded history: %s [answer: base+%s len %s none=%s, counters of the classes %s; build %s, %s]"
                      % (ver["k"], st.get("o"), st.get("s"), st.get("api"), why, st.get("beg"), st.get("len"), st.get("none"),
                         [c for c in st.get("ctr", []) if c[0] or c[1]][:6], profile, rq["m"]["kind"]),
                      {"profile": profile, "request": rq, "rejected_step": ver["k"], "why": why, "recorded": resp})


def corruptions(trace):
    """Damaged copies of an ACCEPTED trace: (name, expected reason, trace)."""
    out = []
    steps = trace["steps"]
    table = trace["hdr"]["table"]

    def copy():
        return json.loads(json.dumps(trace))

    def pooled(st):
        return any(t[2] <= st["beg"] < t[3] for t in table)

    live = {}
    for n, st in enumerate(steps):
        if st["o"] == "alloc" and pooled(st):
            same = [m for m in live.values() if steps[m]["s"] == st["s"] and steps[m]["beg"] != st["beg"]]
            if same and n > len(steps) // 3:
                t = copy()
                t["steps"][n]["beg"] = steps[same[0]]["beg"]
                out.append(("address-of-a-live-buffer-returned", "slot-handed-out-twice", t))
                break
            live[st["i"]] = n
        elif st["o"] == "dealloc":
            live.pop(st["i"], None)
    allocs = [n for n, st in enumerate(steps) if st["o"] == "alloc" and pooled(st) and st["s"] > 0]
    if allocs:
        n = allocs[len(allocs) // 2]
        t = copy()
        t["steps"][n]["len"] = t["steps"][n]["s"] - 1
        out.append(("returned-length-shortened", "short-buffer", t))
        t = copy()
        c = next(i for i, x in enumerate(table) if x[2] <= steps[n]["beg"] < x[3])
        t["steps"][n]["ctr"][c][0] += 1
        out.append(("live-counter-off-by-one", "counters-do-not-conserve", t))
        t = copy()
        t["steps"][n]["probes"][0][1] = not t["steps"][n]["probes"][0][1]
        out.append(("contains-answer-flipped", "contains-wrong", t))
        t = copy()
        t["steps"][n]["bad"] = [t["steps"][n]["i"]]
        out.append(("pattern-of-a-live-buffer-damaged", "live-buffer-corrupted", t))
    deallocs = [n for n, st in enumerate(steps) if st["o"] == "dealloc" and n + 1 < len(steps)]
    if deallocs:
        t = copy()
        del t["steps"][deallocs[len(deallocs) // 2]]
        out.append(("release-event-dropped", None, t))
    return out


def selftest(candidates, timeout):
    """Trace validation must have teeth: every damaged copy of an accepted trace is rejected."""
    damaged = []
    for c in candidates:
        for name, want, t in corruptions(c):
            t["id"] = len(damaged)
            damaged.append((name, want, t))
    if not damaged:
        raise common.ToolError("no accepted long trace to corrupt")
    verdicts, _ = memcheck.validate("mem/PoolTrace.tla", "mem/PoolTrace.cfg", [t for _, _, t in damaged], "pool_selftest", workers=4, timeout=timeout)
    seen = collections.Counter()
    for name, want, t in damaged:
        ver = verdicts[t["id"]]
        if want is None:
            # a history with one event dropped may still be a history of SOME correct implementation
            # (e.g. the next recorded reset goes further down anyway): most, not all, are rejected
            seen[name + (":rejected" if ver["verdict"] == "reject" else ":still-a-valid-history")] += 1
            continue
        if ver["verdict"] != "reject" or ver["why"] != want:
            raise common.ToolError("damaged trace (%s) was not rejected as expected: %s" % (name, ver))
        seen[name] += 1
    for name in {n for n, w, _ in damaged if w is None}:
        if seen[name + ":rejected"] == 0:
            raise common.ToolError("no trace with a dropped event (%s) was rejected" % name)
    return dict(seen)


def apalache_bonus():
    """Bonus, never the verdict: the one-class refinement's inductive invariant with a symbolic slot
    count (specs/mem/PoolInd.tla), discharged by Apalache under a timeout."""
    import os
    import subprocess
    out = {}
    outdir = os.path.join(common.VERIF, "work", "apalache_pool")
    for name, args in (("Init => IndInv", ["--init=Init", "--inv=IndInv", "--length=0"]),
                       ("IndInv /\\ Next => IndInv'", ["--init=IndInit", "--inv=IndInv", "--length=1"]),
                       ("IndInv => Conservation /\\ Exclusive", ["--init=IndInit", "--inv=Safety", "--length=0"])):
        try:
            p = subprocess.run(["apalache-mc", "check", "--cinit=ConstInit"] + args + ["--out-dir=" + outdir, os.path.join(tlc.SPECS, "mem", "PoolInd.tla")],
                               capture_output=True, text=True, timeout=180)
            out[name] = "discharged" if "The outcome is: NoError" in p.stdout else "not discharged (exit %d)" % p.returncode
        except (subprocess.TimeoutExpired, OSError) as e:
            out[name] = "not run: %s" % type(e).__name__
    return out


def run(tier):
    params = tier_params(tier)
    common.build_harness()
    common.build_harness("fast")
    v = common.Verdict("C12", tier, "model_checking")
    infos = {}
    for profile in ("dev", "fast"):
        r = memcheck.replay([{"id": 0, "info": True}], "pool", profile=profile, nworkers=1)
        if r[0].get("st") != "ok":
            raise common.ToolError("vh pool info failed in profile %s: %s" % (profile, r[0]))
        infos[profile] = r[0]
    table = infos["dev"]["table"]
    if table != infos["fast"]["table"] or not table:
        raise common.ToolError("the two builds report different class tables")
    # information: the implementation's own size -> class function against the rule (the verdict is
    # the size sweep through the real PoolSet, judged by PoolTrace)
    rule_diff = []
    for n, c in enumerate(infos["dev"]["size_class"]):
        fit = [i for i, t in enumerate(table) if t[0] >= n]
        want = min(fit, key=lambda i: table[i][0]) if fit else None
        if want != c:
            rule_diff.append(n)

    design_mutation()
    judge = Judge(v, params["tlc_timeout"])
    rnd = random.Random(common.seed() * 31 + 5)
    models = []
    states = transitions = unique = 0
    for model, nplaces, every in params["models"]:
        hist, r, cover = enumerate_histories(model, params["tlc_timeout"])
        states += r.distinct
        transitions += r.generated
        unique += len(hist)
        places = placements(table, model["CLASSES"], nplaces, rnd)
        models.append({"constants": model, "distinct_states": r.distinct, "transitions": r.generated, "depth": r.depth, "wall_s": round(r.wall, 1),
                       "unique_histories": len(hist), "last_operation_kinds": dict(cover), "placements_in_the_real_table": places,
                       "every_history_at_every_placement": every})
        judge.run(small_requests(hist, model, table, places, every))
    hist, r, cover = enumerate_histories(params["single"], params["tlc_timeout"])
    states += r.distinct
    transitions += r.generated
    unique += len(hist)
    models.append({"constants": params["single"], "distinct_states": r.distinct, "transitions": r.generated, "depth": r.depth,
                   "unique_histories": len(hist), "used_for": "single Pool objects"})
    judge.run(single_requests(hist, params["single"], table))
    judge.run(real_requests(table, params), chunk=400)

    # the self-test needs an accepted trace; when the implementation is so wrong that none is
    # accepted, the rejections above are the verdict and must not be masked by a tool error
    damaged = selftest(judge.candidates, params["tlc_timeout"]) if (judge.candidates or not v.findings) else {"skipped": "no accepted trace (violations reported)"}
    bonus = apalache_bonus() if tier == "thorough" else "thorough tier only"

    v.coverage = {
        "states": states,
        "transitions": transitions,
        "traces_validated_against_impl": judge.accepted,
        "traces_rejected": judge.rejected,
        "evaluations": sum(judge.counts.values()),
        "distinct_nontrivial": unique,
        "rule": "one operation history per transition of the refinement's reachable graph, de-duplicated and with proper prefixes removed "
                "(non-trivial = at least one operation), each placed at several positions of the real class table and replayed in two "
                "builds; plus scripted (size sweep, boundary sizes, exhaustion and refill) and seeded histories on the real 20-class PoolSet",
        "exhaustive": True,
        "models": models,
        "refinement_checked_against_abstract_layer": True,
        "design_error_rejected_by_the_specification": True,
        "class_table_read_from_implementation": table,
        "size_class_function_vs_rule_differences": rule_diff,
        "replays": dict(judge.counts),
        "replays_by_kind": dict(judge.kinds),
        "recorded_steps": dict(judge.steps),
        "trace_validation": judge.vstats,
        "damaged_traces_rejected_by_PoolTrace": damaged,
        "apalache_inductive_invariant_bonus_not_the_verdict": bonus,
        "samples": judge.samples,
    }
    v.assumptions = [
        "slot identity is derived from the returned address and the class-block extents reported by the hook; the extents are cross-checked (blocks disjoint, extent = size x count, every pooled address on a slot boundary of the block of its class)",
        "fresh fallback memory = inside [Arena::offset() before, Arena::offset() after] of the backing arena and disjoint from every earlier fallback buffer",
        "releases follow the API contract (the size passed at allocation, each live buffer released at most once)",
    ]
    return v.finish()


def replay(path):
    """bin/check C12 quick --replay FILE: re-runs the recorded request on the current tree and has
    PoolTrace judge what the pool answers now."""
    d = json.load(open(path))
    rep = d["replay"]
    profile = rep.get("profile", "dev")
    common.build_harness(profile if profile != "dev" else "dev")
    rq = dict(rep["request"])
    rq["id"] = 0
    rq.pop("modes", None)
    resp = memcheck.replay([rq], "pool", profile=profile, nworkers=1)[0]
    if resp.get("st") != "ok":
        print("REPLAY C12: the harness still dies: %s" % json.dumps(resp)[:400])
        return 1
    if any("panic" in st for st in resp["steps"]):
        print("REPLAY C12: an operation still panics: %s" % [st["panic"] for st in resp["steps"] if "panic" in st][:1])
        return 1
    verdicts, _ = memcheck.validate("mem/PoolTrace.tla", "mem/PoolTrace.cfg", [to_trace(0, resp)], "pool_replay", workers=1, timeout=300)
    ver = verdicts[0]
    print("REPLAY C12: %s %s" % (ver["verdict"], ("at step %d: %s" % (ver["k"], ver["why"])) if ver["verdict"] != "accept" else ""))
    return 0 if ver["verdict"] == "accept" else 1
