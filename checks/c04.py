"""C04 - names resolve lexically; functions are visible throughout their block.

Spec: specs/lang/LangStatic.tla (Resolve: the definition of lexical resolution) + LangDyn.tla
(static-link environments).  TLC enumerates every program of the `scope` profile (LangGen under
MCGenScope: two names, one function, nested blocks, same-block re-make, shadowing, forward calls,
captured reads and writes, literals with two placeholders), of the `deaddef` profile (definitions after a
`return`, still visible throughout their block) and of the `fn` profile (two one-parameter functions, recursion with
several live activations), and of the `namecases` family (GenNameCases.tla: a same-named function and variable of another
block live on the call chain while a recursive / mutually recursive / flat function runs) and runs each on the reference machine.  Binding (R): each program runs
through the real pipeline with event hooks on; the complete event trace - every assignment
identified by the DECLARATION SITE it lands in, every call by the definition it reaches, and the
environment projection (all live variables, by site) after every statement - must equal the
reference trace."""
import common
import langengine as le


def profiles(tier):
    dead = ("MCGenDeadDef", {"MAXSTMTS": 5, "MAXDEPTH": 3, "EVENTS": 2})
    place = ("MCGenPlace", {"MAXSTMTS": 5, "MAXDEPTH": 3, "EVENTS": 2})
    if tier == "quick":
        return [("MCGenScope", {"MAXSTMTS": 4, "MAXDEPTH": 3, "EVENTS": 2}), ("MCGenFn", {"MAXSTMTS": 4, "MAXDEPTH": 3, "EVENTS": 2}), dead, place]
    # (scope at 5 statements no longer finishes within an hour since the profile got interp2 and re-make: depth 4 instead)
    return [("MCGenScope", {"MAXSTMTS": 4, "MAXDEPTH": 4, "EVENTS": 2}), ("MCGenFn", {"MAXSTMTS": 5, "MAXDEPTH": 3, "EVENTS": 2}), dead, place]


def run(tier):
    common.build_harness()
    v = common.Verdict("C04", tier, "model_checking")
    tally = le.Tally()
    # (arraycases: captured arrays mutated through index paths while a same-named variable is live on the call chain -
    # which DECLARATION an indexed write lands in is this property's question too)
    fam = {"GenNameCases": "lang/GenNameCases.cfg", "GenArrCases": "lang/GenArrCases.cfg"}
    for module, env in profiles(tier) + [("GenNameCases", {"EVENTS": 2}), ("GenArrCases", {})]:
        r = le.generate(module, env=env, timeout=3600, cfg=fam.get(module, "lang/MCGen.cfg"), coverage=module not in fam)
        tally.add_tlc(module, r)
        judged = le.replay(r.records, modes=["nn", "fn", "fp"], ev=3, compare_events=True)
        tally.add(judged)
        for (c, src, maps, classes, resps) in judged:
            for (role, cls, mode, det) in le.attribute(classes):
                if role == "own":
                    v.finding("%s:%s" % (cls, le.core_key(src)), "%s in configuration %s: %s\n%s" % (cls, mode, det, src),
                              {"source": src, "mode": mode, "reference": {"st": c["st"], "out": c["out"]}, "detail": det})
                else:
                    tally.routed[role + ":" + cls] += 1
    v.coverage = tally.coverage(exhaustive=True)
    v.assumptions = ["numbers are exact quarters; programs whose reference run is Unspecified (e.g. a hoisted function reading a variable before its `make` ran) or out of fuel are run for crash-freedom only",
                     "crashes are reported by C06, frame-arena-only deviations by C02, plan-only deviations by C03"]
    return v.finish()


def replay(path):
    import replaytool
    return replaytool.replay("C04", path)
