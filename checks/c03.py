"""C03 - analysis-driven pruning never changes what a program does.

Spec: the reference machine (LangDyn) executes every statement; a plan is a skip set (cfg.skip /
cfg.skipf in LangDyn).  TLC enumerates every program of the `capture` profile (a function that
reads / conditionally writes a captured variable, overwrites that are dead unless the callee
reads them, code after `return`), the `captureif` profile (stores and the calls that read them in different
basic blocks), the `trap` profile (unread declarations whose right-hand side
can fail at run time) the `scope` and `deaddef` profiles and the `capturecases` family (callee effects on a variable
owned by the script or an enclosing function, called from a dead statement in the same / another /
a nested function, plain, under a condition, in a loop), with the reference result of each.
Binding: every program runs through the real pipeline with the frame arena on, WITHOUT and WITH
the optimisation plan the real resolver produced for it.
  - plan run vs reference (outputs, ending) when the reference is an oracle;
  - plan run vs no-plan run (the property's own wording) for EVERY program that ends in a reported
    way, also where the reference is Unspecified (e.g. a method on a dynamically typed null);
  - no statement the resolver reports as unreachable is ever executed in the no-plan run
    (statement hooks), and every statement the plan run skipped is counted: a program is
    non-trivial only if the plan actually skipped something."""
import collections

import common
import langcheck
import langengine as le
import nsast
import rndgen
import runner


def profiles(tier):
    q = tier == "quick"
    return [("MCGenCap", {"MAXSTMTS": 4 if q else 5, "MAXDEPTH": 2, "EVENTS": 0}),
            ("MCGenCapIf", {"MAXSTMTS": 5, "MAXDEPTH": 3, "EVENTS": 0}),
            ("MCGenTrap", {"MAXSTMTS": 3 if q else 4, "MAXDEPTH": 2, "EVENTS": 0, "TRAPVAR": "0"}),
            ("MCGenTrap", {"MAXSTMTS": 3, "MAXDEPTH": 3, "EVENTS": 0, "TRAPVAR": "1"}),
            ("MCGenDeadDef", {"MAXSTMTS": 5, "MAXDEPTH": 3, "EVENTS": 0}),
            ("MCGenScope", {"MAXSTMTS": 4, "MAXDEPTH": 3 if q else 4, "EVENTS": 0})]


def run(tier):
    common.build_harness()
    v = common.Verdict("C03", tier, "model_checking")
    tally = le.Tally()
    unreach_msg = langcheck.info()["semantic"]["unreachable"]
    skipped_programs = 0
    skipped_stmts = 0
    unreachable_marked = 0
    unused_checked = 0
    unused_msg = langcheck.info()["semantic"]["unused-assignment"]
    families = ("GenCapCases", "GenLoopCases", "GenDyn")
    # GenDyn with DEAD=1: every cell of the site x type x route table as the initialiser of a variable nobody reads -
    # a run-time failure must not disappear with the dead store
    for module, env in profiles(tier) + [("GenCapCases", {}), ("GenLoopCases", {}), ("GenDyn", {"DEAD": "1"})]:
        r = le.generate(module, env=env, timeout=2400, cfg="lang/%s.cfg" % module if module in families else "lang/MCGen.cfg",
                        coverage=module not in families)
        tally.add_tlc(module, r)
        judged = le.replay(r.records, modes=["nn", "fn", "fp"], ev=4, plan=True)
        tally.add(judged)
        for (c, src, maps, classes, resps) in judged:
            for (role, cls, mode, det) in le.attribute(classes):
                if role == "C03":
                    v.finding("%s:%s" % (cls, le.core_key(src)), "plan run deviates from the reference (%s): %s\n%s" % (cls, det, src),
                              {"source": src, "mode": mode, "reference": {"st": c["st"], "out": c["out"]}, "detail": det})
                else:
                    tally.routed[role + ":" + cls] += 1
            fn, fp = resps.get("fn", {}), resps.get("fp", {})
            reported = lambda x: x.get("st") not in (None, "PANIC", "CRASH", "HANG", "parse_error", "static_error")
            if reported(fn) and reported(fp):
                # runs that end in resource exhaustion are not compared (property text)
                so = langcheck.info()["runtime"]["Stack overflow"]
                if fn["st"] != so and fp["st"] != so:
                    a = (fn["st"], [nsast.impl_value(x) for x in fn.get("out", [])])
                    b = (fp["st"], [nsast.impl_value(x) for x in fp.get("out", [])])
                    if a != b:
                        v.finding("planvsfull:%s" % le.core_key(src), "with the plan: %s; executing every statement: %s\n%s" % (b, a, src),
                                  {"source": src, "with_plan": b, "without_plan": a})
                executed = {e["at"] for e in fn.get("events", []) if e.get("ev") == "stmt" and e.get("what") == "exec"}
                marked = {d["span"][0] for d in fn.get("diags", []) if d["msg"] == unreach_msg and d["sev"] == "warning"}
                unreachable_marked += len(marked)
                if executed & marked:
                    v.finding("unreachable-executed:%s" % le.core_key(src), "a statement reported as unreachable executed (offsets %s)\n%s" % (sorted(executed & marked), src),
                              {"source": src, "offsets": sorted(executed & marked)})
                # "a value reported as never read is never observed": the reference machine records def-use pairs
                # <<writing statement, reading statement>>; an `Unused assignment` warning on W is wrong if the value W
                # wrote was read by a statement that is not itself reported unused (whose read could be dead with it)
                if "used" in c:
                    inv = {off: sid for sid, off in maps["stmt"].items()}
                    flagged = {inv.get(d["span"][0]) for d in fn.get("diags", []) if d["msg"] == unused_msg and d["sev"] == "warning"}
                    flagged.discard(None)
                    unused_checked += len(flagged)
                    pairs = [tuple(x) for x in nsast.seq(c["used"])]
                    for w in flagged:
                        readers = sorted({r for (ww, r) in pairs if ww == w and r not in flagged})
                        if readers:
                            v.finding("unused-observed:%s" % le.core_key(src), "the value assigned by the statement at offset %s is reported as never read, but the reference run reads it (statement(s) %s)\n%s"
                                      % (maps["stmt"][w], readers, src), {"source": src, "statement_offset": maps["stmt"][w], "readers": readers})
                sk = [e for e in fp.get("events", []) if e.get("ev") == "stmt" and e.get("what") == "skip"]
                pl = fp.get("plan") or {}
                if sk or pl.get("funs"):
                    skipped_programs += 1
                    skipped_stmts += len(sk)
    # seeded random larger programs: plan run vs full run (differential, the property's own wording)
    n = 1000 if tier == "quick" else 10000
    base = common.seed() * 15485863
    srcs = [nsast.render(rndgen.program(base + i))[0] for i in range(n)]
    rres = runner.run_requests([{"id": i, "src": s, "modes": ["fn", "fp"], "ev": 4, "plan": True} for i, s in enumerate(srcs)], mode="prog", timeout=30)
    so = langcheck.info()["runtime"]["Stack overflow"]
    random_compared = 0
    for i, src in enumerate(srcs):
        fn, fp = rres.get(i, {}).get("fn", {}), rres.get(i, {}).get("fp", {})
        bad = (None, "PANIC", "CRASH", "HANG", "parse_error", "static_error", so)
        if fn.get("st") in bad or fp.get("st") in bad:
            if fn.get("st") not in bad and fp.get("st") in ("PANIC", "CRASH"):
                v.finding("plan-crash:%s" % le.core_key(src), "crash only with the plan: %s\n%s" % (fp.get("panic") or fp.get("crash"), src), {"source": src})
            continue
        random_compared += 1
        a = (fn["st"], [nsast.impl_value(x) for x in fn.get("out", [])])
        b = (fp["st"], [nsast.impl_value(x) for x in fp.get("out", [])])
        if a != b:
            v.finding("planvsfull:%s" % le.core_key(src), "with the plan: %s; executing every statement: %s\n%s" % (b, a, src), {"source": src, "with_plan": b, "without_plan": a})
        if any(e.get("ev") == "stmt" and e.get("what") == "skip" for e in fp.get("events", [])):
            skipped_programs += 1
    cov = tally.coverage(exhaustive=True)
    cov["random_programs_compared_plan_vs_full"] = random_compared
    cov["programs_where_the_plan_skipped_something"] = skipped_programs
    cov["statements_skipped"] = skipped_stmts
    cov["unreachable_warnings_checked"] = unreachable_marked
    cov["unused_assignment_warnings_checked_against_reference_def_use"] = unused_checked
    cov["distinct_nontrivial"] = skipped_programs
    cov["rule"] += "; for C03 a program is non-trivial if the plan run actually skipped a statement or a definition"
    v.coverage = cov
    v.assumptions = ["runs ending in stack exhaustion are not compared", "deviations without the plan belong to C01/C02, crashes to C06"]
    return v.finish()


def replay(path):
    import replaytool
    return replaytool.replay("C03", path)
