"""C02 - memory reclamation is invisible.

Spec: the reference machine (LangDyn) has no memory at all - values are mathematical - so it is
the "reclamation switched off" semantics by construction; specs/mem/Reclaim.tla models the
runtime's ownership protocol (pool slots, frame watermark, promote / relocate / release) and TLC
checks NoStale on it.
Binding: TLC enumerates every program of the `alias`, `memfn`, `memarr` and `str` profiles (strings through
functions that return their parameter / a local / a fresh concatenation, `x add f()` with f
reassigning x, arrays of strings with push / indexed store / pop / copy, loops with body-locals,
shadowing blocks) and the reference result of each.  Every program runs in the debug build (freed
frame memory is poisoned with 0xDD, fresh with 0xCD) WITHOUT frame arena (nothing is ever reset or
recycled) and WITH it; a program whose base run equals the reference but whose frame-arena run
differs - other values, another ending, an abort - is a violation.  Event traces (every assigned
and returned value) are compared too, so a stale value is seen when it is stored, not only when it
is printed."""
import common
import langengine as le


def profiles(tier):
    q = tier == "quick"
    return [("MCGenAlias", {"MAXSTMTS": 4, "MAXDEPTH": 2, "EVENTS": 1}),
            ("MCGenMemFn", {"MAXSTMTS": 3 if q else 4, "MAXDEPTH": 3, "EVENTS": 1}),
            ("MCGenMemArr", {"MAXSTMTS": 3 if q else 4, "MAXDEPTH": 3, "EVENTS": 1}),
            ("MCGenStr", {"MAXSTMTS": 3 if q else 4, "MAXDEPTH": 3, "EVENTS": 1})]


def run(tier):
    common.build_harness()
    v = common.Verdict("C02", tier, "model_checking")
    tally = le.Tally()
    for module, env in profiles(tier):
        r = le.generate(module, env=env, timeout=2400)
        tally.add_tlc(module, r)
        judged = le.replay(r.records, modes=["nn", "fn"], ev=1, compare_events=True)
        tally.add(judged)
        for (c, src, maps, classes, resps) in judged:
            for (role, cls, mode, det) in le.attribute(classes):
                if role == "C02":
                    v.finding("%s:%s" % (cls, le.core_key(src)), "frame-arena configuration deviates (%s): %s\n%s" % (cls, det, src),
                              {"source": src, "mode": mode, "reference": {"st": c["st"], "out": c["out"]}, "detail": det})
                else:
                    tally.routed[role + ":" + cls] += 1
    v.coverage = tally.coverage(exhaustive=True)
    v.assumptions = ["the debug build's poisoning makes a stale read visible as different bytes; a stale read of bytes that happen to be unchanged is caught only through the recycled-slot cases the profiles construct (overwrite, then allocate a same-size string)",
                     "deviations already present without the frame arena belong to C01, crashes there to C06"]
    return v.finish()
