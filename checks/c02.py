"""C02 - memory reclamation is invisible.

Spec: the reference machine (LangDyn) has no memory at all - values are mathematical - so it is
the "reclamation switched off" semantics by construction; specs/mem/Reclaim.tla models the
runtime's ownership protocol (pool slots, frame watermark, promote / relocate / release) and TLC
checks NoStale on it.
Binding: TLC enumerates every program of the `alias`, `memfn`, `memarr` and `str` profiles (strings through
functions that return their parameter / a local / a fresh concatenation, `x add f()` with f
reassigning x, arrays of strings with push / indexed store / pop / copy, loops with body-locals,
shadowing blocks), of the `aliascases` family (a computed string read as the first operand of every
string operator, method with arguments, call, array literal, while a LATER operand calls a function that
re-assigns it) and of `arraycases`, with the reference result of each.  Every program runs in the debug build (freed
frame memory is poisoned with 0xDD, fresh with 0xCD) WITHOUT frame arena (nothing is ever reset or
recycled) and WITH it; a program whose base run equals the reference but whose frame-arena run
differs - other values, another ending, an abort - is a violation.  Event traces (every assigned
and returned value) are compared too, so a stale value is seen when it is stored, not only when it
is printed."""
import collections

import common
import langengine as le
import rndgen
import tlc
import tracecheck


def profiles(tier):
    q = tier == "quick"
    return [("MCGenAlias", {"MAXSTMTS": 4, "MAXDEPTH": 2, "EVENTS": 1}),
            ("MCGenMemFn", {"MAXSTMTS": 3 if q else 4, "MAXDEPTH": 3, "EVENTS": 1}),
            ("MCGenMemArr", {"MAXSTMTS": 3 if q else 4, "MAXDEPTH": 3, "EVENTS": 1}),
            ("MCGenStr", {"MAXSTMTS": 3 if q else 4, "MAXDEPTH": 3, "EVENTS": 1}),
            # the same routes with strings longer than any pool size class (arena-fallback storage)
            ("MCGenMemRet", {"MAXSTMTS": 3, "MAXDEPTH": 2, "EVENTS": 1, "LONGSTR": "0"}),
            ("MCGenMemRet", {"MAXSTMTS": 3, "MAXDEPTH": 2, "EVENTS": 1, "LONGSTR": "1"}),
            ("MCGenMemFn", {"MAXSTMTS": 3 if q else 4, "MAXDEPTH": 3, "EVENTS": 1, "LONGSTR": "1"}),
            ("MCGenAlias", {"MAXSTMTS": 4, "MAXDEPTH": 2, "EVENTS": 1, "LONGSTR": "1"})]


def run(tier):
    common.build_harness()
    v = common.Verdict("C02", tier, "model_checking")
    tally = le.Tally()
    # the ownership protocol on the model: the current discipline satisfies NoStale for every
    # sequence of abstract statements; the discipline the repository had is refuted (the model discriminates)
    mc = tlc.run("mem/Reclaim.tla", "mem/Reclaim.cfg", workers=6, timeout=1200)
    if mc.rc != 0 or mc.timed_out:
        raise common.ToolError("Reclaim.tla: NoStale does not hold for the modelled discipline: %s" % mc.errors[:3])
    dead = [a for a, (d, t) in mc.coverage.items() if t == 0]
    if dead:
        raise common.ToolError("Reclaim.tla vacuous: actions never taken %s" % dead)
    old = tlc.run("mem/Reclaim.tla", "mem/ReclaimOld.cfg", workers=2, timeout=600, coverage=False)
    if old.rc != 12:
        raise common.ToolError("Reclaim.tla does not refute the alias-on-read / release-before-promote discipline (model not discriminating)")
    tally.add_tlc("Reclaim(model of the ownership protocol)", mc)
    decl = {"GenArrCases": "lang/GenArrCases.cfg", "GenAliasCases": "lang/GenAliasCases.cfg"}
    # string lengths at the edges of the pool's size classes (the table is read from the implementation):
    # the largest pooled size - 1 / exactly / + 1 (first size that is NOT recycled) and one inner class edge.
    # GenAliasCases' computed strings are tail + 4 bytes long.
    import memcheck
    info = memcheck.replay([{"id": 0, "info": True}], "pool", profile="dev", nworkers=1)[0]
    if info.get("st") != "ok" or not info.get("table"):
        raise common.ToolError("vh pool info failed: %s" % str(info)[:200])
    sizes = sorted(t[0] for t in info["table"])
    edges = sorted({sizes[-1] - 1, sizes[-1], sizes[-1] + 1, sizes[len(sizes) // 2], sizes[len(sizes) // 2] + 1} if tier == "quick"
                   else {x + d for x in sizes for d in (0, 1)} | {sizes[-1] - 1})
    boundary = [("GenAliasCases", {"LONGSTR": str(n - 4)}) for n in edges if n - 4 >= 2]
    for module, env in profiles(tier) + [("GenArrCases", {}), ("GenAliasCases", {"LONGSTR": "0"}), ("GenAliasCases", {"LONGSTR": "1"})] + boundary:
        r = le.generate(module, env=env, timeout=2400, cfg=decl.get(module, "lang/MCGen.cfg"), coverage=module not in decl)
        tally.add_tlc(module + (":tail" + env["LONGSTR"] if "LONGSTR" in env else ""), r)
        judged = le.replay(r.records, modes=["nn", "fn"], ev=1, compare_events=True)
        tally.add(judged)
        for (c, src, maps, classes, resps) in judged:
            for (role, cls, mode, det) in le.attribute(classes):
                if role == "C02":
                    v.finding("%s:%s" % (cls, le.core_key(src)), "frame-arena configuration deviates (%s): %s\n%s" % (cls, det, src),
                              {"source": src, "mode": mode, "reference": {"st": c["st"], "out": c["out"]}, "detail": det})
                else:
                    tally.routed[role + ":" + cls] += 1
    # V direction: seeded random larger programs, traces recorded WITH the frame arena, validated by
    # TLC against the reference machine; a trace rejected here while the same program's base
    # (no frame arena) run is accepted is a reclamation deviation.
    n = 800 if tier == "quick" else 8000
    base = common.seed() * 104729
    progs = [rndgen.program(base + i) for i in range(n)]
    rec_fn = tracecheck.record(progs, mode="fn", ev=3)
    out_fn, skipped_fn, r_fn = tracecheck.validate(rec_fn, env=True, timeout=2400, tag="c02fn")
    suspects = [(rec, vd, case) for rec, vd, case in out_fn if vd["verdict"] in ("reject", "missing")]
    crashed = [rec for rec in rec_fn if rec["resp"].get("st") in ("CRASH", "PANIC")]
    recheck = [rec["body"] for rec, _, _ in suspects] + [rec["body"] for rec in crashed]
    base_ok = {}
    if recheck:
        rec_nn = tracecheck.record(recheck, mode="nn", ev=3)
        out_nn, _, _ = tracecheck.validate([r for r in rec_nn if r["resp"].get("st") not in ("CRASH", "PANIC")], env=True, timeout=1200, tag="c02nn") if rec_nn else ([], None, None)
        for rec, vd, case in out_nn:
            base_ok[rec["src"]] = vd["verdict"] in ("accept", "skip")
        for r in rec_nn:
            if r["resp"].get("st") in ("CRASH", "PANIC"):
                base_ok[r["src"]] = False
    for rec, vd, case in suspects:
        if base_ok.get(rec["src"]):
            l = vd.get("l", 1)
            ev = case["events"]
            v.finding("trace:%s" % le.core_key(rec["src"]), "with the frame arena the recorded trace is rejected at event %d (reference expected %s, recorded %s); without it the trace is accepted\n%s"
                      % (l, vd.get("expected"), ev[l - 1] if 0 < l <= len(ev) else "<end>", rec["src"]), {"source": rec["src"], "verdict": vd})
    for rec in crashed:
        if base_ok.get(rec["src"]):
            v.finding("crash-random:%s" % le.core_key(rec["src"]), "crash only with the frame arena: %s\n%s" % (rec["resp"].get("panic") or rec["resp"].get("crash"), rec["src"]), {"source": rec["src"]})
    v.coverage = tally.coverage(exhaustive=True)
    v.coverage["trace_validation_with_frame_arena"] = {"random_programs": n, "verdicts": dict(collections.Counter(vd["verdict"] for _, vd, _ in out_fn)), "not_validated": dict(skipped_fn)}
    v.coverage["traces_validated_against_impl"] += sum(1 for _, vd, _ in out_fn if vd["verdict"] == "accept")
    v.assumptions = ["the debug build's poisoning makes a stale read visible as different bytes; a stale read of bytes that happen to be unchanged is caught only through the recycled-slot cases the profiles construct (overwrite, then allocate a same-size string)",
                     "deviations already present without the frame arena belong to C01, crashes there to C06"]
    return v.finish()


def replay(path):
    import replaytool
    return replaytool.replay("C02", path)
