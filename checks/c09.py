"""C09 - static rules are enforced exactly: ill-formed rejected, well-formed accepted.

Spec: specs/lang/LangStatic.tla - Check(program) = the set of categories of static rules the
program breaks (scope stacks per block and function body, per-block function tables, loop context
RESET at function boundaries, function context, parameter sets, built-in names, type rules for
operands whose type is a literal's or a declared variable's).
TLC enumerates the `static` profile: every well-formed program of a scope-like grammar (blocks,
if, loops, functions, functions inside loops, loops inside functions, forward calls) and every
SINGLE violation of one rule injected at every position and nesting context of those programs;
the invariant StaticAgrees checks, on the model, that Check's verdict is exactly what was injected.
Binding (R): each program goes through the real parser + resolver.
   Check = {}   <=>  no error-level diagnostic
   c in Check   ==>  rejected, and some error diagnostic belongs to category c
Diagnostics are mapped to categories through the crate's own SemanticError / SyntaxError names
(read from the implementation at run time), so rewording a message is not an alarm."""
import collections

import common
import langcheck
import langengine as le
import nsast
import runner


def category_map():
    i = langcheck.info()
    sem, syn = i["semantic"], i["syntax"]
    return {
        "undeclared-variable": {sem["undeclared"]},
        "assign-undeclared": {sem["assign-undeclared"]},
        "undeclared-function": {sem["undeclared"]},
        "arity": {sem["arity"]},
        "break-outside-loop": {sem["unreachable"]},
        "continue-outside-loop": {sem["unreachable"]},
        "return-outside-function": {sem["unreachable"]},
        "duplicate-function": {sem["duplicate"]},
        "duplicate-parameter": {sem["duplicate"]},
        "reserved-name": {sem["reserved"], syn["reserved"]},
        "type": {sem["type"]},
        "method": {sem["undeclared"], sem["type"]},
    }


def profiles(tier):
    q = tier == "quick"
    return [("MCGenStatic", {"MAXSTMTS": 3 if q else 4, "MAXDEPTH": 4, "ARITY": "0"}),
            ("MCGenStatic", {"MAXSTMTS": 3 if q else 4, "MAXDEPTH": 4, "ARITY": "1"})]


def run(tier):
    common.build_harness()
    v = common.Verdict("C09", tier, "model_checking")
    tally = le.Tally()
    cmap = category_map()
    by_rule = collections.Counter()
    agree = 0
    for module, env in profiles(tier):
        r = le.generate(module, env=env, cfg="lang/MCGenStatic.cfg", timeout=2400)
        tally.add_tlc(module + ":arity" + env["ARITY"], r)
        reqs, meta = langcheck.requests_for(r.records, ["nn"])
        res = runner.run_requests(reqs)
        for rid, (c, src, maps) in meta.items():
            tally.programs += 1
            resp = res.get(rid, {}).get("nn", {})
            expected = set(nsast.seq(c["static"]))
            by_rule[c["inj"]] += 1
            st = resp.get("st")
            errors = [d["msg"] for d in resp.get("diags", []) if d["sev"] == "error"]
            rejected = st in ("parse_error", "static_error")
            if st in ("PANIC", "CRASH", "HANG") :
                if not expected:
                    tally.routed["C06:crash"] += 1
                    continue
                # a program that must be rejected reached the runtime and crashed there: it was accepted
                rejected = False
            if not expected:
                if rejected:
                    v.finding("wellformed-rejected:" + le.core_key(src), "a well-formed program is rejected: %s\n%s" % (errors[:3], src), {"source": src, "errors": errors})
                else:
                    agree += 1
                continue
            if not rejected:
                v.finding("accepted:" + "+".join(sorted(expected)), "a program that breaks the rule %s is accepted (and ends with: %s)\n%s" % (sorted(expected), st, src),
                          {"source": src, "expected": sorted(expected), "ended": st})
                continue
            missing = [cat for cat in expected if not (cmap.get(cat, set()) & set(errors))]
            if missing:
                v.finding("category:" + "+".join(sorted(missing)), "rejected, but no diagnostic names the broken rule %s (got %s)\n%s" % (missing, errors[:4], src),
                          {"source": src, "expected": sorted(expected), "errors": errors})
            else:
                agree += 1
            if len(tally.samples) < 3 and expected:
                tally.samples.append({"source": src, "rule_broken": sorted(expected), "diagnostics": errors[:3]})
    cov = tally.coverage(exhaustive=True)
    cov["programs_by_injected_rule"] = dict(by_rule)
    cov["verdicts_agreeing"] = agree
    cov["traces_validated_against_impl"] = agree
    cov["distinct_nontrivial"] = agree
    cov["oracle_programs"] = agree
    cov["rule"] = "every program of the static profile: well-formed ones and each with ONE injected rule violation; all are non-trivial (each has a verdict)"
    v.coverage = cov
    v.assumptions = ["type rules: only operands whose type is statically known (literals, variables at their declared type); borderline mixes such as `1 and null` are not generated",
                     "keywords used as names are not generated (the printer cannot write them as identifiers); built-in names are"]
    return v.finish()


def replay(path):
    import replaytool
    return replaytool.replay("C09", path)
