"""C17 - read_line delivers successive input lines, whatever the chunking.

Spec: specs/io/ReadLine.tla.  The ABSTRACT layer is a function of the input text alone: the k-th
call returns the k-th LF-terminated line, then the unterminated rest, then empty strings.  The
implementation-shaped layer (writer chunks, a kernel that delivers any non-empty prefix of what
is available, a doubling reader buffer, an unread tail kept between calls) is checked by TLC to
refine it for every input over {a, LF, e-acute} up to MAXLEN bytes and every chunking; the same
model with the tail dropped or without buffer growth must FAIL (sanity of the model).

Binding (R): TLC prints one record per (input, writer chunking) with the lines the abstract layer
demands.  Each pair is fed to the REAL `naija` binary (built from /repo's working tree) running an
echo script through a pipe; the writer sends the next chunk only after ioctl(FIONREAD) on the
pipe reports 0, so every chunk boundary is exactly a read(2) boundary - no sleeping for order.
Oracle: the printed lines equal the model's.  Real sizes (lines of 8191/8192/8193/20000 bytes,
multi-byte characters straddling the 8 KiB buffer boundary, no final newline, stdin from a file)
use the same definition of Expected (cross-checked against every TLC record)."""
import array
import concurrent.futures
import fcntl
import os
import random
import subprocess
import tempfile
import termios
import threading
import time

import common
import tlc

WORK = os.path.join(common.VERIF, "work")
NAIJA = None
BUF = 8192     # the implementation's initial buffer; only used to aim the real-size cases


def build_naija():
    """The shipped binary (no hooks) built from the repository's current working tree."""
    global NAIJA
    NAIJA = common.build_naija()
    return NAIJA


def script_text(k):
    out = []
    for i in range(k):
        out.append('make l%d get read_line("")\nshout("[{l%d}]")\n' % (i, i))
    return "".join(out)


_scripts = {}
_scripts_lock = threading.Lock()


def script_path(k):
    with _scripts_lock:
        if k not in _scripts:
            d = os.path.join(WORK, "c17")
            os.makedirs(d, exist_ok=True)
            path = os.path.join(d, "echo_%d_%d.ns" % (k, os.getpid()))
            with open(path, "w") as f:
                f.write(script_text(k))
            _scripts[k] = path
        return _scripts[k]


def expected_lines(data, k):
    """The abstract layer's Expected, for inputs too large for TLC (cross-checked on all TLC records)."""
    parts = data.split(b"\n")
    lines = parts[:-1] + ([parts[-1]] if parts[-1] else [])
    return [lines[i] if i < len(lines) else b"" for i in range(k)]


def pending(fd):
    buf = array.array("i", [0])
    fcntl.ioctl(fd, termios.FIONREAD, buf)
    return buf[0]


def feed(k, chunks, from_file=False, timeout=30.0):
    """Runs the echo script with k calls, feeding `chunks` one read(2) at a time.  Returns
    (status, [lines] or None, detail)."""
    out = tempfile.TemporaryFile()
    err = tempfile.TemporaryFile()
    deadline = time.time() + timeout
    if from_file:
        src = tempfile.TemporaryFile()
        src.write(b"".join(chunks))
        src.seek(0)
        p = subprocess.Popen([NAIJA, script_path(k)], stdin=src, stdout=out, stderr=err)
        src.close()
    else:
        r, w = os.pipe()
        p = subprocess.Popen([NAIJA, script_path(k)], stdin=r, stdout=out, stderr=err)
        os.close(r)
        try:
            for ch in chunks:
                try:
                    os.write(w, ch)
                except BrokenPipeError:
                    break
                # wait until the reader has TAKEN the chunk (or is gone): a condition, not a delay
                while pending(w) != 0 and p.poll() is None:
                    if time.time() > deadline:
                        p.kill()
                        p.wait()
                        return "HANG", None, "chunk not consumed"
                    time.sleep(0.0002)
        finally:
            os.close(w)
    try:
        p.wait(timeout=max(1.0, deadline - time.time()))
    except subprocess.TimeoutExpired:
        p.kill()
        p.wait()
        return "HANG", None, "no exit after end of input"
    out.seek(0)
    err.seek(0)
    o, e = out.read(), err.read()
    out.close()
    err.close()
    if p.returncode != 0:
        return "CRASH", None, "exit status %s: %s" % (p.returncode, e.decode(errors="replace")[-300:])
    parts = o.split(b"\n")
    if parts[-1] != b"" or any(not (x.startswith(b"[") and x.endswith(b"]")) for x in parts[:-1]):
        return "GARBLED", None, repr(o[:200])
    return "ok", [x[1:-1] for x in parts[:-1]], ""


def show(b, limit=40):
    s = b.decode("utf-8", errors="backslashreplace").replace("\n", "\\n")
    return s if len(s) <= limit else "%s...(%d bytes)" % (s[:limit], len(b))


def chunk_class(chunks):
    """Abstract identity of a failing case (known-finding key): does some chunk carry bytes beyond a line end?"""
    multi = any(b"\n" in c[:-1] for c in chunks)
    return "chunk-spans-line-end" if multi else "chunk-within-line"


def real_size_cases(rng, tier):
    """(name, data, [chunkings], from_file)"""
    A = b"a"
    E = "é".encode()
    cases = []
    for n in (BUF - 1, BUF, BUF + 1, 20000):
        cases.append(("line-%d" % n, A * n + b"\nnext\n"))
        cases.append(("line-%d-no-final-newline" % n, b"x\n" + A * n))
    cases.append(("straddle-first", A * (BUF - 1) + E + b"zz\nq\n"))            # e-acute on bytes 8192|8193
    cases.append(("straddle-double", A * (2 * BUF - 1) + E + b"\n" + E * 3))    # on the doubled boundary, no final newline
    cases.append(("multibyte-long", E * 6000 + b"\n" + E * 5000 + b"\n\n" + E))
    cases.append(("many-lines", b"".join(b"%d\n" % i for i in range(40))))
    cases.append(("three-long", A * 9000 + b"\n" + b"b" * 17000 + b"\n" + b"c" * 33000))
    out = []
    for name, data in cases:
        n = len(data)
        chunkings = [[data]]                                                    # everything at once
        chunkings.append([data[i:i + BUF] for i in range(0, n, BUF)])            # buffer-sized pieces
        chunkings.append([data[:BUF - 1], data[BUF - 1:BUF], data[BUF:]])        # cut just before / after the boundary
        for _ in range(2 if tier == "quick" else 8):
            cuts = sorted(set(rng.randrange(1, n) for _ in range(rng.randrange(1, 9))))
            chunkings.append([data[a:b] for a, b in zip([0] + cuts, cuts + [n])])
        if tier != "quick" or name.startswith("straddle"):
            near = [c for c in range(BUF - 3, BUF + 4) if 0 < c < n]
            chunkings.append([data[a:b] for a, b in zip([0] + near, near + [n])])  # byte by byte around the boundary
        chunkings = [[c for c in ch if c] for ch in chunkings]
        out.append((name, data, chunkings, False))
        out.append((name + ":file", data, [[data]], True))
    return out


def run(tier):
    t0 = time.time()
    build_naija()
    v = common.Verdict("C17", tier, "model_checking")
    rng = random.Random(common.seed())
    maxlen = 6 if tier == "quick" else 8
    env = {"MAXLEN": maxlen, "BUFCAP": 4, "KEEPTAIL": 1, "GROW": 1}
    r = tlc.run("io/ReadLine.tla", "io/ReadLine.cfg", workers=6, env=env, timeout=900)
    if r.timed_out or r.rc != 0:
        raise common.ToolError("ReadLine model: rc=%s %s\n%s" % (r.rc, r.errors[:3], "\n".join(r.tail[-15:])))
    for act in ("WriterWrite", "WriterClose", "Call", "GrowBuf", "Read"):
        if r.coverage.get(act, (0, 0))[1] == 0:
            raise common.ToolError("vacuous model: action %s never taken" % act)
    # the model must tell the defective designs apart (otherwise it judges nothing)
    sanity = {}
    for name, e2 in (("tail-dropped", dict(env, KEEPTAIL=0, MAXLEN=3)), ("no-growth", dict(env, GROW=0, MAXLEN=5))):
        r2 = tlc.run("io/ReadLine.tla", "io/ReadLine.cfg", workers=2, env=e2, timeout=300, coverage=False)
        if not r2.violated():
            raise common.ToolError("the ReadLine model does not refute the %s design (rc=%s)" % (name, r2.rc))
        sanity[name] = [x for x in r2.errors if "violated" in x][:1]

    records = r.records
    for rec in records:
        data = bytes(rec["input"])
        if [bytes(x) for x in rec["expect"]] != expected_lines(data, len(rec["expect"])):
            raise common.ToolError("driver's Expected differs from the specification's on %r" % data)

    agree = 0
    bad = 0
    samples = []
    by_status = {}

    def one(rec):
        data = bytes(rec["input"])
        chunks, pos = [], 0
        for n in rec["chunks"]:
            chunks.append(data[pos:pos + n])
            pos += n
        exp = [bytes(x) for x in rec["expect"]]
        st, got, detail = feed(len(exp), chunks)
        return data, chunks, exp, st, got, detail

    with concurrent.futures.ThreadPoolExecutor(12) as ex:
        for data, chunks, exp, st, got, detail in ex.map(one, records):
            by_status[st] = by_status.get(st, 0) + 1
            if st == "ok" and got == exp:
                agree += 1
                if len(samples) < 3 and len(chunks) > 1 and len(exp) > 3:
                    samples.append({"input": show(data), "chunks": [show(c) for c in chunks], "lines": [show(x) for x in exp]})
                continue
            bad += 1
            key = ("lines:" if st == "ok" else st.lower() + ":") + chunk_class(chunks)
            v.finding(key, "input %r fed as %s: expected lines %s, got %s %s" % (show(data), [show(c) for c in chunks], [show(x) for x in exp],
                                                                               [show(x) for x in got] if got is not None else st, detail),
                      {"input": list(data), "chunks": [list(c) for c in chunks], "expected": [list(x) for x in exp],
                       "got": [list(x) for x in got] if got is not None else None, "status": st, "how": "echo script of k read_line calls; chunks written one per read(2)"})

    # real sizes
    real_runs = 0
    real_ok = 0
    for name, data, chunkings, from_file in real_size_cases(rng, tier):
        k = len(data.split(b"\n")) + 2          # every line, the partial rest, and empty strings after the end
        exp = expected_lines(data, k)
        for chunks in chunkings:
            real_runs += 1
            st, got, detail = feed(k, chunks, from_file=from_file, timeout=60.0)
            by_status[st] = by_status.get(st, 0) + 1
            if st == "ok" and got == exp:
                real_ok += 1
                continue
            first = next((i for i in range(k) if got is None or i >= len(got) or got[i] != exp[i]), 0)
            key = ("real-lines:" if st == "ok" else "real-" + st.lower() + ":") + name.split(":")[0].split("-no-final")[0]
            v.finding(key, "%s (%d bytes, %s, chunk sizes %s): line %d expected %s, got %s %s" % (
                name, len(data), "file" if from_file else "pipe", [len(c) for c in chunks][:12], first + 1, show(exp[first]),
                show(got[first]) if got and first < len(got) else st, detail),
                {"case": name, "bytes": len(data), "chunk_sizes": [len(c) for c in chunks], "from_file": from_file, "first_wrong_line": first + 1, "status": st})
    if len(samples) < 3:
        samples.append({"note": "no multi-chunk sample agreed"})
    samples.append({"real_size_case": "8191 a + e-acute + zz LF q LF, cut byte by byte around offset 8192"})
    v.coverage = {
        "states": r.distinct, "transitions": r.generated, "traces_validated_against_impl": agree + real_ok,
        "evaluations": len(records) + real_runs, "distinct_nontrivial": sum(1 for x in records if len(x["chunks"]) > 1 and len(x["expect"]) > 2) ,
        "rule": "every (input over {a,LF,e-acute} up to %d bytes, writer chunking) pair TLC enumerates, distinct by construction; non-trivial = more than one chunk and at least one line" % maxlen,
        "exhaustive": True, "model": {"maxlen": maxlen, "bufcap": 4, "inputs_x_chunkings": len(records), "actions": {k: c[1] for k, c in r.coverage.items()},
                                      "depth": r.depth, "wall_s": round(r.wall, 1), "refuted_designs": sanity},
        "replayed_pairs": len(records), "replayed_agreeing": agree, "real_size_runs": real_runs, "real_size_agreeing": real_ok,
        "runs_by_status": by_status, "samples": samples,
    }
    v.assumptions = ["Linux pipe semantics: FIONREAD on the write end reports unread bytes; a read(2) of up to 8 KiB takes a whole smaller chunk",
                     "line terminator is LF (the Unix implementation does not strip CR); the Windows implementation is not exercised",
                     "the debug `naija` binary (no hooks) is built from the working tree of /repo"]
    return v.finish()


def replay(path):
    """bin/check C17 quick --replay FILE: feeds the recorded (input, chunking) to the current binary again."""
    import json
    build_naija()
    rp = json.load(open(path))["replay"]
    if "input" not in rp:
        print("real-size case %s: run the quick tier to reproduce (chunk sizes %s, %s)" % (rp.get("case"), rp.get("chunk_sizes"), "file" if rp.get("from_file") else "pipe"))
        return 2
    chunks = [bytes(c) for c in rp["chunks"]]
    exp = [bytes(x) for x in rp["expected"]]
    st, got, detail = feed(len(exp), chunks)
    print("input %r fed as %s\n  expected %s\n  got      %s %s" % (show(bytes(rp["input"])), [show(c) for c in chunks], [show(x) for x in exp],
                                                                   [show(x) for x in got] if got is not None else st, detail))
    return 0 if st == "ok" and got == exp else 1
