"""C06 - an accepted program can never crash the interpreter.

Spec: specs/lang/GenDyn.tla defines the finite product SITE x RUNTIME TYPES x ROUTE (every
operator, condition, index, indexed store, method receiver and argument, global built-in and
placeholder; number / string / boolean / null / array; parameter, array element, pop() result,
mixed-return function, re-assigned variable).  TLC enumerates the WHOLE product, runs each program
on the reference machine (defined outcome, or Unspecified = "any reported outcome").
Binding (R): every program that the real parser + resolver accept runs in all three
configurations in an isolated worker; oracle = the run ends normally or with a runtime diagnostic.
A panic, abort, failed assertion, `unreachable!`, signal or hang-in-crash is a violation keyed by
the abstract case `site:types` (any route).  The scoping, function, statement and array corpora of
the other properties feed the same oracle (keyed by the reference machine's reason, e.g. `tdz`)."""
import collections

import common
import langengine as le


def other_profiles(tier):
    q = tier == "quick"
    return [("MCGenScope", {"MAXSTMTS": 4, "MAXDEPTH": 3 if q else 4, "EVENTS": 0}),
            ("MCGenFn", {"MAXSTMTS": 3 if q else 4, "MAXDEPTH": 3, "EVENTS": 0}),
            ("MCGenArr", {"MAXSTMTS": 3 if q else 4, "MAXDEPTH": 2, "EVENTS": 0, "ARRTY": "num", "ARRLOOP": "0"}),
            ("MCGenMemFn", {"MAXSTMTS": 3 if q else 4, "MAXDEPTH": 3, "EVENTS": 0}),
            # definitions in dead positions, called from live code (the plan configuration must not lose them)
            ("MCGenDeadDef", {"MAXSTMTS": 4 if q else 5, "MAXDEPTH": 3, "EVENTS": 0})]


def run(tier):
    common.build_harness()
    v = common.Verdict("C06", tier, "model_checking")
    tally = le.Tally()
    r = le.generate("GenDyn", cfg="lang/GenDyn.cfg", coverage=False, timeout=1200)
    tally.add_tlc("GenDyn", r)
    judged = le.replay(r.records, modes=["nn", "fn", "fp"])
    tally.add(judged)
    accepted = 0
    table = collections.Counter()
    for (c, src, maps, classes, resps) in judged:
        if resps.get("nn", {}).get("st") not in ("parse_error", "static_error"):
            accepted += 1
        for mode, (cls, det) in classes.items():
            table[cls] += 1
            if cls == "crash":
                key = ":".join(c["site"]) + ":" + ":".join(c["types"])
                v.finding(key, "accepted program crashes the interpreter (route %s, configuration %s): %s\n%s" % (c["route"], mode, det, src),
                          {"source": src, "mode": mode, "site": c["site"], "types": c["types"], "route": c["route"], "detail": det})
    extra = [("GenBuiltin", {}, "lang/GenBuiltin.cfg"), ("GenOrder", {}, "lang/GenOrder.cfg"), ("GenTemplate", {}, "lang/GenTemplate.cfg")]
    for module, env, cfg in [(m, e, "lang/MCGen.cfg") for m, e in other_profiles(tier)] + extra:
        r2 = le.generate(module, env=env, cfg=cfg, timeout=2400, coverage=cfg.endswith("MCGen.cfg"))
        tally.add_tlc(module, r2)
        judged = le.replay(r2.records, modes=["nn", "fn", "fp"])
        tally.add(judged)
        for (c, src, maps, classes, resps) in judged:
            for mode, (cls, det) in classes.items():
                if cls == "crash":
                    why = c.get("why") or "defined-behaviour"
                    key = "crash:" + why.replace(" ", "-")
                    v.finding(key, "accepted program crashes the interpreter (profile %s, configuration %s, reference: %s %s): %s\n%s" % (module, mode, c["st"], why, det, src),
                              {"source": src, "mode": mode, "reference": c["st"], "why": why, "detail": det})
                    break
    # the static counterpart of the table: every member built-in x every statically known receiver type x 0..3 arguments
    r3 = le.generate("GenMethodArity", cfg="lang/GenMethodArity.cfg", coverage=False, timeout=600)
    tally.add_tlc("GenMethodArity", r3)
    recs = [dict(x, st="Unmodelled", why="static family", out=[]) for x in r3.records]
    judged = le.replay(recs, modes=["nn", "fn", "fp"])
    tally.add(judged)
    for (c, src, maps, classes, resps) in judged:
        for mode, (cls, det) in classes.items():
            if cls == "crash":
                v.finding("crash:methodarity:" + le.core_key(src), "the pipeline crashes on a member call (configuration %s): %s\n%s" % (mode, det, src),
                          {"source": src, "mode": mode, "reference": "Unmodelled", "why": "static family", "detail": det})
                break
    cov = tally.coverage(exhaustive=True)
    cov["table_programs"] = len(r.records)
    cov["table_programs_accepted_by_the_resolver"] = accepted
    cov["table_runs_by_class"] = dict(table)
    v.coverage = cov
    v.assumptions = ["arena exhaustion of the harness configuration (memory allocation failed) is a resource limit, not counted",
                     "process handles as operand types are exercised by C15/C16's scripts, not by this table"]
    return v.finish()


def replay(path):
    import replaytool
    return replaytool.replay("C06", path)
