"""C14 - the shipped pipeline matches the library; runs do not influence each other.

Spec: specs/mem/Scratch.tla - the two global scratch arenas, borrow/drop with a conflict arena,
and the CLI / playground pipeline as phases with every early-return point; TLC checks
FrameIsNotPersistent, NewestBorrowOnTop and HistoryIndependent (after ANY run, whatever its
outcome, the state equals the state after init) for all sequences of <= 3 runs x 4 outcome classes,
and refutes the plausible slip "frame borrowed without naming the persistent arena as conflict".
specs/mem/ScratchTrace.tla validates event sequences recorded from the real pipeline
(init / borrow / drop hooks), inferring the unlogged allocation in between.
Binding: programs with every kind of ending (normal, parse error, static error, runtime error,
stack overflow) taken from TLC-enumerated corpora:
 (a) the real `naija` binary (built from the current tree, no hooks) by file, --eval and stdin:
     stdout byte for byte = what the library pipeline with SEPARATE arenas renders (warnings,
     printed values, runtime diagnostic), exit status 0 iff no error diagnostic;
 (b) an in-process replica of the playground entry point (arena::init + scratch pipeline) run over
     every sequence of outcome classes of the model (<= 3 runs): each run equals its solo result,
     and the scratch event trace of the whole process history is accepted by ScratchTrace;
 (c) every program run twice in one process."""
import collections
import itertools
import os
import random
import subprocess
import tempfile

import common
import langcheck
import langengine as le
import nsast
import runner
import tlc


def corpus(q, rnd):
    """Programs by outcome class."""
    by = collections.defaultdict(list)
    for module, env, cfg in [("MCGenStmt", {"MAXSTMTS": 4, "MAXDEPTH": 4, "EVENTS": 0}, "lang/MCGen.cfg"),
                             ("MCGenFn", {"MAXSTMTS": 4, "MAXDEPTH": 3, "EVENTS": 0}, "lang/MCGen.cfg"),
                             ("MCGenTrap", {"MAXSTMTS": 3, "MAXDEPTH": 2, "EVENTS": 0, "TRAPVAR": "0"}, "lang/MCGen.cfg"),
                             ("MCGenMemFn", {"MAXSTMTS": 3, "MAXDEPTH": 3, "EVENTS": 0}, "lang/MCGen.cfg"),
                             ("MCGenStatic", {"MAXSTMTS": 3, "MAXDEPTH": 4, "ARITY": "0"}, "lang/MCGenStatic.cfg")]:
        r = le.generate(module, env=env, cfg=cfg, coverage=False, timeout=1800)
        recs = r.records
        rnd.shuffle(recs)
        for c in recs[:1500]:
            src = nsast.render(c["prog"])[0]
            if c.get("inj", "none") != "none":
                by["static_error"].append(src)
            elif c["st"] == "done":
                by["ok"].append(src)
            elif c["st"] in langcheck.ORACLE:
                by["runtime_error"].append(src)
            elif c["st"] == "Fuel":
                by["stack_overflow"].append(src)
        yield_states = (r.distinct, r.generated)
        by["_states"].append(yield_states)
    for s in list(by["ok"][:80]):
        by["parse_error"].append(s.replace(" get ", " get get ", 1) if " get " in s else s + " )")
        by["parse_error"].append(s + "\nstart")
    return by


def lib_expect(srcs, filename):
    reqs = [{"id": i, "src": s, "modes": ["fp"], "render": True, "filename": filename} for i, s in enumerate(srcs)]
    res = runner.run_requests(reqs, mode="prog", timeout=60)
    return [res.get(i, {}).get("fp", {}) for i in range(len(srcs))]


CHUNK = 8192          # fallback; the real read size of the stdin route is measured with strace at run time
CHARS = {2: "\u00e9", 3: "\u20a6", 4: "\U0001f600"}


def intake(v, naija, q):
    """specs/io/SourceIntake.tla: the text handed to the pipeline is the script whatever the read
    boundaries; exit status 0 iff no error diagnostic.  TLC checks the model, refutes both slips and
    prints the case classes; they are instantiated at the real sizes and run by file and stdin."""
    m = tlc.run("io/SourceIntake.tla", "io/SourceIntake.cfg", workers=4, timeout=300)
    if m.rc != 0 or m.timed_out or not m.records:
        raise common.ToolError("SourceIntake.tla: %s" % (m.errors[:3] or m.tail[-5:]))
    for cfg, inv in (("io/SourceIntakeChunk.cfg", "WellFormedAccepted"), ("io/SourceIntakeCount.cfg", "StatusRule")):
        r = tlc.run("io/SourceIntake.tla", cfg, workers=4, timeout=300, coverage=False)
        if r.rc != 12 or not any(inv in e for e in r.errors):
            raise common.ToolError("SourceIntake.tla does not refute %s (vacuous model)" % cfg)
    classes = m.records[0]
    # the size the shipped binary asks read(2) for on fd 0 (so that a re-tuned buffer moves the cases with it)
    global CHUNK
    import collections as _c
    import re as _re
    try:
        with tempfile.TemporaryDirectory(prefix="c14s_", dir=os.path.join(common.VERIF, "work")) as sd:
            log = os.path.join(sd, "st.txt")
            subprocess.run(["strace", "-e", "trace=read", "-o", log, naija, "-"], input=(("#" + "a" * 100 + "\n") * 2000 + "shout(1)\n").encode(),
                           capture_output=True, timeout=120)
            sizes = _c.Counter(int(x.group(1)) for x in _re.finditer(r"read\(0, .*?, (\d+)\)\s+=", open(log).read()))
        if sizes:
            CHUNK = sizes.most_common(1)[0][0]
            measured = True
        else:
            measured = False
    except (OSError, subprocess.SubprocessError):
        measured = False
    cases = []
    for sd in classes["straddle"]:
        for k in classes["boundaries"]:
            w, o = sd["w"], sd["o"]
            head = 'shout("<'
            tail = '>")\nshout(1 add 2)\n'
            pad = k * CHUNK - o - len(head)            # the character starts o bytes before the k-th read boundary
            src = "#" + "a" * (pad - 2) + "\n" + head + CHARS[w] + tail
            assert src.encode().index(CHARS[w].encode()) == k * CHUNK - o
            cases.append(("straddle:w%d:o%d:k%d" % (w, o, k), src))
            # the same inside a comment and inside an identifier-free stretch of a longer script
            src2 = "shout(7)\n#" + "b" * (k * CHUNK - o - 10) + CHARS[w] + " trailing\nshout(8)\n"
            assert src2.encode().index(CHARS[w].encode()) == k * CHUNK - o
            cases.append(("straddle-comment:w%d:o%d:k%d" % (w, o, k), src2))
    for e in classes["errs"]:
        n = e["m"] * 256 + e["d"]
        cases.append(("errors:static:%d" % n, "".join("shout(zz%d)\n" % i for i in range(n))))
        cases.append(("errors:parse:%d" % n, "".join("make get %d\n" % i for i in range(n))))
    exp_file = lib_expect([s for _, s in cases], "t.ns")
    exp_stdin = lib_expect([s for _, s in cases], "<stdin>")
    runs = agree = hit = 0
    counts_seen = set()
    with tempfile.TemporaryDirectory(prefix="c14i_", dir=os.path.join(common.VERIF, "work")) as td:
        for (name, src), ef, es in zip(cases, exp_file, exp_stdin):
            for how, e in (("file", ef), ("stdin", es)):
                if e.get("st") in (None, "PANIC", "CRASH", "HANG"):
                    raise common.ToolError("library pipeline failed on intake case %s: %s" % (name, e.get("st")))
                nerr = sum(1 for d in e.get("diags", []) if d["sev"] == "error") + (1 if e["st"] not in ("done", "parse_error", "static_error") else 0)
                if how == "file":
                    with open(os.path.join(td, "t.ns"), "w", encoding="utf-8") as f:
                        f.write(src)
                    p = subprocess.run([naija, "t.ns"], cwd=td, capture_output=True, timeout=120)
                else:
                    p = subprocess.run([naija, "-"], cwd=td, input=src.encode(), capture_output=True, timeout=120)
                runs += 1
                if name.startswith("straddle"):
                    hit += 1
                else:
                    counts_seen.add(nerr)
                out = p.stdout.decode("utf-8", errors="replace")
                same = out == e.get("stdout", "")
                ok = same and ((p.returncode == 0) == (nerr == 0)) and p.returncode >= 0
                if ok:
                    agree += 1
                else:
                    what = "stdout differs" if not same else "exit status %s with %d error diagnostic(s)" % (p.returncode, nerr)
                    v.finding("intake:%s:%s" % (how, name), "naija (%s) vs library pipeline on %s: %s\n--- binary stdout (tail)\n%s\n--- binary stderr\n%s\n--- library (tail)\n%s"
                              % (how, name, what, out[-400:], p.stderr.decode("utf-8", errors="replace")[-400:], e.get("stdout", "")[-400:]),
                              {"case": name, "how": how, "source_bytes": len(src.encode()), "rc": p.returncode, "library_st": e["st"], "errors": nerr,
                               "source_head": src[:80], "binary_stdout_tail": out[-2000:]})
    # SourceIntake's short reads: the same script delivered to stdin in SEVERAL writes with pauses (a producer that writes
    # in pieces) is the same script - cut between statements, inside a token, inside a multi-byte character
    import time as _t
    multi = "shout(1)\nshout(2)\nmake s get \"na\u00efve \u20a6\"\nshout(s)\nshout(3)\n"
    mb = multi.encode()
    cuts = [mb.index(b"shout(2)"), mb.index(b"shout(2)") + 3, mb.index("\u20a6".encode()) + 1, len(mb) - 1]
    exp_multi = lib_expect([multi], "<stdin>")[0]
    with tempfile.TemporaryDirectory(prefix="c14m_", dir=os.path.join(common.VERIF, "work")) as td:
        for cut in cuts:
            pr = subprocess.Popen([naija, "-"], cwd=td, stdin=subprocess.PIPE, stdout=subprocess.PIPE, stderr=subprocess.PIPE)
            try:
                pr.stdin.write(mb[:cut])
                pr.stdin.flush()
                _t.sleep(0.4)
                pr.stdin.write(mb[cut:])
                pr.stdin.close()
            except (BrokenPipeError, OSError):
                pass          # the reader went away early: judged by what it printed
            out = pr.stdout.read().decode("utf-8", errors="replace")
            rc = pr.wait(timeout=60)
            runs += 1
            if out == exp_multi.get("stdout", "") and rc == 0:
                agree += 1
            else:
                v.finding("intake:stdin:two-writes:cut%d" % cuts.index(cut), "a script delivered to `naija -` in two writes (cut at byte %d) is not run as the same script: exit %s, stdout %r, expected %r"
                          % (cut, rc, out[-200:], exp_multi.get("stdout", "")[-200:]), {"case": "two-writes", "cut": cut, "rc": rc, "binary_stdout_tail": out[-2000:]})
    # the same failing script reported several times by separate processes: byte-identical every time (diagnostic order
    # must not depend on per-process state such as a hash seed)
    for name, src in (("dup-params", "do join(left, right, left, right, up, down, up, down) start\n return 1\nend\nshout(join(1, 2, 3, 4, 5, 6, 7, 8))\n"),
                      ("many-undeclared", "".join("shout(q%d add r%d)\n" % (i, i) for i in range(12))),
                      ("dup-functions", "".join("do f%d() start end\ndo f%d() start end\n" % (i, i) for i in range(6)) + "shout(1)\n")):
        e = lib_expect([src], "t.ns")[0]
        outs = set()
        with tempfile.TemporaryDirectory(prefix="c14r_", dir=os.path.join(common.VERIF, "work")) as td:
            with open(os.path.join(td, "t.ns"), "w") as f:
                f.write(src)
            for _ in range(8):
                p = subprocess.run([naija, "t.ns"], cwd=td, capture_output=True, timeout=60)
                outs.add(p.stdout)
                runs += 1
        if len(outs) != 1 or next(iter(outs)).decode("utf-8", errors="replace") != e.get("stdout", ""):
            v.finding("repeat:" + name, "8 separate runs of one failing script print %d different outputs (or differ from the library rendering)" % len(outs), {"case": name, "source_head": src[:200]})
        else:
            agree += 8
    wrap = sorted(c for c in counts_seen if c and c % 256 == 0)
    if not wrap and not v.findings:
        # (only a tool error when nothing else was found: a tree that miscounts errors must get its violations reported)
        raise common.ToolError("no intake case produced a multiple of 256 error diagnostics (counts seen: %s)" % sorted(counts_seen))
    return {"model_states": m.distinct, "model_transitions": m.generated, "refuted_slips": ["per-chunk validation", "error count as status"],
            "stdin_read_size": CHUNK, "stdin_read_size_measured": measured, "cases": len(cases), "runs": runs, "agree": agree, "read_boundaries_hit": hit, "error_counts_seen": sorted(counts_seen),
            "error_counts_multiple_of_256": wrap}


def run(tier):
    common.build_harness()
    v = common.Verdict("C14", tier, "model_checking")
    q = tier == "quick"
    rnd = random.Random(common.seed())
    # 1. the model
    m = tlc.run("mem/Scratch.tla", "mem/Scratch.cfg", workers=4, timeout=300)
    if m.rc != 0 or m.timed_out:
        raise common.ToolError("Scratch.tla: the pipeline as coded violates an invariant in the model: %s" % m.errors[:3])
    mut = tlc.run("mem/Scratch.tla", "mem/ScratchMutant.cfg", workers=4, timeout=300, coverage=False)
    if mut.rc != 12:
        raise common.ToolError("Scratch.tla does not refute the frame=persistent slip (vacuous model)")
    states, trans = m.distinct, m.generated
    by = corpus(q, rnd)
    for (d, g) in by.pop("_states"):
        states += d
        trans += g
    classes = ["ok", "parse_error", "static_error", "runtime_error", "stack_overflow"]
    # 2. (a) the real binary
    naija = common.build_naija()
    per = 25 if q else 200
    chosen = []
    for c in classes:
        xs = by[c][:]
        rnd.shuffle(xs)
        chosen += [(c, s) for s in xs[:per]]
    srcs = [s for _, s in chosen]
    bin_runs = 0
    agree_bin = 0
    with tempfile.TemporaryDirectory(prefix="c14_", dir=os.path.join(common.VERIF, "work")) as td:
        for how, fname in (("file", "t.ns"), ("eval", "<eval>"), ("stdin", "<stdin>")):
            exp = lib_expect(srcs, fname)
            for (cls, src), e in zip(chosen, exp):
                if e.get("st") in (None, "PANIC", "CRASH", "HANG"):
                    continue
                if how == "file":
                    with open(os.path.join(td, "t.ns"), "w", encoding="utf-8") as f:
                        f.write(src)
                    p = subprocess.run([naija, "t.ns"], cwd=td, capture_output=True, timeout=120)
                elif how == "eval":
                    p = subprocess.run([naija, "--eval", src], cwd=td, capture_output=True, timeout=120)
                else:
                    p = subprocess.run([naija, "-"], cwd=td, input=src.encode(), capture_output=True, timeout=120)
                bin_runs += 1
                out = p.stdout.decode("utf-8", errors="replace")
                want_rc0 = e["st"] == "done"
                so = langcheck.info()["runtime"]["Stack overflow"]
                if e["st"] == so:
                    # WHERE the stack budget runs out depends on the build's frame sizes (resource
                    # exhaustion): compare everything before the runtime diagnostic, and its kind
                    cut = lambda t: t.split("[runtime]")[0]
                    same_text = cut(out) == cut(e.get("stdout", "")) and so in out
                else:
                    same_text = out == e.get("stdout", "")
                ok = same_text and ((p.returncode == 0) == want_rc0) and p.returncode >= 0
                if ok:
                    agree_bin += 1
                else:
                    what = "stdout differs" if not same_text else "exit status %s but the library run ended with %s" % (p.returncode, e["st"])
                    v.finding("binary:%s:%s:%s" % (how, cls, le.core_key(src)), "naija (%s) vs library pipeline: %s\n%s\n--- binary stdout\n%s\n--- library\n%s" % (how, what, src, out[-600:], e.get("stdout", "")[-600:]),
                              {"source": src, "how": how, "binary_stdout": out, "library_stdout": e.get("stdout"), "rc": p.returncode, "library_st": e["st"]})
    # 2b. source intake and exit status (specs/io/SourceIntake.tla)
    intake_cov = intake(v, naija, q)
    states += intake_cov["model_states"]
    trans += intake_cov["model_transitions"]
    # 3. (b)+(c) sequences in one process, from the model's outcome sequences
    seqs = []
    mclasses = ["ok", "parse_error", "static_error", "runtime_error"]
    for n in (1, 2, 3):
        for combo in itertools.product(mclasses, repeat=n):
            seqs.append(list(combo))
    seqs += [["stack_overflow", "ok"], ["ok", "stack_overflow", "runtime_error"], ["stack_overflow", "stack_overflow"]]
    reps = 1 if q else 6
    histories = []
    solo_needed = {}

    def relayout(s):
        """Same bytes count, other line layout: the first line break and a later blank trade places."""
        i = s.find("\n")
        j = s.find(" ", i + 1) if i >= 0 else -1
        if i < 0 or j < 0:
            return None
        return s[:i] + " " + s[i + 1:j] + "\n" + s[j + 1:]
    # hidden state keyed by the script's address / length would show here: P, its same-length re-layout, P again
    for c in ("static_error", "parse_error", "runtime_error", "ok"):
        for s in by[c][:6 if q else 40]:
            t = relayout(s)
            if t and len(t.encode()) == len(s.encode()) and t != s:
                histories.append([s, t, s, t])
                solo_needed[s] = None
                solo_needed[t] = None
    for rep in range(reps):
        for sq in seqs:
            progs = [rnd.choice(by[c]) for c in sq]
            if rnd.random() < 0.3:
                progs = progs + [progs[-1]]          # (c) the same program twice
            histories.append(progs)
            for s in progs:
                solo_needed[s] = None
    solo = lib_expect(list(solo_needed), "t.ns")
    for s, e in zip(list(solo_needed), solo):
        solo_needed[s] = e

    so_name = langcheck.info()["runtime"]["Stack overflow"]

    def view(r):
        # the rendered text too (locations, excerpts), except where the stack budget ran out (build / call-depth dependent)
        text = r.get("stdout") if r.get("st") != so_name else None
        return (r.get("st"), tuple(nsast.impl_value(x) for x in r.get("out", [])), tuple(sorted((d["sev"], d["msg"]) for d in r.get("diags", []))), text)
    traces = []
    seq_runs = 0
    agree_seq = 0
    w = runner.Worker([runner.VH, "prog"])
    for hi, progs in enumerate(histories):
        if hi % 20 == 0 and hi:
            w.close()
            w = runner.Worker([runner.VH, "prog"])
            events_acc = None
        evs_all = []
        broken = False
        for s in progs:
            w.send({"id": hi, "src": s, "modes": ["cli"], "ev": 16, "reuse": True})
            ans = None
            while True:
                a = w.readline(60)
                if isinstance(a, tuple):
                    ans = {"st": "CRASH" if a[0] == "DEAD" else "HANG"}
                    w.kill()
                    w.start()
                    broken = True
                    break
                if "begin" in a:
                    continue
                ans = a
                break
            seq_runs += 1
            e = solo_needed[s]
            if ans.get("st") in ("CRASH", "HANG", "PANIC") and e.get("st") not in ("CRASH", "HANG", "PANIC"):
                v.finding("sequence-crash:" + le.core_key(s), "a run inside a sequence crashed although the program alone does not\n%s" % s, {"history": progs, "source": s})
            elif e.get("st") not in (None, "PANIC", "CRASH", "HANG") and view(ans) != view(e):
                v.finding("sequence:" + le.core_key("\n".join(progs)), "a run inside a sequence differs from the same program alone: %s vs %s\n%s" % (view(ans)[:2], view(e)[:2], "\n=====\n".join(progs)),
                          {"history": progs, "source": s, "in_sequence": view(ans), "alone": view(e)})
            else:
                agree_seq += 1
            evs_all += [x for x in ans.get("events", []) if x.get("ev", "").startswith("scratch_")]
            if broken:
                break
        if not broken:
            traces.append({"events": evs_all, "history": hi})
    w.close()
    # ScratchTrace validation
    path = os.path.join(common.VERIF, "work", "c14_traces_%d.ndjson" % os.getpid())
    tlc.write_ndjson(path, [{"events": t["events"]} for t in traces])
    tr = tlc.run("mem/ScratchTrace.tla", "mem/ScratchTrace.cfg", workers=4, env={"TRACES": path}, timeout=600, coverage=False)
    os.remove(path)
    if tr.rc != 0 or tr.timed_out:
        raise common.ToolError("ScratchTrace failed: %s %s" % (tr.errors[:3], tr.tail[-8:]))
    accepted = 0
    for vd in tr.records:
        if vd["verdict"] == "accept":
            accepted += 1
        else:
            t = traces[vd["i"] - 1]
            v.finding("scratch-trace:" + vd["why"].replace(" ", "-")[:60], "scratch event trace rejected at event %d: %s\n%s" % (vd["l"], vd["why"], t["events"][:vd["l"] + 1]),
                      {"events": t["events"], "verdict": vd, "history": histories[t["history"]]})
    states += tr.distinct
    trans += tr.generated
    v.coverage = {"states": states, "transitions": trans, "traces_validated_against_impl": accepted,
                  "scratch_model": {"distinct_states": m.distinct, "coverage": {k: x[1] for k, x in m.coverage.items()}, "mutant_refuted": True},
                  "binary_invocations": bin_runs, "binary_invocations_agreeing": agree_bin, "source_intake": intake_cov,
                  "process_histories": len(histories), "runs_in_sequences": seq_runs, "runs_in_sequences_agreeing": agree_seq,
                  "scratch_traces_accepted": accepted, "programs_by_outcome": {c: len(by[c]) for c in classes},
                  "evaluations": bin_runs + seq_runs, "distinct_nontrivial": len(set(srcs)) + len(solo_needed),
                  "rule": "programs of every outcome class from TLC-enumerated corpora; all sequences of <= 3 outcome classes (the model's runs); distinct programs counted",
                  "samples": [{"history": histories[len(histories) // 2]}, {"scratch_events": traces[0]["events"] if traces else []}], "exhaustive": False}
    v.assumptions = ["the binary's stdout is compared byte for byte with the library rendering using the same file name", "the wasm entry point itself is not built; its pipeline (wasm/src/lib.rs) is replicated in-process"]
    return v.finish()


def replay(path):
    import replaytool
    return replaytool.replay("C14", path)
