"""C15 - a child process gets exactly the configured argv / env / cwd / stdin; violations are refused
before anything is spawned.

Spec: specs/io/ProcBuilder.tla.  State = the process_command builder; strings are abstract tokens
(identity, length, NUL, `=`); limits and the host policy are parameters, TINY so that every limit
is crossed exactly at its boundary.  TLC enumerates ALL call orders of a few builder calls (every
method, every token) under several limit settings and both host policies, checks on the model that
a spawn happens only for a permitted valid command and carries exactly the builder state, and
prints one record per Run outcome.

Binding (R): every record becomes a NaijaScript script run in the harness under
Runtime::new_with_host_policy(limits scaled from the model: 1 model byte = S real bytes, S seeded).
Tokens are instantiated from a seeded dictionary of hostile strings (spaces, quotes, $, *, ;,
newlines, empty, multi-byte, exactly-at-limit lengths); every OCCURRENCE gets its own bytes.  The
program is `vchild` in report mode (a symlink whose path has exactly the modelled length): it
touches a spawn marker and reports argv, its whole environment, cwd and standard input.
Oracle: Spawn => report equals the model state byte for byte (argv count and bytes, environment =
parent's + overrides with the last write per key, cwd, stdin text / null / inherited);
Refuse/Denied => runtime error of the configuration / denied kind AND no marker.
The REAL default limits are exercised one boundary at a time: the call sequences (with tokens of
real sizes) are evaluated by the same TLC model (MODE=cases) and replayed the same way."""
import collections
import os
import random
import shutil

import common
import runner
import tlc

WORK = os.path.join(common.VERIF, "work")
VCHILD = os.path.join(getattr(common, "HARNESS", os.path.join(common.VERIF, "harness")), "target", "debug", "vchild")
UNIT_MS = 60000      # one model time unit; the child exits at once, no timeout can fire

TIGHT = dict(MAXPROGRAM=2, MAXCWD=2, MAXARGS=2, MAXARGBYTES=2, MAXTOTALARG=3, MAXENVPAIRS=1, MAXKEY=2, MAXVAL=2,
             MAXTOTALENV=3, MAXSTDIN=2, MAXTIMEOUT=2, DEFTIMEOUT=1)
LOOSE = dict(MAXPROGRAM=3, MAXCWD=3, MAXARGS=3, MAXARGBYTES=3, MAXTOTALARG=4, MAXENVPAIRS=2, MAXKEY=2, MAXVAL=3,
             MAXTOTALENV=5, MAXSTDIN=3, MAXTIMEOUT=2, DEFTIMEOUT=2)
ZERO = dict(MAXPROGRAM=2, MAXCWD=1, MAXARGS=1, MAXARGBYTES=0, MAXTOTALARG=0, MAXENVPAIRS=1, MAXKEY=1, MAXVAL=0,
            MAXTOTALENV=1, MAXSTDIN=0, MAXTIMEOUT=1, DEFTIMEOUT=1)
DEFAULTS = dict(MAXPROGRAM=4096, MAXCWD=4096, MAXARGS=256, MAXARGBYTES=65536, MAXTOTALARG=262144, MAXENVPAIRS=128, MAXKEY=256,
                MAXVAL=16384, MAXTOTALENV=131072, MAXSTDIN=1048576, MAXTIMEOUT=60, DEFTIMEOUT=15)

FRAGS = [" ", '"', "'", "$HOME", "$", "*", ";", "\n", "é", "日本", "\\", "`id`", "$(id)", "|", "&", ">", "<", "~", "?", "[a]", "%s",
         "-rf", "\t", "a b", "--", "#", "!", "(", ")", "x", "Z", "0", "€", "\u00a0", "\\n", "*.*", "$IFS", "&&", "||", "\x7f", "\x01"]
SINGLES = " \"'$*;\n\\|&><~?#!()xZ0-%`\t"


def fill(n, rng, filename=False):
    """n bytes of hostile text (never NUL, `=`, `{`, `}` or CR; file names also avoid `/`)."""
    if n > 4096:
        block = fill(4096, rng, filename)         # large strings: a hostile block, tiled, with a hostile tail
        reps, tail = divmod(n, 4096)
        return block * reps + fill(tail, rng, filename)
    out = b""
    guard = 0
    while len(out) < n:
        guard += 1
        f = rng.choice(FRAGS) if guard < 200 else "x"
        b = f.encode()
        if len(out) + len(b) > n:
            b = rng.choice(SINGLES).encode()
        if filename and (b"/" in b or b"\n" in b and rng.random() < 0.5):
            continue
        out += b
    if filename and out in (b".", b".."):
        out = b"d" * n
    return out


def lit(b):
    s = b.decode("utf-8")
    return '"' + s.replace("\\", "\\\\").replace('"', '\\"').replace("\n", "\\n").replace("\t", "\\t") + '"'


PLACEMENTS = ("straight", "loop", "function", "computed", "loop+computed", "function+computed")


def lit2(b):
    """The same text as the concatenation of two literals (a computed, owned string)."""
    s = b.decode("utf-8")
    if len(s) < 2:
        return lit(b) + ' add ""'
    h = len(s) // 2
    return lit(s[:h].encode()) + " add " + lit(s[h:].encode())


class _Placed:
    """lines.append(call) -> the call placed according to the instance's placement."""

    def __init__(self, inst, raw):
        self.inst, self.raw, self.i = inst, raw, 0

    def append(self, line):
        self.i += 1
        self.raw.append(self.inst.placed(self.i, line))


class Instance:
    """Turns one TLC record (or given case) into a script, a host policy and the expected child report."""

    def __init__(self, rec, caps, allow, tok, timeouts, S, rng, base, exact_paths=False, placement="straight"):
        # WHERE in the script the builder calls sit (the call order is the model's): straight-line,
        # each in its own loop body, each in a function mutating the outer command, or with
        # computed (concatenated) argument strings.  The frame arena is reset at the end of every
        # loop iteration and function call, so the builder must have copied what it keeps.
        self.placement = placement
        self.src = None
        self.keycase = rng.random() < 0.34
        self.rec, self.caps, self.allow, self.tok, self.timeouts, self.S, self.rng = rec, caps, allow, tok, timeouts, S, rng
        self.pdir = os.path.join(base, "p") + "/"
        self.ddir = os.path.join(base, "d") + "/"
        self.exact = exact_paths         # token length = full path length (real-limit cases)
        self.keys = {}
        self.by_call = {}
        self.made = []                   # file-system objects to create: ("link"|"dir", path)

    def text(self, tok, kind):
        t = self.tok[tok]
        n = t["len"] * self.S
        if kind in ("prog", "cwd") and not t["nul"] and n > 0:
            prefix = (self.pdir if kind == "prog" else self.ddir).encode()
            room = n - len(prefix) if self.exact else n
            if room <= 0:
                return fill(n, self.rng)
            # nested components of at most 200 bytes, `room` bytes in total including the separators
            parts, left = [], room
            while left > 0:
                take = left if left <= 200 else (199 if left == 201 else 200)
                parts.append(fill(take, self.rng, filename=True))
                left -= take
                if left > 0:
                    left -= 1
            path = prefix + b"/".join(parts)
            self.made.append(("link" if kind == "prog" else "dir", path))
            return path
        b = bytearray(fill(n, self.rng))
        if t["nul"] and n > 0:
            b[self.rng.randrange(n)] = 0
        if t["eq"] and n > 0:
            pos = [i for i in range(n) if b[i] != 0]
            b[self.rng.choice(pos)] = ord("=")
        # a multi-byte character may have been cut by the two substitutions: keep the text valid UTF-8
        try:
            bytes(b).decode("utf-8")
        except UnicodeDecodeError:
            for i in range(n):
                if b[i] >= 0x80:
                    b[i] = ord("u")
        return bytes(b)

    def key_text(self, tok):
        if tok not in self.keys and self.keycase:
            # distinct key tokens of equal length become spellings of ONE word that differ only in ASCII case
            # (environment variable names are case-sensitive here: they are different keys)
            n = self.tok[tok]["len"] * self.S
            if n > 0 and not self.tok[tok]["nul"] and not self.tok[tok]["eq"]:
                order = sorted(self.tok)
                word = ("naija_key_" * (n // 10 + 1))[:n]
                style = order.index(tok) % 3
                text = word.lower() if style == 0 else word.upper() if style == 1 else "".join(ch.upper() if j % 2 else ch for j, ch in enumerate(word))
                if text.encode() not in self.keys.values():
                    self.keys[tok] = text.encode()
        if tok not in self.keys:
            for _ in range(50):
                s = self.text(tok, "key")
                if s not in self.keys.values():
                    break
            self.keys[tok] = s
        return self.keys[tok]

    def build(self):
        if self.src is None:
            self.src = self.build_once()
        return self.src

    def placed(self, i, line):
        if self.placement.startswith("loop"):
            return "make k%d get 0\njasi (k%d small pass 1) start\n    %s\n    k%d get k%d add 1\nend" % (i, i, line, i, i)
        if self.placement.startswith("function"):
            return "do step%d() start\n    %s\nend\nstep%d()" % (i, line, i)
        return line

    def build_once(self):
        rec = self.rec
        prog = self.text(rec["prog"], "prog")
        self.by_call[0] = [prog]
        lit = lit2 if self.placement.endswith("computed") else globals()["lit"]
        raw = ["make c get command(%s)" % lit(prog)]
        lines = _Placed(self, raw)
        for i, call in enumerate(rec["calls"], start=1):
            m = call[0]
            if m == "arg":
                s = self.text(call[1], "arg")
                self.by_call[i] = [s]
                lines.append("c.arg(%s)" % lit(s))
            elif m == "env":
                k, v = self.key_text(call[1]), self.text(call[2], "val")
                self.by_call[i] = [k, v]
                lines.append("c.env(%s, %s)" % (lit(k), lit(v)))
            elif m == "cwd":
                s = self.text(call[1], "cwd")
                self.by_call[i] = [s]
                lines.append("c.cwd(%s)" % lit(s))
            elif m == "stdin_text":
                s = self.text(call[1], "stdin")
                self.by_call[i] = [s]
                lines.append("c.stdin_text(%s)" % lit(s))
            elif m == "timeout_ms":
                lines.append("c.timeout_ms(%d)" % (self.timeouts[call[1]] * UNIT_MS))
            else:
                lines.append("c.%s()" % m)
        if self.placement.startswith(("loop", "function")):
            # churn: re-use whatever the frame resets above gave back
            raw.append('make junk get 0\njasi (junk small pass 3) start\n    make filler get "%s" add "R"\n    junk get junk add 1\nend' % ("Q" * 48))
        raw.append("make r get c.run()")
        raw.append("shout(r.exit_code())")
        return "\n".join(raw) + "\n"

    def policy(self):
        c, S = self.caps, self.S
        off_p = 0 if self.exact else len(self.pdir.encode())
        off_d = 0 if self.exact else len(self.ddir.encode())
        return {"allow_process": self.allow, "max_program_bytes": off_p + S * c["MAXPROGRAM"], "max_cwd_bytes": off_d + S * c["MAXCWD"],
                "max_args": c["MAXARGS"], "max_arg_bytes": S * c["MAXARGBYTES"], "max_total_arg_bytes": S * c["MAXTOTALARG"],
                "max_env_pairs": c["MAXENVPAIRS"], "max_env_key_bytes": S * c["MAXKEY"], "max_env_value_bytes": S * c["MAXVAL"],
                "max_total_env_bytes": S * c["MAXTOTALENV"], "max_stdin_bytes": S * c["MAXSTDIN"],
                "default_timeout_ms": c["DEFTIMEOUT"] * UNIT_MS, "max_timeout_ms": c["MAXTIMEOUT"] * UNIT_MS, "wait_poll_ms": 1}

    def expected(self):
        """What the child must report for a Spawn outcome."""
        o = self.rec["out"]
        argv = [self.by_call[idx][0] for (_, idx) in o["argv"]]
        env = {self.by_call[idx][0]: self.by_call[idx][1] for (_, _, idx) in o["env"]}
        cwd = self.by_call[o["cwd"][1]][0] if o["cwd"] else None
        si = o["stdin"]
        stdin = ("pipe", self.by_call[si[2]][0]) if si[0] == "text" else (si[0], b"")
        return argv, env, cwd, stdin


def materialise(made):
    for kind, path in made:
        if len(path) >= 4096 or os.path.lexists(path):
            continue                      # longer than PATH_MAX: cannot exist (such a command must be refused anyway)
        if kind == "dir":
            os.makedirs(path, exist_ok=True)
        else:
            os.makedirs(os.path.dirname(path), exist_ok=True)
            try:
                os.symlink(VCHILD.encode(), path)
            except FileExistsError:
                pass


def judge(inst, resp):
    """[] if the real run agrees with the model's outcome, else a list of (key suffix, description)."""
    o = inst.rec["out"]
    st, ekind = resp.get("st"), resp.get("ekind")
    if st in ("CRASH", "HANG", "PANIC", "TOOL", None):
        return [("worker-" + str(st).lower(), "the run ended with %s %s" % (st, resp.get("crash") or resp.get("panic") or ""))]
    if o["k"] in ("refuse", "denied"):
        bad = []
        if resp.get("marker"):
            bad.append(("spawned", "the command must be refused (%s) but the child was spawned" % (o.get("why") or "host policy")))
        want = "denied" if o["k"] == "denied" else "spec_invalid"
        if ekind != want:
            bad.append(("error-kind", "expected a runtime error of kind %s, got %r (%s)" % (want, ekind, st)))
        return bad
    # spawn
    if st != "done":
        return [("refused-valid", "a valid permitted command ended with %r (%s)" % (st, [d.get("labels") for d in resp.get("diags", [])][:1]))]
    rep = resp.get("report")
    if not resp.get("marker") or not rep:
        return [("no-report", "no runtime error, but the child left no %s" % ("marker" if not resp.get("marker") else "report"))]
    argv, env, cwd, stdin = inst.expected()
    bad = []
    got_argv = [bytes.fromhex(a) for a in rep["argv"]]
    if got_argv != argv:
        bad.append(("argv", "argv differs: expected %d strings %r..., child saw %d: %r..." % (len(argv), argv[:4], len(got_argv), got_argv[:4])))
    parent = {bytes.fromhex(k): bytes.fromhex(v) for k, v in resp["parent_env"]}
    want_env = dict(parent)
    want_env.update(env)
    got_pairs = [(bytes.fromhex(k), bytes.fromhex(v)) for k, v in rep["env"]]
    got_env = dict(got_pairs)
    if got_env != want_env or len(got_pairs) != len(got_env):
        diff = {k: (want_env.get(k), got_env.get(k)) for k in set(want_env) | set(got_env) if want_env.get(k) != got_env.get(k)}
        bad.append(("env", "environment differs (key: expected, seen): %r%s" % (dict(list(diff.items())[:4]), " [duplicate entries]" if len(got_pairs) != len(got_env) else "")))
    want_cwd = cwd if cwd is not None else bytes.fromhex(resp["parent_cwd"])
    if bytes.fromhex(rep["cwd"]) != want_cwd:
        bad.append(("cwd", "cwd differs: expected %r, child in %r" % (want_cwd[-60:], bytes.fromhex(rep["cwd"])[-60:])))
    got_stdin = (rep["stdin_kind"], bytes.fromhex(rep["stdin"]))
    if got_stdin != stdin:
        bad.append(("stdin", "stdin differs: expected %s %r, child saw %s %r" % (stdin[0], stdin[1][:40], got_stdin[0], got_stdin[1][:40])))
    return bad


def expected_hex(inst):
    argv, env, cwd, stdin = inst.expected()
    return {"argv": [a.hex() for a in argv], "env": [[k.hex(), v.hex()] for k, v in env.items()], "cwd": cwd.hex() if cwd is not None else None,
            "stdin": [stdin[0], stdin[1].hex()], "made": [[k, p.hex()] for k, p in inst.made]}


def real_limit_cases():
    """(name, prog token, token table, calls): the REAL default limits, one boundary at a time."""
    def T(n, nul=False, eq=False):
        return {"len": n, "nul": nul, "eq": eq}
    P = "p"
    cases = []

    def add(name, calls, toks, prog=P):
        table = {P: T(80)}
        table.update(toks)
        cases.append({"name": name, "prog": prog, "tok": table, "calls": calls})
    add("arg-bytes-at", [["arg", "x"]], {"x": T(65536)})
    add("arg-bytes-over", [["arg", "x"]], {"x": T(65537)})
    add("args-count-at", [["arg", "o"]] * 256, {"o": T(1)})
    add("args-count-over", [["arg", "o"]] * 257, {"o": T(1)})
    add("args-total-at", [["arg", "x"]] * 4, {"x": T(65536)})
    add("args-total-over", [["arg", "x"]] * 4 + [["arg", "o"]], {"x": T(65536), "o": T(1)})
    keys = {"k%d" % i: T(8) for i in range(129)}
    add("env-pairs-at", [["env", "k%d" % i, "v"] for i in range(128)], dict(keys, v=T(3)))
    add("env-pairs-over", [["env", "k%d" % i, "v"] for i in range(129)], dict(keys, v=T(3)))
    add("env-pairs-rewrite", [["env", "k%d" % (i % 128), "v"] for i in range(140)], dict(keys, v=T(3)))
    add("env-key-at", [["env", "k", "v"]], {"k": T(256), "v": T(1)})
    add("env-key-over", [["env", "k", "v"]], {"k": T(257), "v": T(1)})
    add("env-value-at", [["env", "k", "v"]], {"k": T(4), "v": T(16384)})
    add("env-value-over", [["env", "k", "v"]], {"k": T(4), "v": T(16385)})
    add("env-total-at", [["env", "k%d" % i, "v"] for i in range(8)], dict(keys, v=T(16376)))
    add("env-total-over", [["env", "k%d" % i, "v"] for i in range(8)] + [["env", "j", "e"]], dict(keys, v=T(16376), j=T(1), e=T(0)))
    add("stdin-at", [["stdin_text", "s"]], {"s": T(1048576)})
    add("stdin-over", [["stdin_text", "s"]], {"s": T(1048577)})
    add("program-long", [], {"P2": T(3000)}, prog="P2")
    add("program-over", [], {"P2": T(4097)}, prog="P2")
    add("cwd-long", [["cwd", "d"]], {"d": T(3000)})
    add("cwd-over", [["cwd", "d"]], {"d": T(4097)})
    add("timeout-at", [["timeout_ms", "tM"]], {})
    add("timeout-over", [["timeout_ms", "tX"]], {})
    add("timeout-zero", [["timeout_ms", "t0"]], {})
    add("nul-program", [], {"P2": T(40, nul=True)}, prog="P2")
    add("nul-arg", [["arg", "n"]], {"n": T(9, nul=True)})
    add("nul-cwd", [["cwd", "n"]], {"n": T(9, nul=True)})
    add("nul-key", [["env", "n", "v"]], {"n": T(9, nul=True), "v": T(2)})
    add("nul-value", [["env", "k", "n"]], {"n": T(9, nul=True), "k": T(2)})
    add("nul-stdin", [["stdin_text", "n"]], {"n": T(9, nul=True)})
    add("eq-key", [["env", "q", "v"]], {"q": T(9, eq=True), "v": T(2)})
    add("eq-value-and-arg", [["env", "k", "q"], ["arg", "q"]], {"q": T(9, eq=True), "k": T(2)})
    add("empty-program", [], {"P2": T(0)}, prog="P2")
    add("empty-cwd", [["cwd", "e"]], {"e": T(0)})
    add("empty-key", [["env", "e", "v"]], {"e": T(0), "v": T(2)})
    add("empty-arg-value-stdin", [["arg", "e"], ["env", "k", "e"], ["stdin_text", "e"], ["arg", "e"]], {"e": T(0), "k": T(2)})
    return cases


def run(tier):
    common.build_harness()
    v = common.Verdict("C15", tier, "model_checking")
    rng = random.Random(common.seed())
    base = os.path.realpath(os.path.join(WORK, "c15_%d" % os.getpid()))
    shutil.rmtree(base, ignore_errors=True)
    os.makedirs(os.path.join(base, "side"))
    quick = tier == "quick"
    # (name, limits, profile, max calls, allow, fraction replayed)
    plans = [("tight-full", TIGHT, "full", 2, 1, 1.0), ("tight-argenv", TIGHT, "argenv", 3, 1, 1.0),
             ("loose-argenv", LOOSE, "argenv", 3, 1, 0.5 if quick else 1.0), ("zero-full", ZERO, "full", 2, 1, 1.0),
             ("loose-full", LOOSE, "full", 2, 1, 0.5 if quick else 1.0), ("denied", TIGHT, "full", 2 if not quick else 1, 0, 1.0)]
    if not quick:
        plans.append(("tight-full-3", TIGHT, "full", 3, 1, 1.0))
    states = transitions = 0
    models = {}
    reqs, insts = [], {}
    tok = timeouts = None
    nid = 0
    for name, caps, profile, maxcalls, allow, frac in plans:
        env = dict(caps, MODE="enum", CASES="/dev/null", PROFILE=profile, MAXCALLS=maxcalls, ALLOW=allow)
        r = tlc.run("io/ProcBuilder.tla", "io/ProcBuilder.cfg", workers=6, env=env, timeout=1500)
        if r.timed_out or r.rc != 0:
            raise common.ToolError("ProcBuilder model (%s): rc=%s %s\n%s" % (name, r.rc, r.errors[:3], "\n".join(r.tail[-15:])))
        need = ["Arg", "Env", "Run"] + (["Cwd", "StdinText", "StdinInherit", "StdinNull", "Stdout", "Stderr", "TimeoutMs"] if profile == "full" and maxcalls > 0 else [])
        for act in need:
            if r.coverage.get(act, (0, 0))[1] == 0:
                raise common.ToolError("vacuous model %s: action %s never taken" % (name, act))
        states += r.distinct
        transitions += r.generated
        recs = [x for x in r.records if "out" in x]
        hdr = [x for x in r.records if x.get("header")]
        if hdr:
            tok, timeouts = hdr[0]["tok"], hdr[0]["timeouts"]
        kinds = collections.Counter(x["out"]["k"] for x in recs)
        why = collections.Counter(w for x in recs if x["out"]["k"] == "refuse" for w in x["out"]["why"])
        single = collections.Counter(x["out"]["why"][0] for x in recs if x["out"]["k"] == "refuse" and len(x["out"]["why"]) == 1)
        models[name] = {"limits": caps, "profile": profile, "max_calls": maxcalls, "allow_process": bool(allow), "distinct_states": r.distinct,
                        "outcomes": dict(kinds), "refusals_by_rule": dict(why), "refusals_by_single_rule": dict(single),
                        "actions": {k: c[1] for k, c in r.coverage.items()}, "wall_s": round(r.wall, 1)}
        tm = {"t0": 0, "t1": 1, "tM": caps["MAXTIMEOUT"], "tX": caps["MAXTIMEOUT"] + 1}
        chosen = recs if frac >= 1.0 else [x for x in recs if rng.random() < frac]
        models[name]["replayed"] = len(chosen)
        for rec in chosen:
            S = rng.choice((1, 1, 3, 16))
            places = [PLACEMENTS[nid % len(PLACEMENTS)]] if quick else ["straight", PLACEMENTS[1 + nid % (len(PLACEMENTS) - 1)]]
            for placement in places:
                inst = Instance(rec, caps, bool(allow), tok, tm, S, random.Random(rng.random()), base, placement=placement)
                src = inst.build()
                materialise(inst.made)
                inst.plan = name
                insts[nid] = inst
                reqs.append({"id": nid, "modes": ["run"], "kind": "builder", "src": src, "policy": inst.policy(), "out": os.path.join(base, "side", "s%d" % nid)})
                nid += 1

    # the real default limits, judged by the same model
    cases = real_limit_cases()
    path = os.path.join(base, "cases.ndjson")
    tlc.write_ndjson(path, [{"prog": c["prog"], "tok": c["tok"], "calls": c["calls"]} for c in cases])
    r = tlc.run("io/ProcBuilder.tla", "io/ProcBuilder.cfg", workers=2, env=dict(DEFAULTS, MODE="cases", CASES=path, PROFILE="full", MAXCALLS=0, ALLOW=1), timeout=600, coverage=False)
    if r.timed_out or r.rc != 0:
        raise common.ToolError("ProcBuilder model (real limits): rc=%s %s\n%s" % (r.rc, r.errors[:3], "\n".join(r.tail[-15:])))
    states += r.distinct
    transitions += r.generated
    real = {x["cs"]: x for x in r.records if "out" in x}
    if len(real) != len(cases):
        raise common.ToolError("real-limit cases: %d outcomes for %d cases" % (len(real), len(cases)))
    tm = {"t0": 0, "t1": 1, "tM": DEFAULTS["MAXTIMEOUT"], "tX": DEFAULTS["MAXTIMEOUT"] + 1}
    real_ids = {}
    for i, c in enumerate(cases, start=1):
        inst = Instance(real[i], DEFAULTS, True, c["tok"], tm, 1, random.Random(rng.random()), base, exact_paths=True)
        src = inst.build()
        materialise(inst.made)
        inst.plan = "real:" + c["name"]
        insts[nid] = inst
        real_ids[nid] = c["name"]
        reqs.append({"id": nid, "modes": ["run"], "kind": "builder", "src": src, "policy": inst.policy(), "out": os.path.join(base, "side", "s%d" % nid)})
        nid += 1

    res = runner.run_requests(reqs, mode="procs", nworkers=16, timeout=120.0)
    agree = 0
    spawned_ok = 0
    outcome_counts = collections.Counter()
    samples = []
    real_out = {}
    for i, inst in insts.items():
        resp = res.get(i, {}).get("run", {"st": None})
        bad = judge(inst, resp)
        o = inst.rec["out"]
        outcome_counts[o["k"]] += 1
        if i in real_ids:
            real_out[real_ids[i]] = o["k"] + ("" if not bad else " MISMATCH")
        if not bad:
            agree += 1
            if o["k"] == "spawn":
                spawned_ok += 1
                if len(samples) < 3 and len(inst.rec["calls"]) >= 2 and o["env"] and len(o["argv"]) > 1:
                    samples.append({"calls": inst.rec["calls"], "limits": inst.plan, "scale": inst.S, "script": inst.build()[:400],
                                    "child_saw_argv": [a.decode("utf-8", "replace") for a in inst.expected()[0]]})
            continue
        for suffix, desc in bad:
            rule = "+".join(sorted(o.get("why", []))) if o["k"] == "refuse" else o["k"]
            key = "%s:%s" % (suffix, rule) + ("" if inst.placement in ("straight", "computed") else ":" + inst.placement.split("+")[0])
            v.finding(key, "%s [limits %s, scale %d]\ncalls %s on program token %s; model outcome %s\nscript:\n%s" % (
                desc, inst.plan, inst.S, inst.rec["calls"][:8], inst.rec["prog"], {k: o[k] for k in o if k != "argv"} if len(str(o)) > 600 else o, inst.build()[:1500]),
                {"limits": inst.plan, "scale": inst.S, "policy": inst.policy(), "calls": inst.rec["calls"][:300], "program_token": inst.rec["prog"],
                 "model_outcome": o if len(str(o)) < 4000 else o["k"], "script": inst.build()[:20000], "got": {k: resp.get(k) for k in ("st", "ekind", "marker")},
                 "expected_report": expected_hex(inst) if o["k"] == "spawn" and len(inst.build()) < 20000 else None})
    shutil.rmtree(base, ignore_errors=True)
    if not samples:
        samples.append({"note": "no spawn sample with args and env agreed"})
    samples.append({"real_limit_cases": real_out})
    v.coverage = {
        "states": states, "transitions": transitions, "traces_validated_against_impl": agree, "evaluations": len(insts),
        "distinct_nontrivial": sum(1 for i in insts.values() if len(i.rec["calls"]) >= 1),
        "rule": "one case per Run outcome TLC prints (distinct call sequences by construction); non-trivial = at least one builder call before run()",
        "exhaustive": all(p[5] >= 1.0 for p in plans), "models": models, "replayed": len(insts), "agreeing": agree, "spawns_compared_byte_for_byte": spawned_ok,
        "model_outcomes_replayed": dict(outcome_counts), "replayed_by_placement": dict(collections.Counter(i.placement for i in insts.values())), "real_limit_cases": len(cases), "samples": samples,
    }
    v.assumptions = ["tokens are instantiated without `{`, `}`, CR (NaijaScript literals cannot express them without templating) and without `/` in file names",
                     "program and cwd lengths are affine in the model length (directory prefix + S * len); the limits are shifted by the same prefix",
                     "an existing path of exactly 4096 bytes cannot be executed on Linux (PATH_MAX), so the program/cwd limits are crossed at 4097 and exercised at 3000 bytes",
                     "timeouts are scaled to minutes: the child exits at once, so no timeout can fire during a run"]
    return v.finish()


def replay(path):
    """bin/check C15 quick --replay FILE: runs the recorded script under the recorded host policy again."""
    import json
    common.build_harness()
    rp = json.load(open(path))["replay"]
    exp = rp.get("expected_report")
    if exp:
        materialise([(k, bytes.fromhex(p)) for k, p in exp["made"]])
    side = os.path.join(WORK, "c15_replay_side_%d" % os.getpid())
    res = runner.run_requests([{"id": 0, "modes": ["run"], "kind": "builder", "src": rp["script"], "policy": rp["policy"], "out": side}], mode="procs", nworkers=1, timeout=120.0)
    resp = res.get(0, {}).get("run", {"st": None})
    o = rp["model_outcome"]
    kind = o if isinstance(o, str) else o["k"]
    print("model outcome: %s   now: st=%r kind=%r marker=%s" % (o if len(str(o)) < 500 else kind, resp.get("st"), resp.get("ekind"), resp.get("marker")))
    if kind in ("refuse", "denied"):
        return 1 if resp.get("marker") or resp.get("ekind") != ("denied" if kind == "denied" else "spec_invalid") else 0
    rep = resp.get("report")
    if resp.get("st") != "done" or not rep:
        return 1
    if not exp:
        return 0
    parent = {k: v for k, v in resp["parent_env"]}
    parent.update({k: v for k, v in exp["env"]})
    ok = rep["argv"] == exp["argv"] and dict((k, v) for k, v in rep["env"]) == parent and rep["cwd"] == (exp["cwd"] or resp["parent_cwd"]) \
        and [rep["stdin_kind"], rep["stdin"]] == exp["stdin"]
    print("child report %s the model state" % ("equals" if ok else "DIFFERS from"))
    return 0 if ok else 1
