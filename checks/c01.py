"""C01 - program results equal the documented language semantics.

Spec: specs/lang/LangDyn.tla (reference CEK machine), LangStatic.tla (lexical resolution),
specs/text/StrOps.tla (string built-ins), LangValues.tla.
R (spec -> code): TLC enumerates every program of several bounded grammars (LangGen profiles
`stmt`, `fn`, `str`; GenExpr: every well-typed expression to depth 2 over all ten binary and two
unary operators with an effectful call to observe short-circuit; GenBuiltin: every documented
method over a small argument domain; GenOrder: every multi-operand construct with operands that print
their tag, so that left-to-right evaluation is observed; GenTemplate: placeholders next to escapes), runs each on the
reference machine and prints program + reference result; each is rendered with MINIMAL
parentheses and run through the real pipeline without frame arena and plan (the base
configuration; frame/plan deviations belong to C02/C03).  Printed values, the ending (normal or
error kind), the event trace, and acceptance (a generated program is valid, so no error-level
diagnostic) must agree.
V (code -> spec): seeded random larger programs run with event hooks on; TLC validates each
recorded trace against the machine (LangTrace.tla)."""
import collections

import common
import langengine as le
import rndgen
import tracecheck


def profiles(tier):
    q = tier == "quick"
    return [
        ("GenExpr", "lang/GenExpr.cfg", {"EXPRSIZE": 0 if q else 1}, 1),
        ("GenBuiltin", "lang/GenBuiltin.cfg", {}, 0),
        ("GenOrder", "lang/GenOrder.cfg", {}, 1),
        ("GenTemplate", "lang/GenTemplate.cfg", {}, 0),
        # the site x type x route table: its well-typed cells have a defined result and must be accepted and agree
        ("GenDyn", "lang/GenDyn.cfg", {}, 0),
        ("MCGenStmt", "lang/MCGen.cfg", {"MAXSTMTS": 4 if q else 5, "MAXDEPTH": 4, "EVENTS": 1}, 1),
        ("MCGenFn", "lang/MCGen.cfg", {"MAXSTMTS": 4 if q else 5, "MAXDEPTH": 3, "EVENTS": 1}, 1),
        ("MCGenStr", "lang/MCGen.cfg", {"MAXSTMTS": 3 if q else 4, "MAXDEPTH": 3, "EVENTS": 1}, 1),
    ]


def run(tier):
    common.build_harness()
    v = common.Verdict("C01", tier, "model_checking")
    tally = le.Tally()
    for module, cfg, env, ev in profiles(tier):
        r = le.generate(module, env=env, cfg=cfg, timeout=2400, coverage=cfg.endswith("MCGen.cfg"))
        if module == "GenDyn":
            # only the route whose operands are certainly dynamic for ANY checker (parameters): the other routes deliver
            # values whose type a checker may legitimately know (call results, re-assigned variables, literal elements)
            r.records = [x for x in r.records if x.get("route") == "param"]
        tally.add_tlc(module, r)
        judged = le.replay(r.records, modes=["nn", "fn", "fp"], ev=ev, compare_events=bool(ev))
        tally.add(judged)
        for (c, src, maps, classes, resps) in judged:
            for (role, cls, mode, det) in le.attribute(classes):
                if role == "own":
                    v.finding("%s:%s:%s" % (cls, module, le.core_key(src)), "%s (profile %s, configuration %s): %s\n%s" % (cls, module, mode, det, src),
                              {"source": src, "mode": mode, "reference": {"st": c["st"], "out": c["out"]}, "detail": det})
                else:
                    tally.routed[role + ":" + cls] += 1
    # V direction
    n = 1200 if tier == "quick" else 12000
    base = common.seed() * 1000003
    progs = [rndgen.program(base + i) for i in range(n)]
    recorded = tracecheck.record(progs, mode="nn", ev=3)
    out, skipped, r = tracecheck.validate(recorded, env=True, timeout=2400)
    verdicts = collections.Counter(vd["verdict"] for _, vd, _ in out)
    for rec, vd, case in out:
        if vd["verdict"] in ("reject", "missing"):
            ev = case["events"]
            l = vd.get("l", 1)
            v.finding("trace:%s" % le.core_key(rec["src"]),
                      "recorded trace rejected by the reference machine at event %d: reference expected %s, recorded %s\n%s"
                      % (l, vd.get("expected"), ev[l - 1] if 0 < l <= len(ev) else "<end of trace>", rec["src"]),
                      {"source": rec["src"], "verdict": vd, "events": ev[:l + 1]})
    cov = tally.coverage(exhaustive=True)
    cov["traces_validated_against_impl"] = verdicts.get("accept", 0) + tally.oracle
    cov["trace_validation"] = {"random_programs": n, "verdicts": dict(verdicts), "not_validated": dict(skipped),
                               "tlc_states": r.distinct if r else 0}
    v.coverage = cov
    v.assumptions = ["numbers are exact quarters; results outside (-0, NaN, inf, non-quarter quotients) are 'Unmodelled' and not used as oracle",
                     "undocumented behaviour (bool ordering, arrays in interpolation, round() on ties, find() offsets after non-ASCII text, empty replace/split pattern, dynamic type confusion) is 'Unspecified': any reported outcome accepted",
                     "deviations only with the frame arena are C02's, only with the plan C03's, crashes C06's"]
    return v.finish()


def replay(path):
    import replaytool
    return replaytool.replay("C01", path)
