"""C11 - bump arena: disjoint, aligned, in-bounds blocks; reset and grow behave.

Spec: specs/mem/ArenaAbs.tla is the abstract layer (reservation, live blocks, mark stack, offset();
nondeterministic in every choice of the implementation, the observed answer is fed back and judged),
specs/mem/Arena.tla the implementation-shaped refinement (offset <= commit <= capacity, chunked lazy
commit, aligned bump, tail-only in-place grow/shrink, debug fill, scratch borrow/release, base address
modulo the largest alignment).  TLC checks the refinement's invariants, checks every refinement
transition against the abstract layer and emits one operation history per transition of the reachable
graph.  A second, tiny run with AlignMode = "offset" must be rejected (alignment is a property of the
address): the specification would notice the design error on its own.

Binding (R -> V): every history is replayed on a real naijascript::arena::Arena by `vh arena` in
three scalings (1 model unit = chunk/8 bytes, = page/8 bytes, = 1 byte; chunk and page are READ from
the implementation / the OS), through the Allocator trait, alloc_uninit(_slice), Vec and ArenaString
growth and ScratchArena borrows (on an own arena through the gated hook and on the global scratch
arena), in the debug build (debug::Arena) and the `fast` profile (bump::Arena).  Seeded long
histories with real byte sizes around the chunk size +- 1 and the capacity limit are generated inside
the harness.  What the implementation did is recorded per step and specs/mem/ArenaTrace.tla
(abstract layer only) must accept every recorded history."""
import collections
import json
import os
import random

import common
import memcheck
import tlc

HUGE = 100000      # the model's "larger than anything" size (Arena.cfg)
MODEL_CHUNK = 8    # Arena.cfg


def tier_params(tier):
    if tier == "quick":
        return {"model": {"MAXOPS": 3, "MAXBLOCKS": 2, "MAXMARKS": 1, "PROFILE": "small"},
                "random": 150, "random_steps": 120, "tlc_timeout": 300}
    return {"model": {"MAXOPS": 4, "MAXBLOCKS": 3, "MAXMARKS": 2, "PROFILE": "small"},
            "random": 3000, "random_steps": 300, "tlc_timeout": 900}


def enumerate_histories(params):
    """Runs the refinement; returns (unique request histories, tlc result, op/outcome coverage)."""
    seen = {}
    cover = collections.Counter()

    def on_record(rec):
        ops = rec["ops"]
        key = (rec["cap"], tuple((o["o"], o["i"], o["s"], o["a"]) for o in ops))
        last = ops[-1]
        kind = last["o"]
        if kind in ("alloc", "allocz", "grow"):
            kind += ":fail" if last["pf"] else ":ok"
        cover[kind] += 1
        if key not in seen:
            seen[key] = rec

    r = tlc.run("mem/Arena.tla", "mem/Arena.cfg", workers=6, env=params["model"], timeout=params["tlc_timeout"], on_record=on_record)
    if r.timed_out or r.rc != 0:
        raise common.ToolError("Arena.tla: rc=%s timed_out=%s %s\n%s" % (r.rc, r.timed_out, r.errors[:4], "\n".join(r.tail[-10:])))
    need = ["alloc:ok", "alloc:fail", "allocz:ok", "grow:ok", "grow:fail", "shrink", "mark", "borrow", "reset", "release", "decommit"]
    missing = [k for k in need if cover[k] == 0]
    if missing:
        raise common.ToolError("Arena.tla is vacuous: no transition of kind %s" % missing)
    # a history that is a proper prefix of another one is replayed as part of it
    prefixes = set()
    for (cap, ops) in seen:
        for n in range(1, len(ops)):
            prefixes.add((cap, ops[:n]))
    hist = [rec for key, rec in seen.items() if key not in prefixes]
    return hist, r, cover


def design_mutation():
    """The refinement with alignment applied to the OFFSET must violate AddrAligned."""
    r = tlc.run("mem/Arena.tla", "mem/ArenaOffset.cfg", workers=2, env={"MAXOPS": 2, "MAXBLOCKS": 2, "MAXMARKS": 1, "PROFILE": "small"},
                timeout=120, coverage=False, on_record=lambda rec: None)
    if r.timed_out or not any("AddrAligned" in e for e in r.errors):
        raise common.ToolError("ArenaOffset.cfg was not rejected by AddrAligned: the specification lost its alignment clause (%s)" % r.errors[:3])
    return True


def scaled_ops(rec, unit, api):
    ops = []
    for o in rec["ops"]:
        s = -1 if o["s"] >= HUGE else o["s"] * unit
        ops.append({"o": o["o"], "i": o["i"], "s": s, "a": o["a"] * unit, "api": api})
    return ops


def build_requests(hist, info, tier):
    """history x scale x api route (x root).  Returns the request list; ids index `meta`."""
    chunk, page = info["chunk"], info["page"]
    scales = [("chunk", max(1, chunk // MODEL_CHUNK)), ("page", max(1, page // MODEL_CHUNK)), ("byte", 1)]
    routes = ["raw", "typed", "vec", "str", "rawz"]
    reqs, meta = [], []
    for n, rec in enumerate(hist):
        cap = rec["cap"] * (chunk // MODEL_CHUNK)
        for sname, unit in scales:
            # every route at the chunk scale; the raw route plus one rotating route at the finer scales
            rs = routes if sname == "chunk" else ["raw", routes[1 + n % 4]]
            for api in rs:
                reqs.append({"id": len(meta), "cap": cap, "root": "own", "ops": scaled_ops(rec, unit, api)})
                meta.append({"h": n, "scale": sname, "unit": unit, "api": api, "root": "own"})
    return reqs, meta


def global_requests(hist, info, first_id):
    """The same histories on the process-wide scratch arena (scratch_arena(None), nested borrows):
    one worker group per capacity because arena::init fixes the capacity per process."""
    chunk = info["chunk"]
    unit = max(1, chunk // MODEL_CHUNK)
    groups = collections.defaultdict(list)
    meta = {}
    rid = first_id
    for n, rec in enumerate(hist):
        cap = rec["cap"] * unit
        groups[cap].append({"id": rid, "cap": cap, "root": "global", "ops": scaled_ops(rec, unit, "raw")})
        meta[rid] = {"h": n, "scale": "chunk", "unit": unit, "api": "raw", "root": "global"}
        rid += 1
    return groups, meta


def random_requests(info, count, steps, first_id):
    rnd = random.Random(common.seed() * 7919 + 11)
    chunk = info["chunk"]
    reqs, meta = [], {}
    for k in range(count):
        rid = first_id + k
        seed = rnd.randrange(1, 1 << 48)
        cap = chunk * (1 + k % 4)
        reqs.append({"id": rid, "cap": cap, "root": "own", "random": {"seed": seed, "steps": steps}})
        meta[rid] = {"h": None, "scale": "real", "unit": 1, "api": "mixed", "root": "own", "seed": seed, "cap": cap, "steps": steps}
    return reqs, meta


STEP_FIELDS = ("o", "i", "s", "a", "fail", "beg", "len", "amod", "off", "commit", "zero", "kept", "seen", "bad")


def to_trace(tid, resp):
    h = resp["hdr"]
    return {"id": tid, "hdr": {"cap": h["cap"], "bm": h["bm"], "slack": h["slack"], "off0": h["off0"]},
            "steps": [{f: st[f] for f in STEP_FIELDS} for st in resp["steps"]]}


def align_class(a, page):
    return "align-above-base" if a > page else "align-within-base"


def run(tier):
    params = tier_params(tier)
    common.build_harness()
    common.build_harness("fast")
    v = common.Verdict("C11", tier, "model_checking")

    infos = {}
    for profile in ("dev", "fast"):
        r = memcheck.replay([{"id": 0, "info": True}], "arena", profile=profile, nworkers=1)
        if r[0].get("st") != "ok":
            raise common.ToolError("vh arena info failed in profile %s: %s" % (profile, r[0]))
        infos[profile] = r[0]
    info = infos["dev"]
    if info["chunk"] % MODEL_CHUNK or info["chunk"] != infos["fast"]["chunk"]:
        raise common.ToolError("unexpected chunk size %s" % info["chunk"])

    design_mutation()
    hist, tlc_res, cover = enumerate_histories(params)

    # ---- replay -------------------------------------------------------------------------------
    traces = []            # what ArenaTrace reads
    tmeta = {}             # trace id -> (profile, request meta, request, response)
    counts = collections.Counter()
    api_used = collections.Counter()
    outcome = collections.Counter()

    def collect(profile, reqs, meta_of, resps):
        for rq in reqs:
            resp = resps.get(rq["id"], {"st": "CRASH", "crash": {"msg": "no answer"}})
            m = meta_of(rq["id"])
            counts["replays:" + profile] += 1
            if resp.get("st") != "ok":
                crash = resp.get("crash", {})
                what = crash.get("sig") or resp.get("st")
                key = "crash:%s:%s" % (what, m["root"])
                v.finding(key, "the arena crashed the harness (%s, %s %s) while replaying a history" % (resp.get("st"), crash.get("sig", ""), crash.get("msg", resp.get("panic", ""))),
                          {"profile": profile, "request": rq, "response": resp, "meta": m})
                continue
            tid = len(traces)
            traces.append(to_trace(tid, resp))
            tmeta[tid] = (profile, m, rq, resp)
            for st in resp["steps"]:
                api_used[st["o"] + ":" + st.get("api", "")] += 1
                outcome[st["o"] + (":fail" if st["fail"] else ":ok")] += 1
                if "panic" in st and st.get("api") not in ("uninit", "uninit_slice"):
                    v.finding("panic:%s" % st["o"], "operation %s panicked: %s" % (st["o"], st["panic"]),
                              {"profile": profile, "request": rq, "step": st, "meta": m})

    reqs, meta = build_requests(hist, info, tier)
    ggroups, gmeta = global_requests(hist, info, len(meta))
    rreqs, rmeta = random_requests(info, params["random"], params["random_steps"], len(meta) + len(gmeta))
    for profile in ("dev", "fast"):
        collect(profile, reqs, lambda i: meta[i], memcheck.replay(reqs, "arena", profile=profile, nworkers=8))
        for cap, greqs in sorted(ggroups.items()):
            collect(profile, greqs, lambda i: gmeta[i], memcheck.replay(greqs, "arena", profile=profile, nworkers=4))
        collect(profile, rreqs, lambda i: rmeta[i], memcheck.replay(rreqs, "arena", profile=profile, nworkers=8, timeout=120))

    # ---- the verdict: the abstract layer accepts what the implementation did --------------------
    verdicts, vstats = memcheck.validate("mem/ArenaTrace.tla", "mem/ArenaTrace.cfg", traces, "arena_traces",
                                         batch=30000, workers=6, timeout=params["tlc_timeout"])
    accepted = 0
    deviations = compared = 0
    for tid, ver in verdicts.items():
        profile, m, rq, resp = tmeta[tid]
        if ver["verdict"] == "accept":
            accepted += 1
            if m["h"] is not None and m["root"] == "own" and m["api"] == "raw" and m["scale"] != "chunk":
                # information only: how closely the refinement predicts the real placement
                for st, mo in zip(resp["steps"], hist[m["h"]]["ops"]):
                    if mo["pf"] or mo["s"] >= HUGE or st["fail"] or mo["a"] * m["unit"] > info["page"]:
                        break
                    compared += 1
                    if st["off"] != mo["px"] * m["unit"] or (st["o"] in ("alloc", "allocz", "grow", "shrink") and st["beg"] != mo["pb"] * m["unit"]):
                        deviations += 1
            continue
        why = ver["why"]
        st = resp["steps"][ver["k"] - 1]
        if why.startswith("harness-"):
            raise common.ToolError("trace %d rejected for a harness reason (%s) at step %d: %s" % (tid, why, ver["k"], json.dumps(st)))
        key = "%s:%s:%s" % (why, st["o"], align_class(st["a"], info["page"]))
        desc = ("the abstract arena specification rejects step %d (%s via %s, size %s, alignment %s) of a recorded history: %s "
                "[returned base+%s len %s, address mod alignment %s, offset() %s, commit %s; build %s, root %s]"
                % (ver["k"], st["o"], st.get("api"), st["s"], st["a"], why, st["beg"], st["len"], st["amod"], st["off"], st["commit"],
                   profile, m["root"]))
        v.finding(key, desc, {"profile": profile, "request": rq, "rejected_step": ver["k"], "why": why, "recorded": resp, "meta": m})

    samples = []
    for tid in (0, len(traces) // 2, len(traces) - 1):
        if 0 <= tid < len(traces):
            samples.append({"request": tmeta[tid][2], "recorded_steps": tmeta[tid][3]["steps"][:6], "verdict": verdicts[tid]["verdict"]})
    v.coverage = {
        "states": tlc_res.distinct,
        "transitions": tlc_res.generated,
        "traces_validated_against_impl": accepted,
        "traces_rejected": len(traces) - accepted,
        "evaluations": sum(counts.values()),
        "distinct_nontrivial": len(hist),
        "rule": "one operation history per transition of the refinement's reachable graph (shortest path to the pre-state + the "
                "transition), de-duplicated by request sequence and with proper prefixes removed; non-trivial = at least one "
                "operation; each is replayed in several scalings / API routes / builds, plus seeded long histories",
        "exhaustive": True,
        "model": {"constants": params["model"], "distinct_states": tlc_res.distinct, "transitions": tlc_res.generated,
                  "depth": tlc_res.depth, "wall_s": round(tlc_res.wall, 1), "last_operation_kinds": dict(cover),
                  "refinement_checked_against_abstract_layer": True, "offset_alignment_design_rejected": True},
        "unique_histories": len(hist),
        "random_long_histories": params["random"] * 2,
        "random_steps_each": params["random_steps"],
        "replays": dict(counts),
        "recorded_steps_by_operation_and_api": dict(api_used),
        "recorded_steps_by_outcome": dict(outcome),
        "trace_validation": vstats,
        "implementation_constants": {"chunk": info["chunk"], "page": info["page"], "slack_dev": infos["dev"]["slack"], "slack_fast": infos["fast"]["slack"]},
        "refinement_predictions_compared": compared,
        "refinement_deviations_information_only": deviations,
        "samples": samples,
    }
    v.assumptions = [
        "the harness' shadow table follows the abstract rule for liveness (reset kills exactly the blocks placed after the mark); ArenaTrace re-derives the live set and rejects a mismatch as a harness error",
        "readable/writable is observed by writing and re-reading a byte pattern over every returned block (a fault kills the worker and is reported as a crash)",
        "a request must succeed when an aligned block fits above offset(), up to the measured per-block overhead of the implementation (0 today); commit failures of the OS are not modelled",
        "shrink is exercised on the tail block only (shrinking another block is a debug assertion by design); alloc_uninit(_slice) report failure by panicking",
    ]
    return v.finish()
