"""C11 - bump arena: disjoint, aligned, in-bounds blocks; reset and grow behave.

Spec: specs/mem/ArenaAbs.tla is the abstract layer (reservation, live blocks, mark stack, offset();
nondeterministic in every choice of the implementation, the observed answer is fed back and judged),
specs/mem/Arena.tla the implementation-shaped refinement (offset <= commit <= capacity, chunked lazy
commit, aligned bump, tail-only in-place grow/shrink, debug fill, scratch borrow/release, base address
modulo the largest alignment).  TLC checks the refinement's invariants, checks every refinement
transition against the abstract layer and emits one operation history per transition of the reachable
graph.  A second, tiny run with AlignMode = "offset" must be rejected (alignment is a property of the
address): the specification would notice the design error on its own.

Binding (R -> V): every history is replayed on a real naijascript::arena::Arena by `vh arena` in
three scalings (1 model unit = chunk/8 bytes, = page/8 bytes, = 1 byte; chunk and page are READ from
the implementation / the OS), through the Allocator trait, alloc_uninit(_slice), Vec and ArenaString
growth and ScratchArena borrows (on an own arena through the gated hook and on the global scratch
arena), in the debug build (debug::Arena) and the `fast` profile (bump::Arena).  Seeded long
histories with real byte sizes around the chunk size +- 1 and the capacity limit are generated inside
the harness.  What the implementation did is recorded per step and specs/mem/ArenaTrace.tla
(abstract layer only) must accept every recorded history."""
import collections
import json
import os
import random

import common
import memcheck
import tlc

HUGE = 100000      # the model's "larger than anything" size (Arena.cfg)
MODEL_CHUNK = 8    # Arena.cfg
MODEL_BASE_ALIGN = 8   # Arena.cfg: placement of larger alignments depends on the base address


ALL_VARIANTS = [("chunk", "raw"), ("chunk", "typed"), ("chunk", "vec"), ("chunk", "str"), ("chunk", "rawz"), ("chunk", "strrep"),
                ("page", "raw"), ("page", "typed"), ("page", "vec"), ("page", "str"), ("page", "strrep"),
                ("byte", "raw"), ("byte", "typed"), ("byte", "vec"), ("byte", "str"), ("byte", "strrep")]


def tier_params(tier):
    """plans: (model constants, variants per history, share of histories also run on the global
    scratch arena).  variants: "all" = every (scale, route) pair, N = (chunk, raw) plus N-1 rotating pairs."""
    small3 = {"MAXOPS": 3, "MAXBLOCKS": 2, "MAXMARKS": 1, "PROFILE": "small"}
    if tier == "quick":
        return {"plans": [(small3, 2, 8)], "random": 150, "random_steps": 120, "tlc_timeout": 300}
    mid4 = {"MAXOPS": 4, "MAXBLOCKS": 2, "MAXMARKS": 2, "PROFILE": "mid"}
    return {"plans": [(small3, "all", 1), (mid4, 2, 16)], "random": 3000, "random_steps": 300, "tlc_timeout": 900}


def enumerate_histories(model, timeout):
    """Runs the refinement; returns (unique request histories, tlc result, op/outcome coverage)."""
    seen = {}
    cover = collections.Counter()

    def on_record(rec):
        ops = rec["ops"]
        key = (rec["cap"], tuple((o["o"], o["i"], o["s"], o["a"]) for o in ops))
        last = ops[-1]
        kind = last["o"]
        if kind in ("alloc", "allocz", "grow"):
            kind += ":fail" if last["pf"] else ":ok"
        cover[kind] += 1
        if key not in seen:
            seen[key] = rec

    r = tlc.run("mem/Arena.tla", "mem/Arena.cfg", workers=6, env=model, timeout=timeout, on_record=on_record)
    if r.timed_out or r.rc != 0:
        raise common.ToolError("Arena.tla: rc=%s timed_out=%s %s\n%s" % (r.rc, r.timed_out, r.errors[:4], "\n".join(r.tail[-10:])))
    need = ["alloc:ok", "alloc:fail", "allocz:ok", "grow:ok", "grow:fail", "shrink", "mark", "borrow", "reset", "release", "decommit"]
    missing = [k for k in need if cover[k] == 0]
    if missing:
        raise common.ToolError("Arena.tla is vacuous: no transition of kind %s" % missing)
    # a history that is a proper prefix of another one is replayed as part of it
    prefixes = set()
    for (cap, ops) in seen:
        for n in range(1, len(ops)):
            prefixes.add((cap, ops[:n]))
    hist = [rec for key, rec in seen.items() if key not in prefixes]
    return hist, r, cover


def design_mutation():
    """The refinement with alignment applied to the OFFSET must violate AddrAligned."""
    r = tlc.run("mem/Arena.tla", "mem/ArenaOffset.cfg", workers=2, env={"MAXOPS": 2, "MAXBLOCKS": 2, "MAXMARKS": 1, "PROFILE": "small"},
                timeout=120, coverage=False, on_record=lambda rec: None)
    if r.timed_out or not any("AddrAligned" in e for e in r.errors):
        raise common.ToolError("ArenaOffset.cfg was not rejected by AddrAligned: the specification lost its alignment clause (%s)" % r.errors[:3])
    return True


def scaled_ops(rec, unit, api):
    ops = []
    for o in rec["ops"]:
        s = -1 if o["s"] >= HUGE else o["s"] * unit
        ops.append({"o": o["o"], "i": o["i"], "s": s, "a": o["a"] * unit, "api": api})
    return ops


def scales_of(info):
    chunk, page = info["chunk"], info["page"]
    return {"chunk": max(1, chunk // MODEL_CHUNK), "page": max(1, page // MODEL_CHUNK), "byte": 1}


def history_requests(hist, info, variants, global_share):
    """Generator of requests: history x (scale, api route), plus the global scratch arena as root
    for every `global_share`-th history.  Each request carries its own description under "m"."""
    scales = scales_of(info)
    cunit = scales["chunk"]
    for n, rec in enumerate(hist):
        cap = rec["cap"] * cunit
        if variants == "all":
            vs = ALL_VARIANTS
        else:
            vs = [ALL_VARIANTS[0]] + [ALL_VARIANTS[1 + (n * (variants - 1) + k) % (len(ALL_VARIANTS) - 1)] for k in range(variants - 1)]
        for sname, api in vs:
            unit = scales[sname]
            m = {"scale": sname, "unit": unit, "api": api, "root": "own"}
            if api == "raw" and sname != "chunk":
                m["pred"] = [[o["pf"], o["pb"], o["px"], o["s"], o["a"]] for o in rec["ops"]]
            yield {"cap": cap, "root": "own", "ops": scaled_ops(rec, unit, api), "m": m}
        if n % global_share == 0:
            yield {"cap": cap, "root": "global", "ops": scaled_ops(rec, cunit, "raw"),
                   "m": {"scale": "chunk", "unit": cunit, "api": "raw", "root": "global"}}


def random_requests(info, count, steps):
    rnd = random.Random(common.seed() * 7919 + 11)
    chunk = info["chunk"]
    for k in range(count):
        seed = rnd.randrange(1, 1 << 48)
        cap = chunk * (1 + k % 4)
        yield {"cap": cap, "root": "own", "random": {"seed": seed, "steps": steps},
               "m": {"scale": "real", "unit": 1, "api": "mixed", "root": "own"}}


STEP_FIELDS = ("o", "i", "s", "a", "fail", "beg", "len", "amod", "off", "commit", "zero", "kept", "seen", "bad")


def to_trace(tid, resp):
    h = resp["hdr"]
    return {"id": tid, "hdr": {"cap": h["cap"], "bm": h["bm"], "slack": h["slack"], "off0": h["off0"]},
            "steps": [{f: st[f] for f in STEP_FIELDS} for st in resp["steps"]]}


def align_class(a, page):
    return "align-above-base" if a > page else "align-within-base"


class Judge:
    """Streams requests through replay (both builds) and ArenaTrace validation, chunk by chunk."""

    def __init__(self, v, info, timeout):
        self.v = v
        self.info = info
        self.timeout = timeout
        self.counts = collections.Counter()
        self.api_used = collections.Counter()
        self.outcome = collections.Counter()
        self.vstats = {"runs": 0, "states": 0, "wall_s": 0.0}
        self.accepted = self.rejected = 0
        self.compared = self.deviations = 0
        self.samples = []
        self.candidates = []      # accepted long traces, corrupted on purpose by selftest()

    def run(self, requests, chunk=30000):
        buf = []
        for rq in requests:
            buf.append(rq)
            if len(buf) >= chunk:
                self.process(buf)
                buf = []
        if buf:
            self.process(buf)

    def process(self, reqs):
        for i, rq in enumerate(reqs):
            rq["id"] = i
        own = [r for r in reqs if r["root"] == "own"]
        glob = collections.defaultdict(list)          # arena::init fixes the capacity per process
        for r in reqs:
            if r["root"] == "global":
                glob[r["cap"]].append(r)
        for profile in ("dev", "fast"):
            resps = memcheck.replay_batched(own, "arena", profile=profile, nworkers=8)
            for cap, rs in sorted(glob.items()):
                resps.update(memcheck.replay_batched(rs, "arena", profile=profile, nworkers=2))
            self.judge(profile, reqs, resps)

    def judge(self, profile, reqs, resps):
        v = self.v
        traces, by_id = [], {}
        for rq in reqs:
            resp = resps.get(rq["id"], {"st": "CRASH", "crash": {"msg": "no answer"}})
            m = rq["m"]
            self.counts["replays:" + profile] += 1
            if resp.get("st") != "ok":
                crash = resp.get("crash", {})
                what = crash.get("sig") or resp.get("st")
                v.finding("crash:%s" % what,
                          "the arena crashed the harness (%s, %s %s) while replaying a history" % (resp.get("st"), crash.get("sig", ""), crash.get("msg", resp.get("panic", ""))),
                          {"profile": profile, "request": rq, "response": resp})
                continue
            by_id[rq["id"]] = (rq, resp)
            for n, st in enumerate(resp["steps"]):
                self.api_used[st["o"] + (":" + st.get("api", "") if st["o"] in ("alloc", "allocz", "grow", "shrink") else "")] += 1
                self.outcome[st["o"] + (":fail" if st["fail"] else ":ok")] += 1
                if "panic" in st and st.get("api") not in ("uninit", "uninit_slice"):
                    v.finding("panic:%s" % st["o"], "operation %s panicked: %s" % (st["o"], st["panic"]),
                              {"profile": profile, "request": rq, "step": st})
                    resp["steps"] = resp["steps"][:n]      # what a panicked call left behind is not judged
                    break
            traces.append(to_trace(rq["id"], resp))
        if not traces:
            return
        verdicts, vs = memcheck.validate("mem/ArenaTrace.tla", "mem/ArenaTrace.cfg", traces, "arena_traces",
                                         batch=len(traces), workers=6, timeout=self.timeout)
        self.vstats["runs"] += vs["runs"]
        self.vstats["states"] += vs["states"]
        self.vstats["wall_s"] = round(self.vstats["wall_s"] + vs["wall_s"], 1)
        page = self.info["page"]
        for tid, ver in verdicts.items():
            rq, resp = by_id[tid]
            m = rq["m"]
            if ver["verdict"] == "accept":
                self.accepted += 1
                if rq["m"]["scale"] == "real" and len(self.candidates) < 40:
                    self.candidates.append(to_trace(0, resp))
                if len(self.samples) < 3 and (self.accepted % 9973 == 1):
                    self.samples.append({"build": profile, "request": {k: rq[k] for k in rq if k not in ("m", "id", "modes")},
                                         "recorded_steps": resp["steps"][:6], "verdict": "accept"})
                for st, (pf, pb, px, ms, ma) in zip(resp["steps"], m.get("pred", [])):
                    # information only: how closely the refinement predicts the real placement
                    if pf or ms >= HUGE or st["fail"] or st["o"] == "skip" or ma > MODEL_BASE_ALIGN or ma * m["unit"] > page:
                        break
                    self.compared += 1
                    if st["off"] != px * m["unit"] or (st["o"] in ("alloc", "allocz", "grow", "shrink") and st["beg"] != pb * m["unit"]):
                        self.deviations += 1
                continue
            self.rejected += 1
            why = ver["why"]
            st = resp["steps"][ver["k"] - 1]
            if why.startswith("harness-"):
                raise common.ToolError("a trace was rejected for a harness reason (%s) at step %d: %s\nrequest %s" % (why, ver["k"], json.dumps(st), json.dumps(rq)))
            key = "%s:%s" % (why, st["o"])
            if st["o"] in ("alloc", "allocz", "grow", "shrink"):
                key += ":" + align_class(st["a"], page)
            desc = ("the abstract arena specification rejects step %d (%s via %s, size %s, alignment %s) of a recorded history: %s "
                    "[returned base+%s len %s, address mod alignment %s, offset() %s, commit %s; build %s, root %s]"
                    % (ver["k"], st["o"], st.get("api"), st["s"], st["a"], why, st["beg"], st["len"], st["amod"], st["off"], st["commit"],
                       profile, m["root"]))
            v.finding(key, desc, {"profile": profile, "request": rq, "rejected_step": ver["k"], "why": why, "recorded": resp})


def corruptions(trace):
    """Damaged copies of an ACCEPTED trace: (name, expected reason, trace).  One field changed or one
    recorded step dropped."""
    out = []
    steps = trace["steps"]

    def copy():
        return json.loads(json.dumps(trace))

    ok_allocs = [n for n, st in enumerate(steps) if st["o"] in ("alloc", "allocz") and not st["fail"] and st["len"] > 0]
    if ok_allocs:
        n = ok_allocs[len(ok_allocs) // 2]
        t = copy()
        t["steps"][n]["amod"] = 1
        out.append(("address-mod-alignment-changed", "misaligned", t))
        t = copy()
        t["steps"][n]["len"] = t["steps"][n]["s"] - 1
        out.append(("returned-length-shortened", "short-block", t))
        t = copy()
        t["steps"][n]["bad"] = [t["steps"][n]["i"]]
        out.append(("pattern-of-a-live-block-damaged", "live-block-corrupted", t))
    for n in ok_allocs:
        prev = [m for m in ok_allocs if m < n and steps[m]["i"] in steps[n - 1]["seen"] and steps[m]["beg"] + steps[m]["len"] <= steps[n]["beg"]] if n else []
        if prev:
            t = copy()
            t["steps"][n]["beg"] = steps[prev[0]]["beg"]
            out.append(("block-placed-on-a-live-block", "below-offset", t))
            break
    failed = [n for n, st in enumerate(steps) if st["o"] in ("alloc", "allocz", "grow") and st["fail"]]
    if failed:
        t = copy()
        t["steps"][failed[0]]["off"] += 8
        out.append(("failed-request-moved-offset", "failed-request-changed-offset", t))
    resets = [n for n, st in enumerate(steps) if st["o"] in ("reset", "release") and n > 0 and steps[n - 1]["off"] != st["off"]]
    if resets:
        t = copy()
        t["steps"][resets[0]]["off"] += 1
        out.append(("reset-offset-changed", "reset-offset-is-not-the-mark", t))
        t = copy()
        del t["steps"][resets[0]]
        out.append(("reset-event-dropped", None, t))
    grows = [n for n, st in enumerate(steps) if st["o"] == "grow" and not st["fail"]]
    if grows:
        t = copy()
        t["steps"][grows[0]]["kept"] = False
        out.append(("grow-lost-contents", "contents-lost", t))
    return out


def selftest(candidates, timeout):
    """Trace validation must have teeth: every damaged copy of an accepted trace is rejected."""
    damaged = []
    for c in candidates:
        for name, want, t in corruptions(c):
            t["id"] = len(damaged)
            damaged.append((name, want, t))
    if not damaged:
        raise common.ToolError("no accepted long trace to corrupt")
    verdicts, _ = memcheck.validate("mem/ArenaTrace.tla", "mem/ArenaTrace.cfg", [t for _, _, t in damaged], "arena_selftest", workers=4, timeout=timeout)
    seen = collections.Counter()
    for name, want, t in damaged:
        ver = verdicts[t["id"]]
        if want is None:
            # a history with one event dropped may still be a history of SOME correct implementation
            # (e.g. the next recorded reset goes further down anyway): most, not all, are rejected
            seen[name + (":rejected" if ver["verdict"] == "reject" else ":still-a-valid-history")] += 1
            continue
        if ver["verdict"] != "reject" or ver["why"] != want:
            raise common.ToolError("damaged trace (%s) was not rejected as expected: %s" % (name, ver))
        seen[name] += 1
    for name in {n for n, w, _ in damaged if w is None}:
        if seen[name + ":rejected"] == 0:
            raise common.ToolError("no trace with a dropped event (%s) was rejected" % name)
    return dict(seen)


def run(tier):
    params = tier_params(tier)
    common.build_harness()
    common.build_harness("fast")
    v = common.Verdict("C11", tier, "model_checking")

    infos = {}
    for profile in ("dev", "fast"):
        r = memcheck.replay([{"id": 0, "info": True}], "arena", profile=profile, nworkers=1)
        if r[0].get("st") != "ok":
            raise common.ToolError("vh arena info failed in profile %s: %s" % (profile, r[0]))
        infos[profile] = r[0]
    info = infos["dev"]
    if info["chunk"] % MODEL_CHUNK or info["chunk"] != infos["fast"]["chunk"]:
        raise common.ToolError("unexpected chunk size %s" % info["chunk"])

    design_mutation()
    judge = Judge(v, info, params["tlc_timeout"])
    models = []
    states = transitions = unique = 0
    for model, variants, gshare in params["plans"]:
        hist, r, cover = enumerate_histories(model, params["tlc_timeout"])
        states += r.distinct
        transitions += r.generated
        unique += len(hist)
        models.append({"constants": model, "distinct_states": r.distinct, "transitions": r.generated, "depth": r.depth,
                       "wall_s": round(r.wall, 1), "unique_histories": len(hist), "last_operation_kinds": dict(cover),
                       "variants_per_history": variants, "global_scratch_share": "1/%d" % gshare})
        judge.run(history_requests(hist, info, variants, gshare))
        del hist
    judge.run(random_requests(info, params["random"], params["random_steps"]))

    # the self-test needs an accepted trace; when the implementation is so wrong that none is
    # accepted, the rejections above are the verdict and must not be masked by a tool error
    damaged = selftest(judge.candidates, params["tlc_timeout"]) if (judge.candidates or not v.findings) else {"skipped": "no accepted trace (violations reported)"}

    v.coverage = {
        "states": states,
        "transitions": transitions,
        "traces_validated_against_impl": judge.accepted,
        "traces_rejected": judge.rejected,
        "evaluations": sum(judge.counts.values()),
        "distinct_nontrivial": unique,
        "rule": "one operation history per transition of the refinement's reachable graph (shortest path to the pre-state + the "
                "transition), de-duplicated by request sequence and with proper prefixes removed; non-trivial = at least one "
                "operation; each is replayed in several scalings / API routes / builds, plus seeded long histories",
        "exhaustive": True,
        "models": models,
        "refinement_checked_against_abstract_layer": True,
        "offset_alignment_design_rejected_by_the_specification": True,
        "random_long_histories": params["random"] * 2,
        "random_steps_each": params["random_steps"],
        "replays": dict(judge.counts),
        "recorded_steps_by_operation_and_api": dict(judge.api_used),
        "recorded_steps_by_outcome": dict(judge.outcome),
        "trace_validation": judge.vstats,
        "implementation_constants": {"chunk": info["chunk"], "page": info["page"], "slack_dev": infos["dev"]["slack"], "slack_fast": infos["fast"]["slack"]},
        "refinement_predictions_compared": judge.compared,
        "refinement_deviations_information_only": judge.deviations,
        "damaged_traces_rejected_by_ArenaTrace": damaged,
        "samples": judge.samples,
    }
    v.assumptions = [
        "the harness' shadow table follows the abstract rule for liveness (reset kills exactly the blocks placed after the mark); ArenaTrace re-derives the live set and rejects a mismatch as a harness error",
        "readable/writable is observed by writing and re-reading a byte pattern over every returned block (a fault kills the worker and is reported as a crash)",
        "a request must succeed when an aligned block fits above offset(), up to the measured per-block overhead of the implementation (0 today); commit failures of the OS are not modelled",
        "shrink is exercised on the tail block only (shrinking another block is a debug assertion by design); alloc_uninit(_slice) report failure by panicking",
    ]
    return v.finish()


def replay(path):
    """bin/check C11 quick --replay FILE: re-runs the recorded request on the current tree and has
    ArenaTrace judge what the arena does now."""
    d = json.load(open(path))
    rep = d["replay"]
    profile = rep.get("profile", "dev")
    common.build_harness(profile if profile != "dev" else "dev")
    rq = dict(rep["request"])
    rq["id"] = 0
    rq.pop("modes", None)
    resp = memcheck.replay([rq], "arena", profile=profile, nworkers=1)[0]
    if resp.get("st") != "ok":
        print("REPLAY C11: the harness still dies: %s" % json.dumps(resp)[:400])
        return 1
    verdicts, _ = memcheck.validate("mem/ArenaTrace.tla", "mem/ArenaTrace.cfg", [to_trace(0, resp)], "arena_replay", workers=1, timeout=300)
    ver = verdicts[0]
    print("REPLAY C11: %s %s" % (ver["verdict"], ("at step %d: %s %s" % (ver["k"], ver["why"], json.dumps(resp["steps"][ver["k"] - 1]))) if ver["verdict"] != "accept" else ""))
    return 0 if ver["verdict"] == "accept" else 1
