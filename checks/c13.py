"""C13 - string built-ins agree with their specification on every input.

Specs (specs/text): StrOps - declarative definitions over code-point sequences (Find = byte offset
of the FIRST occurrence or -1, Replace = leftmost non-overlapping, Split/Join, Slice with floor /
negative-from-end / clamp, Len, Trim, Upper/Lower over an explicit table, ToNumber for plain
decimal literals).  TwoWay - a step-by-step transcription of tw::find (all four length tiers; the
tier threshold is a constant that TLC lowers to 2 so that the two-way tier is run on EVERY
haystack/needle pair over {a,b} up to a length): NoPanic, InRange, Correct (= StrOps!Find),
Variant / Bounded (termination as a safety property).  The three lines of the long tier that were
wrong in the code as found are constants; each as-found variant must still be REFUTED by TLC
(the model can tell the defect from the repair) and the alternative guard must hold.

Binding
 R  StrCases.tla enumerates the exhaustive small domain over {a, b, e-acute} (find / replace /
    split+join / slice with negative, fractional, huge, NaN and inf bounds / len), white-space
    strings (trim), the case table (to_uppercase / to_lowercase) and number texts (to_number);
    TLC evaluates StrOps on each case and prints the expected values.  Every case is replayed on
    the public Rust functions AND through a script run by the library pipeline; results must be
    valid UTF-8 and equal to the spec's.  Open behaviour (empty `old`, empty split pattern beyond
    the round trip, NaN/inf bounds, letters outside the case table, texts that are not plain
    decimal literals) only has to succeed with a valid string / a number.
 V  Needles longer than 16 bytes cannot be enumerated: a seeded generator builds periodic,
    near-periodic, Fibonacci / Thue-Morse and random needles (17..~90 bytes, with multi-byte
    letters) and haystacks full of near misses; the real matcher runs with its iteration hook on;
    TwoWayTrace.tla (threshold 16) judges every recorded iteration sequence with its ABSTRACT layer
    (memchr contract, truthful decisions, progress, no occurrence skipped, result = StrOps!FindIdx
    over the bytes, replace = StrOps!Replace) and reports whether it is exactly a behaviour of the
    transcription (tight layer: evidence only)."""
import collections
import json
import os
import queue
import random
import threading

import common
import runner
import tlc

PID = "C13"
HUGE = [2147483648.0, 4294967296.5, 9007199254740992.0, 9223372036854775808.0, 1e300]


def text(c):
    return "".join(map(chr, c))


def tier_of(nbytes):
    return "n0" if nbytes == 0 else "n1" if nbytes == 1 else "n2" if nbytes == 2 else "n3-16" if nbytes <= 16 else "n17+"


def blen(c):
    return len(text(c).encode())


# ------------------------------------------------------------------ phase M: the matcher model
def model_phase(v, cov, tier):
    quick = tier == "quick"
    maxh, maxn = (8, 5) if quick else (12, 7)
    r = tlc.run("text/TwoWay.tla", "text/TwoWay.cfg", workers=6, env={"MAXH": maxh, "MAXN": maxn}, timeout=240 if quick else 2400)
    if r.timed_out or r.rc not in (0, 12, 13):
        raise common.ToolError("TwoWay.cfg: rc=%s timed_out=%s\n%s" % (r.rc, r.timed_out, "\n".join(r.tail[-15:])))
    cov["model"] = {"TwoWay.cfg": {"threshold": 2, "max_haystack": maxh, "max_needle": maxn, "alphabet": "ab", "pairs": r.coverage.get("Init", (0, 0))[0],
                                   "distinct_states": r.distinct, "states_generated": r.generated, "wall_s": round(r.wall, 1),
                                   "actions": {k: c[1] for k, c in r.coverage.items()}, "holds": r.rc == 0,
                                   "checked": ["NoPanic", "InRange", "Correct", "Bounded", "Progress", "Variant"]}}
    cov["states"] += r.distinct
    cov["transitions"] += r.generated
    if r.rc != 0:
        what = next((e for e in r.errors if "violated" in e), "a property is violated")
        trace = [ln for ln in r.tail if ln.startswith("/\\ h =") or ln.startswith("/\\ n =") or ln.startswith("/\\ res =")][-3:]
        v.finding("model:TwoWay", "the transcription of tw::find as it is now violates the design: %s %s" % (what, trace), {"cfg": "text/TwoWay.cfg", "tail": r.tail[-40:]})
    else:
        for a in ("Entry", "Factorise", "GuardExit", "MemchrMiss", "BeforeCrit", "CompareHit", "CompareMiss"):
            if r.coverage.get(a, (0, 0))[1] == 0:
                raise common.ToolError("vacuous model: action %s of TwoWay never fired" % a)
    # the design review: every as-found variant must be refuted, the alternative guard must hold
    review = {}
    for cfg, expect in (("TwoWay_found.cfg", False), ("TwoWay_bound.cfg", False), ("TwoWay_shift.cfg", False),
                        ("TwoWay_guard.cfg", False), ("TwoWay_tight.cfg", True)):
        q = tlc.run("text/TwoWay.tla", "text/" + cfg, workers=4, env={"MAXH": 7, "MAXN": 4}, timeout=240, coverage=False)
        if q.timed_out or q.rc not in (0, 12, 13):
            raise common.ToolError("%s: rc=%s\n%s" % (cfg, q.rc, "\n".join(q.tail[-15:])))
        what = next((e.replace("Error: ", "") for e in q.errors if "violated" in e), "")
        review[cfg] = {"holds": q.rc == 0, "refuted_by": what, "distinct_states": q.distinct}
        cov["states"] += q.distinct
        cov["transitions"] += q.generated
        if (q.rc == 0) != expect:
            raise common.ToolError("model sensitivity lost: %s %s" % (cfg, "holds although it is the code as found" if q.rc == 0 else "is refuted: " + what))
    cov["model"]["design_review"] = review


# ------------------------------------------------------------------ phase R: exhaustive small domain
def bound_values(b):
    """concrete f64 representatives of a bound token (as JSON values for the worker)"""
    if b["tok"] == "q":
        return [b["q"] / 4.0]
    if b["tok"] == "huge":
        return HUGE
    if b["tok"] == "-huge":
        return [-x for x in HUGE]
    return [b["tok"]]


def bound_class(b):
    if b["tok"] != "q":
        return b["tok"]
    q = b["q"]
    return ("neg" if q < 0 else "zero" if q == 0 else "pos") + ("" if q % 4 == 0 else "frac")


def expand(rec, P):
    """TLC record of one subject -> (calls for the worker, expectations)."""
    calls, exp = [], []
    k = rec["kind"]

    def add(call, **e):
        calls.append(call)
        exp.append(e)
    if k == "abe":
        for j, n in enumerate(P["needles"]):
            add(["find", n], op="find", b=rec["find"][j][0], c=rec["find"][j][1], cls=tier_of(blen(n)), nontrivial=0 < len(n) <= len(rec["s"]))
        nw = len(P["news"])
        for j, e in enumerate(rec["replace"]):
            old, new = P["olds"][j // nw], P["news"][j % nw]
            add(["replace", old, new], op="replace", m=e["m"], r=e["r"], cls=tier_of(blen(old)), nontrivial=e["m"] and e["r"] != rec["s"])
        for j, e in enumerate(rec["split"]):
            add(["split", P["pats"][j]], op="split", m=e["m"], r=e["r"], cls=tier_of(blen(P["pats"][j])), nontrivial=e["m"] and len(e["r"]) > 1)
        nb = len(P["bounds"])
        for j, e in enumerate(rec["slice"]):
            a, b = P["bounds"][j // nb], P["bounds"][j % nb]
            for x in bound_values(a):
                for y in bound_values(b):
                    add(["slice", x, y], op="slice", m=e["m"], r=e["r"], cls="a=%s:b=%s" % (bound_class(a), bound_class(b)), nontrivial=e["m"] and len(rec["s"]) > 0)
        add(["len"], op="len", r=rec["len"], nontrivial=len(rec["s"]) > 0)
    elif k == "ws":
        add(["trim"], op="trim", r=rec["trim"], nontrivial=rec["trim"] != rec["s"])
        add(["len"], op="len", r=rec["len"], nontrivial=len(rec["s"]) > 0)
    elif k == "case":
        add(["upper"], op="upper", m=rec["m"], r=rec["upper"], nontrivial=rec["upper"] != rec["s"])
        add(["lower"], op="lower", m=rec["m"], r=rec["lower"], nontrivial=rec["lower"] != rec["s"])
        add(["len"], op="len", r=rec["len"], nontrivial=len(rec["s"]) > 0)
    elif k == "num":
        add(["num"], op="num", num=rec["num"], nan=rec["nan"], nontrivial=rec["num"]["ok"] or rec["nan"])
    return calls, exp


def is_substring(r, s):
    return r == [] or any(s[i:i + len(r)] == r for i in range(len(s) - len(r) + 1))


def judge(s, e, got, units):
    """None if the implementation's answer `got` is acceptable for expectation e, else (kind, text).
    Direct find / replace answers carry the free function's result as well ("raw"): judged the same way."""
    bad = judge1(s, e, got, units)
    if bad is None and isinstance(got, dict) and "raw" in got:
        bad = judge1(s, e, got["raw"], collections.Counter())
        if bad:
            bad = (bad[0], "builtins::%s: %s" % (e["op"], bad[1]))
    return bad


def judge1(s, e, got, units):
    op = e["op"]
    if got is None:
        return ("missing", "no result")
    if "panic" in got:
        return ("panic", got["panic"])

    def string(g):
        if "bad" in g:
            return None
        return g.get("s")
    if op == "find":
        x = got.get("n")
        if not isinstance(x, (int, float)):
            return ("value", "find returned %r" % (x,))
        if x == e["b"]:
            units["byte"] += 1
        if x == e["c"]:
            units["cp"] += 1
        if x != e["b"] and x != e["c"]:
            return ("value", "find returned %r, the first occurrence is at byte %d (code point %d)" % (x, e["b"], e["c"]))
        if e["b"] != e["c"]:
            units["ambiguous"] += 1
            if x == e["b"]:
                units["only_byte"] += 1
            else:
                units["only_cp"] += 1
        return None
    if op == "len":
        return None if got.get("n") == e["r"] else ("value", "len returned %r, expected %d" % (got.get("n"), e["r"]))
    if op == "num":
        x = got.get("n")
        if x is None:
            return ("value", "to_number did not return a number: %r" % (got,))
        if e["num"]["ok"]:
            return None if x == e["num"]["q"] / 4.0 else ("value", "to_number returned %r, expected %r" % (x, e["num"]["q"] / 4.0))
        if e["nan"]:
            return None if x == "NaN" else ("value", "to_number returned %r for a text that is not a number (NaN expected)" % (x,))
        return None
    if op == "split":
        parts, joined = got.get("parts"), got.get("joined")
        if parts is None or joined is None:
            return ("value", "split/join returned %r" % (got,))
        if any("bad" in p for p in parts) or "bad" in joined:
            return ("invalid-utf8", "split/join produced invalid UTF-8: %r" % (got,))
        if joined.get("s") != s:
            return ("roundtrip", "join(split(s, p), p) = %r, not s" % (text(joined.get("s") or []),))
        if e["m"] and [p.get("s") for p in parts] != e["r"]:
            return ("value", "split returned %r, expected %r" % ([text(p.get("s") or []) for p in parts], [text(p) for p in e["r"]]))
        return None
    # string results: replace slice trim upper lower
    if "bad" in got:
        return ("invalid-utf8", "%s produced invalid UTF-8 bytes %r" % (op, got["bad"]))
    r = string(got)
    if r is None:
        return ("value", "%s returned %r" % (op, got))
    if e.get("m", True):
        return None if r == e["r"] else ("value", "%s returned %r, expected %r" % (op, text(r), text(e["r"])))
    if op == "slice" and not is_substring(r, s):
        return ("value", "slice with a NaN/inf bound returned %r, not a substring" % (text(r),))
    return None


def scriptable(s):
    return not any(c in (10, 13, 34, 92, 123, 125) for c in s)


def run_pool(reqs, timeout, max_bad=6, nworkers=16):
    """runner.run_requests with an emergency brake: a hang costs a whole timeout and a defect that hangs one case
    usually hangs hundreds, so once `max_bad` workers hung or died no further request is started.
    Returns ({id: {mode: response}}, aborted)."""
    q = queue.Queue()
    for r in reqs:
        q.put(r)
    results, lock, state = {}, threading.Lock(), {"bad": 0}

    def work():
        w = runner.Worker([runner.VH, "strs"])
        while state["bad"] < max_bad:
            try:
                req = q.get_nowait()
            except queue.Empty:
                break
            modes, out = list(req["modes"]), {}
            while modes and state["bad"] < max_bad:
                r2 = dict(req, modes=modes)
                if not w.send(r2):
                    w.kill()
                    w.start()
                    w.send(r2)
                pending, current = list(modes), None
                while pending:
                    ans = w.readline(timeout)
                    if isinstance(ans, tuple):
                        kind, info = ans
                        blame = current if current is not None else pending[0]
                        if kind == "HANG":
                            w.kill()
                            out[blame] = {"st": "HANG"}
                        else:
                            out[blame] = {"st": "CRASH", "crash": runner.crash_summary(info)}
                        with lock:
                            state["bad"] += 1
                        w.start()
                        pending.remove(blame)
                        modes = pending
                        break
                    if "begin" in ans:
                        current = ans["mode"]
                        continue
                    out[ans["mode"]] = ans
                    pending.remove(ans["mode"])
                    current = None
                else:
                    modes = []
            with lock:
                results[req["id"]] = out
        w.close()
    threads = [threading.Thread(target=work, daemon=True) for _ in range(max(1, min(nworkers, len(reqs))))]
    for t in threads:
        t.start()
    for t in threads:
        t.join()
    return results, state["bad"] >= max_bad


def why_of(resp):
    return resp.get("panic") or (resp.get("crash") or {}).get("msg") or resp.get("diag") or resp.get("st")


def diagnose(s, calls, mode):
    """A whole request failed (hang, crash, panic inside a script): which call is it?  Per operation first, then the
    first calls of the failing operation one by one.  Returns (index of a failing call or None, operation or None, response)."""
    ops = []
    for c in calls:
        if c[0] not in ops:
            ops.append(c[0])
    by_op = {op: [j for j, c in enumerate(calls) if c[0] == op] for op in ops}
    out = runner.run_requests([{"id": op, "modes": [mode], "s": s, "calls": [calls[j] for j in js]} for op, js in by_op.items()], mode="strs", timeout=5.0)
    for op in ops:
        resp = out.get(op, {}).get(mode, {"st": "CRASH"})
        if resp.get("st") == "done" and len(resp.get("r", [])) == len(by_op[op]):
            continue
        js = by_op[op][:64]
        one = runner.run_requests([{"id": j, "modes": [mode], "s": s, "calls": [calls[j]]} for j in js], mode="strs", timeout=3.0)
        for j in js:
            r1 = one.get(j, {}).get(mode, {"st": "CRASH"})
            if r1.get("st") != "done" or len(r1.get("r", [])) != 1:
                return j, op, r1
        return None, op, resp
    return None, None, {"st": "not reproducible in isolation"}


def replay_phase(v, cov, tier):
    quick = tier == "quick"
    env = ({"MAXH": 5, "MAXN": 3, "REPH": 4, "REPO": 2, "REPW": 2, "SPLH": 4, "SPLP": 2, "SLIH": 3, "WSH": 3, "CASEH": 3} if quick else
           {"MAXH": 7, "MAXN": 4, "REPH": 5, "REPO": 3, "REPW": 2, "SPLH": 6, "SPLP": 3, "SLIH": 4, "WSH": 4, "CASEH": 4})
    r = tlc.run("text/StrCases.tla", "text/StrCases.cfg", workers=6, env=env, timeout=300 if quick else 2400)
    if r.timed_out or r.rc != 0:
        raise common.ToolError("StrCases: rc=%s timed_out=%s %s\n%s" % (r.rc, r.timed_out, r.errors[:3], "\n".join(r.tail[-15:])))
    params = [x for x in r.records if x.get("tag") == "PARAMS"]
    subjects = [x for x in r.records if x.get("tag") == "S"]
    if not params or len(subjects) != r.distinct:
        raise common.ToolError("StrCases: %d subject records for %d states" % (len(subjects), r.distinct))
    P = params[0]
    cov["states"] += r.distinct
    cov["transitions"] += r.generated
    cov["domain"] = {"bounds": env, "subjects": dict(collections.Counter(x["kind"] for x in subjects)), "needles": len(P["needles"]),
                     "olds": len(P["olds"]), "news": len(P["news"]), "patterns": len(P["pats"]), "slice_bound_tokens": len(P["bounds"]),
                     "huge_representatives": HUGE, "tlc_wall_s": round(r.wall, 1), "laws_checked_on_every_subject": ["Laws", "WsLaws", "CaseLaws"]}
    reqs, meta = [], {}
    for i, rec in enumerate(subjects):
        calls, exp = expand(rec, P)
        modes = ["direct", "script"] if scriptable(rec["s"]) else ["direct"]
        reqs.append({"id": i, "modes": modes, "s": rec["s"], "calls": calls})
        meta[i] = (rec, calls, exp)
    res, aborted = run_pool(reqs, timeout=10.0)
    counts = collections.Counter()
    diagnosed = 0
    if aborted:
        cov["replay_aborted"] = "stopped after %d of %d subjects: workers hung or died repeatedly" % (len(res), len(reqs))
    nontrivial = set()
    units = {"direct": collections.Counter(), "script": collections.Counter()}
    samples = {}
    for i, (rec, calls, exp) in meta.items():
        s = rec["s"]
        if i not in res:
            continue                                  # not issued (aborted early)
        for mode in reqs[i]["modes"]:
            resp = res.get(i, {}).get(mode)
            if resp is None:
                if aborted:
                    continue
                raise common.ToolError("no answer for subject %r in mode %s" % (text(s), mode))
            st = resp.get("st")
            got = resp.get("r", [])
            if st != "done" or len(got) != len(calls):
                counts["failed-runs"] += 1
                kind = "hang" if st == "HANG" else "panic" if st in ("PANIC", "CRASH") else "error"
                if st not in ("PANIC", "CRASH", "HANG") and len(got) < len(calls):
                    j, op, r1 = len(got), calls[len(got)][0], resp          # a runtime error: the first call without a result
                elif diagnosed < 3:
                    diagnosed += 1
                    j, op, r1 = diagnose(s, calls, mode)
                else:
                    j, op, r1 = None, None, resp
                if j is not None:
                    v.finding("%s:%s:%s" % (op, kind, exp[j].get("cls", "")), "%s route: %r.%s ends with %s: %s" % (mode, text(s), calls[j], st, why_of(r1)),
                              {"route": mode, "s": s, "text": text(s), "call": calls[j], "st": st, "detail": why_of(r1), "src": r1.get("src", "")[-400:]})
                else:
                    v.finding("%s:%s:" % (op or "subject-" + rec["kind"], kind), "%s route: the calls on %r end with %s: %s" % (mode, text(s), st, why_of(resp)),
                              {"route": mode, "s": s, "text": text(s), "calls": len(calls), "st": st, "detail": why_of(resp)})
                continue
            for j, e in enumerate(exp):
                counts[mode + ":" + e["op"]] += 1
                if mode == "direct" and (not e.get("m", True) or (e["op"] == "num" and not e["num"]["ok"] and not e["nan"])):
                    counts["unmodelled:" + e["op"]] += 1
                if e["nontrivial"]:
                    nontrivial.add((i, j))
                bad = judge(s, e, got[j], units[mode])
                if bad:
                    v.finding("%s:%s:%s" % (e["op"], bad[0], e.get("cls", "")), "%s route: %r.%s -> %s" % (mode, text(s), calls[j], bad[1]),
                              {"route": mode, "s": s, "text": text(s), "call": calls[j], "expected": {k: x for k, x in e.items() if k not in ("nontrivial",)}, "got": got[j]})
                elif e["op"] not in samples and e["nontrivial"] and mode == "script" and (len(s) >= 3 or (rec["kind"] == "num" and e["num"]["ok"])) and (rec["kind"] != "abe" or 233 in s):
                    samples[e["op"]] = {"route": mode, "s": text(s), "call": calls[j], "spec": {k: x for k, x in e.items() if k in ("b", "c", "r", "num")}, "impl": got[j]}
    for mode, u in units.items():
        if u["only_byte"] and u["only_cp"]:
            v.finding("find:unit", "%s route: find answers in byte offsets for some inputs and in code-point indexes for others" % mode, dict(u))
    cov["replay"] = {"calls_by_route_and_op": dict(counts), "find_unit": {m: dict(u) for m, u in units.items()}}
    return sum(len(m[1]) for m in meta.values()), len(nontrivial), list(samples.values())


# ------------------------------------------------------------------ phase V: long needles, recorded iterations
def fib_word(n, a="a", b="b"):
    x, y = a, a + b
    while len(y) < n:
        x, y = y, y + x
    return y[:n]


def thue_morse(n, a="a", b="b"):
    return "".join(b if bin(i).count("1") % 2 else a for i in range(n))


def gen_long_cases(rng, count):
    alphabets = ["ab", "ab", "abc", "aé", "abé你", "xy "]
    out = []
    while len(out) < count:
        al = rng.choice(alphabets)
        fam = rng.choice(["periodic", "periodic", "near", "near", "fib", "tm", "random", "unary"])
        L = rng.randint(17, 64) if rng.random() < 0.8 else rng.randint(65, 90)
        if fam in ("periodic", "near"):
            u = "".join(rng.choice(al) for _ in range(rng.randint(1, 9)))
            n = (u * (L // len(u) + 1))[:L]
            if fam == "near":
                for _ in range(rng.choice([1, 1, 2])):
                    p = rng.choice([0, L - 1, L // 2, rng.randrange(L)])
                    n = n[:p] + rng.choice([c for c in al if c != n[p]] or ["z"]) + n[p + 1:]
        elif fam == "fib":
            n = fib_word(L, *rng.sample(al, 2))
        elif fam == "tm":
            n = thue_morse(L, *rng.sample(al, 2))
        elif fam == "unary":
            n = al[0] * L
        else:
            n = "".join(rng.choice(al[:2]) for _ in range(L))
        if len(n.encode()) <= 16:
            continue
        # haystacks full of near misses
        shape = rng.choice(["self", "inside", "inside", "end", "start", "absent", "absent", "twice", "ext", "short", "overlap"])
        near = n[:-1] + rng.choice([c for c in al if c != n[-1]] or ["z"])
        near2 = rng.choice([c for c in al if c != n[0]] or ["z"]) + n[1:]
        pad = lambda k: (n * 3)[rng.randrange(len(n)):][:k] if rng.random() < 0.6 else "".join(rng.choice(al) for _ in range(k))
        if shape == "self":
            h = n
        elif shape == "inside":
            h = pad(rng.randint(0, 60)) + near[rng.randrange(len(near)):] + n + pad(rng.randint(0, 40))
        elif shape == "end":
            h = near * rng.randint(0, 2) + pad(rng.randint(0, 30)) + n
        elif shape == "start":
            h = n + pad(rng.randint(0, 50))
        elif shape == "absent":
            h = near * rng.randint(1, 3) + near2 + n[:-1]
        elif shape == "twice":
            h = pad(rng.randint(0, 20)) + n + pad(rng.randint(0, 20)) + n
        elif shape == "ext":
            h = (n * 4)[:len(n) + rng.randint(0, 2 * len(n))]
        elif shape == "overlap":
            k = rng.randint(1, len(n) - 1)
            h = n[:k] + n + n[k:]
        else:
            h = n[:rng.randint(0, len(n) - 1)]
        new = rng.choice(["", "<>", "é", n[:3]])
        out.append({"family": fam, "shape": shape, "h": h, "n": n, "new": new})
    return out


def trace_phase(v, cov, tier):
    quick = tier == "quick"
    rng = random.Random(common.seed() * 7919 + 13)
    cases = gen_long_cases(rng, 1500 if quick else 12000)
    reqs = []
    for i, c in enumerate(cases):
        h, n, new = [ord(x) for x in c["h"]], [ord(x) for x in c["n"]], [ord(x) for x in c["new"]]
        reqs.append({"id": i, "modes": ["trace", "direct", "script"], "h": h, "n": n, "new": new, "s": h,
                     "calls": [["find", n], ["replace", n, new], ["split", n]]})
    res, aborted = run_pool(reqs, timeout=10.0)
    if aborted:
        cov["long_needles_aborted"] = "stopped after %d of %d cases: workers hung or died repeatedly" % (len(res), len(reqs))
    rows, index = [], []
    fam = collections.Counter()
    for i, c in enumerate(cases):
        if i not in res or "trace" not in res[i]:
            continue
        t = res[i]["trace"]
        label = "%s/%s |n|=%d |h|=%d" % (c["family"], c["shape"], len(c["n"].encode()), len(c["h"].encode()))
        if t.get("st") != "done":
            why = why_of(t)
            v.finding("find:%s:n17+" % ("hang" if t.get("st") == "HANG" else "panic"), "find/replace with a needle of more than 16 bytes fails: %s (%s)" % (why, label),
                      {"h": c["h"], "n": c["n"], "new": c["new"], "st": t.get("st"), "detail": why})
            continue
        if not t.get("rep_utf8", False):
            v.finding("replace:invalid-utf8:n17+", "replace produced invalid UTF-8 (%s)" % label, {"h": c["h"], "n": c["n"], "new": c["new"], "bytes": t.get("rep")})
        rows.append({"h": t["hb"], "n": t["nb"], "new": t["newb"], "res": t["res"], "rep": t["rep"], "events": t["events"]})
        index.append(i)
        fam[c["family"] + "/" + c["shape"]] += 1
    cov["long_needles"] = {"generated": len(cases), "recorded": len(rows), "by_family_and_haystack": dict(fam)}
    if not rows:
        return 0, 0, []
    mutate = os.environ.get("C13_SELFTEST")          # demonstration only: damage one recorded trace
    if mutate:
        selftest_damage(rows, mutate)
    path = os.path.join(common.VERIF, "work", "c13_traces_%d.ndjson" % os.getpid())
    tlc.write_ndjson(path, rows)
    try:
        r = tlc.run("text/TwoWayTrace.tla", "text/TwoWayTrace.cfg", workers=6, env={"CASES": path}, timeout=300 if quick else 2400, coverage=False)
    finally:
        os.remove(path)
    if r.timed_out or r.rc != 0:
        raise common.ToolError("TwoWayTrace: rc=%s timed_out=%s %s\n%s" % (r.rc, r.timed_out, r.errors[:3], "\n".join(r.tail[-15:])))
    verdicts = {x["i"]: x for x in r.records if x.get("tag") == "VERDICT"}
    if len(verdicts) != len(rows):
        raise common.ToolError("TwoWayTrace: %d verdicts for %d traces" % (len(verdicts), len(rows)))
    cov["states"] += r.distinct
    cov["transitions"] += r.generated
    accepted = tight_ok = with_iters = iters = 0
    nontrivial = set()                                   # distinct (haystack, needle) pairs
    decisions = collections.Counter()
    samples = []
    for j, i in enumerate(index):
        c, row, vd = cases[i], rows[j], verdicts[j + 1]
        label = "%s/%s |n|=%d |h|=%d" % (c["family"], c["shape"], len(row["n"]), len(row["h"]))
        nit = max(0, len(row["events"]) - 1)
        iters += nit
        for e in row["events"][1:]:
            decisions[e.get("dec")] += 1
        if len(row["n"]) > 16 and len(row["n"]) <= len(row["h"]) and nit == 0:
            v.finding("trace:shape", "a call with a needle of %d bytes recorded no iteration of the long tier (%s)" % (len(row["n"]), label), {"h": c["h"], "n": c["n"]})
        if vd["abs"]:
            cond = sorted(vd["abs"], key=lambda x: (x[1] == 0, x[1], x[0]))[0]        # the earliest iteration-level condition first
            v.finding("trace:%s" % cond[0], "recorded iterations of find violate `%s` at event %d (%s); result %d, first occurrence %d; events %s" % (
                cond[0], cond[1], label, row["res"], vd["spec"], json.dumps(row["events"][max(0, cond[1] - 2):cond[1] + 1])),
                {"h": c["h"], "n": c["n"], "new": c["new"], "res": row["res"], "spec_find": vd["spec"], "violated": vd["abs"], "events": row["events"]})
        else:
            accepted += 1
            with_iters += nit > 0
            if nit >= 2:
                nontrivial.add((c["h"], c["n"]))
        tight_ok += bool(vd["tight"]["ok"])
        # the same call through the public functions and a script
        cp = len(bytes(row["h"][:vd["spec"]]).decode()) if vd["spec"] >= 0 else -1
        for mode in ("direct", "script"):
            if mode not in res[i]:
                continue                              # not run: the pool stopped early
            resp = res[i][mode]
            got = resp.get("r", [])
            if resp.get("st") != "done" or len(got) != 3:
                why = resp.get("panic") or (resp.get("crash") or {}).get("msg") or resp.get("st")
                v.finding("find:panic:n17+", "%s route fails on a needle of more than 16 bytes: %s (%s)" % (mode, why, label), {"route": mode, "h": c["h"], "n": c["n"], "detail": why})
                continue
            f, rp, sp = got
            if "panic" in f or "panic" in rp or "panic" in sp:
                v.finding("find:panic:n17+", "%s route panics on a needle of more than 16 bytes (%s)" % (mode, label), {"route": mode, "h": c["h"], "n": c["n"], "got": got})
                continue
            if f.get("n") not in (vd["spec"], cp):
                v.finding("find:value:n17+", "%s route: find returned %r, first occurrence at byte %d (%s)" % (mode, f.get("n"), vd["spec"], label), {"route": mode, "h": c["h"], "n": c["n"], "got": f})
            if "bad" in rp or [ord(x) for x in bytes(row["rep"]).decode(errors="replace")] != rp.get("s"):
                v.finding("replace:value:n17+", "%s route: replace differs from the direct call judged by StrOps!Replace (%s)" % (mode, label), {"route": mode, "h": c["h"], "n": c["n"], "new": c["new"], "got": rp})
            if "bad" in sp.get("joined", {"bad": 1}) or sp["joined"].get("s") != [ord(x) for x in c["h"]]:
                v.finding("split:roundtrip:n17+", "%s route: join(split(s, p), p) is not s (%s)" % (mode, label), {"route": mode, "h": c["h"], "n": c["n"], "got": sp})
        if len(samples) < 3 and nit >= 3 and not vd["abs"]:
            samples.append({"haystack": c["h"], "needle": c["n"], "find": row["res"], "events": row["events"][:5], "n_events": len(row["events"])})
    cov["long_needles"].update({"abstract_accepted": accepted, "with_iterations": with_iters, "iterations": iters, "decisions": dict(decisions),
                                "exactly_a_behaviour_of_the_transcription": tight_ok, "tlc_wall_s": round(r.wall, 1)})
    if tight_ok != len(rows):
        v.assumptions.append("%d of %d recorded traces are NOT behaviours of the transcription TwoWay.tla (constants of TwoWayTrace.cfg): the matcher was "
                             "re-tuned, so the exhaustive model-checking result no longer speaks about this code; the verdict rests on the abstract "
                             "trace judgement and the exhaustive replay only" % (len(rows) - tight_ok, len(rows)))
    cov["traces_validated_against_impl"] = accepted
    return len(rows), len(nontrivial), samples


def selftest_damage(rows, how):
    """C13_SELFTEST=<field>|drop: damages the first trace with >= 4 iterations (to demonstrate that validation rejects)."""
    for row in rows:
        if len(row["events"]) >= 5:
            if how == "drop":
                del row["events"][2]
            elif how == "res":
                row["res"] = row["res"] + 1
            else:
                row["events"][2][how] += 1
            return


def run(tier):
    common.build_harness()
    v = common.Verdict(PID, tier, "model_checking")
    cov = {"states": 0, "transitions": 0, "traces_validated_against_impl": 0}
    model_phase(v, cov, tier)
    ev_r, nt_r, samples_r = replay_phase(v, cov, tier)
    ev_v, nt_v, samples_v = trace_phase(v, cov, tier)
    cov["evaluations"] = ev_r * 2 + ev_v
    cov["distinct_nontrivial"] = nt_r + nt_v
    cov["rule"] = ("R: every (subject, operation, arguments) of the StrCases domain is a distinct case by enumeration; non-trivial = the needle is non-empty and "
                   "not longer than the haystack (find), the pattern occurs (replace, split), the subject is non-empty and both bounds are modelled (slice), "
                   "the result differs from the subject (trim, case), the text is a decimal literal or must be NaN (to_number). "
                   "V: generated (haystack, needle) pairs with a needle of more than 16 bytes; non-trivial = the recorded run has at least 2 loop iterations "
                   "and is accepted by the abstract layer")
    cov["exhaustive"] = True
    cov["samples"] = samples_r + samples_v
    v.coverage = cov
    v.assumptions += [
        "memchr_rs::memchr is trusted to return the first position of the byte at or after the offset (the trace judgement re-checks this on every recorded iteration)",
        "find returns a byte offset while the documentation says index: either unit is accepted, consistently per run (they agree when everything before the match is ASCII)",
        "empty `old` in replace, empty split pattern beyond the round trip, NaN/inf slice bounds, letters outside StrOps' case table and texts that are not plain "
        "decimal literals are not modelled: only success with a valid UTF-8 string / a number is demanded",
        "needles longer than 16 bytes are sampled (seeded generator), not enumerated; the exhaustive claim is for the small domain and for the model with threshold 2",
    ]
    return v.finish()


def replay(path):
    """bin/check C13 quick --replay FILE: runs the recorded case again on the current tree and prints what the
    implementation answers now (exit 1 if it still fails the recorded expectation, 0 otherwise)."""
    common.build_harness()
    rp = json.load(open(path))["replay"]
    if "call" in rp:
        modes = [rp.get("route", "direct")]
        out = runner.run_requests([{"id": 0, "modes": modes, "s": rp["s"], "calls": [rp["call"]]}], mode="strs", timeout=10.0)
        resp = out.get(0, {}).get(modes[0], {"st": "CRASH"})
        print("subject %r call %s route %s -> %s" % (rp.get("text"), rp["call"], modes[0], json.dumps(resp, ensure_ascii=False)[:600]))
        if resp.get("st") != "done" or len(resp.get("r", [])) != 1:
            return 1
        if "expected" in rp:
            e = dict(rp["expected"], nontrivial=True)
            bad = judge(rp["s"], e, resp["r"][0], collections.Counter())
            print("expected %s: %s" % (rp["expected"], "still fails: " + bad[1] if bad else "ok now"))
            return 1 if bad else 0
        return 0
    if "h" in rp and "n" in rp:
        h, n = [ord(x) for x in rp["h"]], [ord(x) for x in rp["n"]]
        out = runner.run_requests([{"id": 0, "modes": ["trace"], "h": h, "n": n, "new": [ord(x) for x in rp.get("new", "")]}], mode="strs", timeout=10.0)
        t = out.get(0, {}).get("trace", {"st": "CRASH"})
        first = rp["h"].encode().find(rp["n"].encode())
        print("find -> %s (st %s, %d events); first occurrence at byte %d" % (t.get("res"), t.get("st"), len(t.get("events", [])), first))
        return 0 if t.get("st") == "done" and t.get("res") == first else 1
    print("nothing to replay in %s" % path)
    return 2
