"""C08 - running out of depth is reported, not a native crash.

Spec: specs/stack/StackGuard.tla - the interpreter's recursive routines as frame kinds, edges
labelled with the language construct (shape) that makes one call another, the one stack-budget
guard (entry of the expression evaluator).  TLC enumerates every simple cycle up to length 4 and
says whether it contains a guard; an unguarded cycle can grow the native stack without limit.
Binding: native by necessity - every shape the model names is instantiated as a program at
growing depth (doubling) and run by the REAL `naija` binary, debug and release build, on the
default 8 MiB main-thread stack.  Oracle = the property: the process ends by diagnostic (`Stack
overflow` or another diagnostic) or normally - never by a signal, abort or "has overflowed its
stack".  The model's verdict per cycle is reported next to the native result (a guarded cycle
that crashes, or an unguarded one that survives the deepest nesting tried, is noted in evidence)."""
import os
import subprocess
import tempfile

import common
import tlc


def syntactic(n):
    s = {}
    s["paren"] = "shout(" + "(" * n + "1" + ")" * n + ")"
    s["bracket"] = "make a get " + "[" * n + "1" + "]" * n + "\nshout(1)"
    s["unary_not"] = "shout(" + "not " * n + "true)"
    s["unary_minus"] = "shout(" + "minus " * n + "1)"
    s["binary_right"] = "shout(" + "1 add (" * n + "1" + ")" * n + ")"
    s["binary_left"] = "shout(1" + " add 1" * n + ")"
    s["index_chain"] = "make a get [1]\nshout(a" + "[0]" * n + ")"
    s["member_chain"] = "shout(\"a\"" + ".trim()" * n + ")"
    s["call_args"] = "do f(x) start return x end\nshout(" + "f(" * n + "1" + ")" * n + ")"
    s["nested_block"] = "start\n" * n + "shout(1)\n" + "end\n" * n
    s["nested_if"] = "if to say (true) start\n" * n + "shout(1)\n" + "end\n" * n
    s["nested_loop"] = "make i get 0\n" + "jasi (i small pass 1) start\n" * n + "i get 1\n" + "end\n" * n
    s["nested_def"] = "".join("do f%d() start\n" % i for i in range(n)) + "return 1\n" + "end\n" * n
    # chains at many nesting levels: level d wraps `[..]` in n - d index steps (no level is deep on its own, the tree is)
    t = "1"
    for d in range(min(n, 240), 1, -1):
        t = "[" + t + "]" + "[0]" * (min(n, 240) - d)
    s["chain_sum"] = "make a get " + t + "\nshout(1)"
    s["else_chain"] = "if to say (false) start end\n" + "if not so start if to say (false) start end\n" * n + "if not so start shout(1) end\n" + "end\n" * n
    return s


RUNTIME = {
    "rec_direct": "do f() start return f() end\nshout(f())",
    "rec_mutual": "do f() start return g() end\ndo g() start return f() end\nshout(f())",
    "rec_arg": "do f(x) start return f(f(x)) end\nshout(f(1))",
    "rec_cond": "do f() start if to say (f()) start end return true end\nshout(f())",
    "rec_array_literal": "do f(n) start return [f(n add 1)] end\nshout(f(0))",
    "rec_concat": "do f() start return \"a\" add f() end\nshout(f())",
    "rec_interpolation": "do f(n) start make s get f(n add 1) return \"<{s}>\" end\nshout(f(0))",
    "rec_index": "do f(n) start make a get [1] return a[f(n)] end\nshout(f(0))",
    "rec_stmt": "do f() start f() end\nf()",
    "rec_loop": "do f() start jasi (true) start f() end end\nf()",
    "rec_block": "do f() start start start f() end end end\nf()",
    "rec_method_arg": "do f() start return \"a\".replace(\"a\", f()) end\nshout(f())",
}


def deep_data(n):
    pre = "make a get []\nmake i get 0\njasi (i small pass %d) start\n a get [a]\n i get i add 1\nend\n" % n
    return {"deep_data_clone": pre + "make b get a\nshout(1)", "deep_data_print": pre + "shout(a)", "deep_data_store": pre + "make c get [0]\nc[0] get a\nshout(1)",
            "deep_data_join": pre + "shout(a.join(\",\"))", "deep_data_compare": pre + "make b get a\nshout(1)"}


GROW = {"literal": " a get [a]\n", "push": " make b get [0]\n b.push(a)\n a get b\n", "store": " make b get [[0]]\n b[0][0] get a\n a get b\n",
        "nested_push": " make b get [[0]]\n b[0].push(a)\n a get b\n"}
WALKS = {"clone": "make c get a\nshout(1)", "print": "shout(a)", "join": "shout(a.join(\",\").len())", "store": "make c get [0]\nc[0] get a\nshout(1)",
         "arg_return": "do id(p) start return p end\nmake c get id(a)\nshout(1)", "interpolate": "make t get \"<{a}>\"\nshout(t.len())",
         "compare": "make c get a\nshout(a na c)", "typeof_len": "shout(typeof(a))\nshout(a.len())", "reverse_pop": "a.reverse()\nmake c get a.pop()\nshout(1)"}


def data_program(n, how, walk, at_recursion_depth=None):
    """An array nested n levels (grown one level per loop iteration by `how`), then one walk over it -
    optionally performed at the bottom of a recursion that many calls deep."""
    pre = "make a get [1]\nmake i get 0\njasi (i small pass %d) start\n%s i get i add 1\nend\n" % (n, GROW[how])
    if at_recursion_depth is None:
        return pre + WALKS[walk]
    body = "\n".join("  " + ln for ln in WALKS[walk].split("\n"))
    return pre + "do down(n) start\n if to say (n na 0) start\n%s\n  return 0\n end\n return 1 add down(n minus 1)\nend\nshout(down(%d))" % (body, at_recursion_depth)


NAMES = {}      # the crate's own texts for the two diagnostics this check looks for (filled in by run())


def run_one(binp, src, td, timeout):
    path = os.path.join(td, "t.ns")
    with open(path, "w") as f:
        f.write(src)
    try:
        p = subprocess.run([binp, "t.ns"], cwd=td, capture_output=True, timeout=timeout)
    except subprocess.TimeoutExpired:
        return "timeout"
    err = p.stderr.decode(errors="replace")
    out = p.stdout.decode(errors="replace")
    if p.returncode < 0 or "overflowed its stack" in err or "SIGSEGV" in err:
        return "NATIVE-CRASH(rc=%d)" % p.returncode
    if "panicked" in err:
        return "PANIC"
    if "memory allocation of" in err:
        return "out-of-memory"
    if NAMES.get("so", "Stack overflow") in out:
        return "diag:Stack overflow"
    return "ok" if p.returncode == 0 else "diag"


def mixed(k):
    """Nestings that spread the accepted depth over several routines at once: k levels of each."""
    expr = "(" * k + "1" + " add (1" * k + ")" * k + ")" * k
    body = "shout(" + "not " * k + "(" + expr + " na 0))\n"
    s = {}
    s["mixed_block_if_expr"] = "start\n" * k + "if to say (true) start\n" * k + body + "end\n" * (2 * k)
    s["mixed_def_loop_expr"] = "".join("do g%d() start\n" % i for i in range(k)) + "make i get 0\n" + "jasi (i small pass 1) start\n" * k + body + "i get 1\n" + "end\n" * k + "return 1\n" + "end\n" * k
    s["mixed_call_index_member"] = "do f(x) start return x end\nmake a get [[1]]\nshout(" + "f(" * k + "a" + "[0]" * 1 + ".len()" + ")" * k + ")"
    # the accepted nest evaluated at every level of an unbounded recursion
    s["rec_nest"] = "do f() start\n return " + "(" * k + "f()" + ")" * k + "\nend\nshout(f())"
    # plain blocks evaluate nothing: the longest stretch between two stack probes the front end accepts
    s["rec_nest_blocks"] = "do f() start\n" + "start\n" * (2 * k) + "return f()\n" + "end\n" * (2 * k) + "return 1\nend\nshout(f())"
    # the worst case for a budget probe: a recursion that climbs in SMALL steps and, at every level, runs the longest
    # stretch the front end accepts without evaluating anything (nested blocks around a bare `return`) - some level
    # starts that stretch with the stack just below the budget
    s["rec_fine_steps_then_deep"] = "do deep() start\n" + "start\n" * (2 * k) + "return\n" + "end\n" * (2 * k) + "end\ndo climb(n) start\n deep()\n return climb(n add 1)\nend\nshout(climb(0))"
    s["rec_fine_steps_then_deep_ifs"] = "do deep() start\n" + "if to say (true) start\n" * k + "start\n" * k + "return\n" + "end\n" * (2 * k) + "end\ndo climb(n) start\n deep()\n return climb(n add 1)\nend\nshout(climb(0))"
    return s


def frontier(binp, gen, name, td, hi=4096):
    """Largest n <= hi for which the front end still accepts gen(n)[name] (no 'Nesting too deep')."""
    def accepted(n):
        path = os.path.join(td, "f.ns")
        with open(path, "w") as f:
            f.write(gen(n)[name])
        p = subprocess.run([binp, "f.ns"], cwd=td, capture_output=True, timeout=300)
        # accepted = not refused by the front end's limit; a native crash at n is NOT a refusal (the run at the
        # frontier below reports it)
        return NAMES.get("deep", "Nesting too deep") not in p.stdout.decode(errors="replace")
    if accepted(hi):
        return hi
    lo = 1
    while hi - lo > 1:
        mid = (lo + hi) // 2
        if accepted(mid):
            lo = mid
        else:
            hi = mid
    return lo


def run(tier):
    v = common.Verdict("C08", tier, "exploration")
    q = tier == "quick"
    m = tlc.run("stack/StackGuard.tla", "stack/StackGuard.cfg", workers=2, timeout=300, coverage=False)
    if m.rc != 0 or m.timed_out:
        raise common.ToolError("StackGuard failed: %s" % m.errors[:3])
    af = tlc.run("stack/StackGuard.tla", "stack/StackGuardAsFound.cfg", workers=2, timeout=300, coverage=False)
    if af.rc != 0 or not any(not (c["guarded"] or c["bounded"]) and "paren" in c["shapes"] for c in af.records):
        raise common.ToolError("StackGuard (as found, no parser limit) does not report the syntactic cycles as unbounded: vacuous model")
    model = {}
    for c in m.records:
        for sh in c["shapes"]:
            model[sh] = model.get(sh, True) and (c["guarded"] or c["bounded"])
    common.build_harness()
    import langcheck
    info = langcheck.info()
    NAMES.update(so=info["runtime"]["Stack overflow"], deep=info["syntax"]["nesting-too-deep"])
    bins = {"debug": common.build_naija(False), "release": common.build_naija(True)}
    depths = [100, 1000, 10000] + ([] if q else [100000, 1000000])
    results = {}
    frontiers = {}
    evaluations = 0
    with tempfile.TemporaryDirectory(prefix="c08_", dir=os.path.join(common.VERIF, "work")) as td:
        for prof, binp in bins.items():
            for name in syntactic(1):
                res = []
                for n in depths:
                    if prof == "debug" and n > 100000:
                        break
                    r = run_one(binp, syntactic(n)[name], td, 120 if q else 600)
                    evaluations += 1
                    res.append((n, r))
                    if r.startswith("NATIVE") or r in ("timeout", "PANIC"):
                        break
                results[(name, prof)] = res
                # the deepest nest the front end accepts: the worst case every later pass has to survive
                fr = frontier(binp, syntactic, name, td)
                r = run_one(binp, syntactic(fr)[name], td, 300)
                evaluations += 1
                res.append(("deepest-accepted:%d" % fr, r))
                frontiers["%s/%s" % (name, prof)] = fr
            for name in mixed(1):
                fr = frontier(binp, mixed, name, td)
                r = run_one(binp, mixed(fr)[name], td, 300)
                evaluations += 1
                results[(name, prof)] = [("deepest-accepted:%d" % fr, r)]
                frontiers["%s/%s" % (name, prof)] = fr
                if not name.startswith("rec_"):
                    r2 = run_one(binp, mixed(100000)[name], td, 300)
                    evaluations += 1
                    results[(name, prof)].append((100000, r2))
            for name, src in RUNTIME.items():
                r = run_one(binp, src, td, 120)
                evaluations += 1
                results[(name, prof)] = [("unbounded", r)]
            # long RUNS (not nesting): recursion per token of a run in the scanner or in the parser's error recovery
            for name, n, src in (("run_comment_lines", 300000, "# c\n" * 300000 + "shout(1)\n"),
                                 ("run_blank_lines", 300000, "\n \t\n" * 300000 + "shout(1)\n"),
                                 ("run_stray_parens_in_block", 9000, "start\n" + ") " * 9000 + "\nend\n"),
                                 ("run_stray_commas_in_block", 9000, "do f() start\n" + ", " * 9000 + "\nend\n")):
                r = run_one(binp, src, td, 600)
                evaluations += 1
                results[(name, prof)] = [(n, r)]
            for n in ([3000, 30000] if q else [3000, 30000, 100000]):
                for name, src in deep_data(n).items():
                    if (name, prof) in results and results[(name, prof)][-1][1].startswith("NATIVE"):
                        continue
                    r = run_one(binp, src, td, 120 if q else 600)
                    evaluations += 1
                    results.setdefault((name, prof), []).append((n, r))
            # data depth: the deepest array each way of growing accepts, every walk over it, and the
            # walk performed at the bottom of the deepest recursion the stack budget allows
            def data_ok(n, how):
                return run_one(binp, data_program(n, how, "typeof_len"), td, 300) == "ok"
            for how in GROW:
                lo, hi = 1, 8192
                if data_ok(hi, how):
                    lo = hi
                while hi - lo > 1:
                    mid = (lo + hi) // 2
                    if data_ok(mid, how):
                        lo = mid
                    else:
                        hi = mid
                frontiers["data:%s/%s" % (how, prof)] = lo
                for walk in WALKS:
                    r = run_one(binp, data_program(lo, how, walk), td, 300)
                    evaluations += 1
                    results[("data_%s_%s" % (how, walk), prof)] = [("deepest-accepted:%d" % lo, r)]
                r = run_one(binp, data_program(100000, how, "print"), td, 300)
                evaluations += 1
                results[("data_%s_print" % how, prof)].append((100000, r))
            def rec_ok(d):
                return run_one(binp, data_program(1, "literal", "clone", at_recursion_depth=d), td, 300) == "ok"
            lo, hi = 1, 1 << 20
            while hi - lo > 1:
                mid = (lo + hi) // 2
                if rec_ok(mid):
                    lo = mid
                else:
                    hi = mid
            frontiers["recursion-depth-before-stack-overflow/%s" % prof] = lo
            deepest = frontiers["data:literal/%s" % prof]
            for walk in WALKS:
                for d in (lo, lo - 1, lo - 8):
                    r = run_one(binp, data_program(deepest, "literal", walk, at_recursion_depth=max(d, 1)), td, 300)
                    evaluations += 1
                    results.setdefault(("data_walk_at_stack_limit_%s" % walk, prof), []).append(("recursion %d, data %d" % (d, deepest), r))
    notes = []
    for (name, prof), res in sorted(results.items()):
        bad = [x for x in res if x[1].startswith("NATIVE") or x[1] == "PANIC"]
        last_n, last = bad[0] if bad else res[-1]
        if bad:
            v.finding("native:%s:%s" % (name, prof), "shape %s, %s build: the process dies natively at depth %s (%s); all depths: %s" % (name, prof, last_n, last, res),
                      {"shape": name, "profile": prof, "depth": last_n, "result": last, "history": res})
        g = model.get(name)
        if g is True and (last.startswith("NATIVE")):
            notes.append("model says guarded but crashed: %s/%s" % (name, prof))
        if g is False and not last.startswith("NATIVE"):
            notes.append("model says unguarded, survived depth %s: %s/%s (%s)" % (last_n, name, prof, last))
    shapes = sorted({k[0] for k in results})
    v.coverage = {"evaluations": evaluations, "distinct_nontrivial": len(results),
                  "rule": "every shape named by StackGuard.tla's cycles (plus runtime recursion variants) x {debug, release} x depths doubling until a crash; non-trivial = the deepest/unbounded instance of each (shape, build)",
                  "samples": [{"shape": "paren", "depth": 100, "source": syntactic(100)["paren"][:120] + "..."}, {"shape": "rec_arg", "source": RUNTIME["rec_arg"]}],
                  "model_cycles": len(m.records), "deepest_accepted_nesting": frontiers, "as_found_model_unbounded_cycles": sum(1 for c in af.records if not (c["guarded"] or c["bounded"])), "model_states": m.distinct, "shapes": shapes, "depths": depths,
                  "results": {"%s/%s" % k: r for k, r in sorted(results.items())}, "model_vs_native_notes": notes, "exhaustive": False}
    v.assumptions = ["native stack use is a property of compiled code: the verdict is the exit status of the real binary on this machine's default 8 MiB stack", "depths are sampled by doubling, not exhaustive"]
    return v.finish()


def replay(path):
    import replaytool
    return replaytool.replay("C08", path)
